#!/venv/bin/python
"""Hand-made cross-feature mutations for the whole-program fuzzing (harness/pipeline.py).
    tools/pipe_mutations.py [name ...]        (no argument: all)
For each mutation: scratch copy of /repo with the edit, scratch copy of /verif, `./check PIPE --tier quick` there with
KA_REPO=<copy>; prints whether the run reports a violation and the first disagreeing program.  Nothing outside the scratch
directory is touched."""
import os, sys, shutil, subprocess, json, tempfile, glob
V = os.path.dirname(os.path.dirname(os.path.abspath(__file__)))
MUTS = {
 "M1-comprehension-no-restore": [("src/ka/eval.py", "        env.restore_variables(saved)\n", "        pass\n")],
 "M2-array-keeps-lazy": [("src/ka/eval.py", "return Array([resolve_lazy(v) for v in child_values])", "return Array(list(child_values))")],
 "M3-sum-starts-from-zero": [("src/ka/functions.py", "    result = arr.contents[0]\n    for i in range(1, len(arr.contents)):\n        result = dispatch(\"+\", (result, arr.contents[i]))",
                              "    result = 0\n    for i in range(0, len(arr.contents)):\n        result = dispatch(\"+\", (result, arr.contents[i]))")],
 "M4-offset-scaled-by-multiple": [("src/ka/eval.py", "Quantity(multiple*magnitude + offset, qv)", "Quantity(multiple*(magnitude + offset), qv)")],
 "M5-backward-comparison-keeps-operand-order": [("src/ka/parse.py", "        ops.reverse()\n        terms.reverse()\n", "        ops.reverse()\n")],
 "M6-integral-float-stays-float": [("src/ka/types.py", "            return int(whole)\n", "            return x\n")],
 "M7-interval-abs-ignores-zero": [("src/ka/functions.py", "0 if interval_contains(intr, 0) else dispatch(\"min\", vs)", "dispatch(\"min\", vs)")],
 "M8-even-median-takes-upper": [("src/ka/functions.py", "(arr_sorted[mid_i-1],\n                                        arr_sorted[mid_i])", "(arr_sorted[mid_i],\n                                        arr_sorted[mid_i])")],
 "M9-conversion-skips-offset": [("src/ka/eval.py", "(dispatch(\"-\", (quantity.mag, offset)),", "(quantity.mag,")],
 "M11-huge-fraction-approximation": [("src/ka/interpret.py", "return \"~\" + sign + \"1e\" + str(len(str(whole)) - 1)", "return \"~\" + sign + \"1e\" + str(len(str(whole)))")],
 "M12-mixed-fraction-loses-sign": [("src/ka/interpret.py", "s = (f\"{sign*whole_part} {abs(f) - whole_part}\"", "s = (f\"{whole_part} {abs(f) - whole_part}\"")],
 "M13-unit-symbol-prefix-before-name-prefix": [("src/ka/units.py", "    if name in NAME_TO_UNIT:\n        return NAME_TO_UNIT[name]\n    if name in SYMBOL_TO_UNIT:\n        return SYMBOL_TO_UNIT[name]\n",
                                                "    if name in SYMBOL_TO_UNIT:\n        return SYMBOL_TO_UNIT[name]\n    if name in NAME_TO_UNIT:\n        return NAME_TO_UNIT[name]\n")],
 # instants and probability (Props/Pipeline3.lean; the unified model calls Model/Instant.lean and Model/Prob.lean)
 "N1-lt-discrete-uses-floor": [("src/ka/probability.py", "            return left.cdf(math.ceil(right)-1)\n", "            return left.cdf(math.floor(right))\n")],
 "N2-double-lower-bound-not-adjusted": [("src/ka/probability.py", "            x_adjusted = math.ceil(x_adjusted) - 1\n", "            x_adjusted = math.ceil(x_adjusted)\n")],
 "N3-binomial-mean": [("src/ka/probability.py", "        return self.n * self.p\n", "        return self.n * (1 - self.p)\n")],
 "N4-uniformint-cdf-off-by-one": [("src/ka/probability.py", "        return (x-self.lo+1)/(self.hi-self.lo+1)\n", "        return (x-self.lo)/(self.hi-self.lo+1)\n")],
 "N5-geometric-accepts-zero": [("src/ka/probability.py", "        if p <= 0 or p > 1:\n            raise InvalidParameterException(f\"Parameter p for Geometric", "        if p < 0 or p > 1:\n            raise InvalidParameterException(f\"Parameter p for Geometric")],
 "N6-ceil-instant-day-plus-one": [("src/ka/types.py", "    return Instant(floor_instant(inst).dt + timedelta(days=1))", "    dt = inst.dt\n    return Instant(datetime(dt.year, dt.month, dt.day+1))")],
 "N7-instant-str-space": [("src/ka/types.py", "        return self.dt.isoformat()\n", "        return str(self.dt)\n")],
 "N8-instant-minus-int-adds": [("src/ka/types.py", "def instant_minus_int(inst, i):\n    delta = timedelta(days=i)\n    return Instant(inst.dt - delta)", "def instant_minus_int(inst, i):\n    delta = timedelta(days=i)\n    return Instant(inst.dt + delta)")],
 "N9-instant-leq-strict": [("src/ka/types.py", "    return I1.dt <= I2.dt\n", "    return I1.dt < I2.dt\n")],
 "N10-year-month-completion": [("src/ka/types.py", "        s += \"-01\"\n", "        s += \"-02\"\n")],
 "N11-validate-time-skipped-on-minus": [("src/ka/types.py", "def instant_minus_quantity(inst, q):\n    validate_time(q)\n", "def instant_minus_quantity(inst, q):\n")],
 "N12-event-eq-accepts-right": [("src/ka/probability.py", "        if x == 1: return self.p\n", "        if x == 1: return 1 - self.p\n")],
 "N13-exponential-cdf-no-guard": [("src/ka/probability.py", "        if x < 0:\n            return 0\n        return 1-math.exp(-self.lam * x)", "        return 1-math.exp(-self.lam * x)")],
 "N14-gaussian-sqrt2": [("src/ka/probability.py", "(self.stddev*math.sqrt(2))", "(self.stddev*2)")],
 "N15-span-seconds-int": [("src/ka/types.py", "def instant_plus_quantity(inst, q):\n    validate_time(q)\n    delta = timedelta(seconds=float(q.mag))", "def instant_plus_quantity(inst, q):\n    validate_time(q)\n    delta = timedelta(seconds=int(q.mag))")],
 "M10-conditions-short-circuit": [("src/ka/eval.py", "            if result == 0:\n                success = False\n", "            if result == 0:\n                success = False\n                break\n")],
}
names = sys.argv[1:] or list(MUTS)
for name in names:
    tmp = tempfile.mkdtemp(prefix="pipemut-")
    try:
        repo, verif = os.path.join(tmp, "repo"), os.path.join(tmp, "verif")
        shutil.copytree("/repo", repo, ignore=shutil.ignore_patterns(".git"))
        shutil.copytree(V, verif, ignore=shutil.ignore_patterns(".git", "replays", "seeded"), symlinks=True)
        for f, old, new in MUTS[name]:
            p = os.path.join(repo, f); s = open(p).read()
            assert s.count(old) == 1, (name, f, s.count(old))
            open(p, "w").write(s.replace(old, new))
        ex = os.path.join(verif, "tools", "driver_exclude.txt")
        if os.path.exists(ex) and "Eval" in open(ex).read().split():
            open(ex, "w").write(" ".join(w for w in open(ex).read().split() if w != "Eval"))
            subprocess.run([os.path.join(verif, "tools", "mkdriver.py")], stdout=subprocess.DEVNULL)
        env = dict(os.environ, KA_REPO=repo)
        r = subprocess.run([os.path.join(verif, "check"), "PIPE", "--tier", "quick"], env=env, capture_output=True, text=True, timeout=3600)
        line = [l for l in r.stdout.split("\n") if l.startswith("VIOLATION") or l.startswith("INFRA")]
        first = ""
        for rp in glob.glob(os.path.join(verif, "replays", "PIPE-*.json")):
            d = json.load(open(rp))
            det = (d.get("detail") or d.get("broken_obligations") or [{}])[0]
            first = (det.get("what", "") + " " + str(det.get("detail", ""))[:260])
        ev = json.load(open(os.path.join(verif, "evidence", "PIPE.json")))["coverage"].get("pipeline", {})
        print("%-45s rc=%d %s" % (name, r.returncode, "CAUGHT" if r.returncode == 1 else "missed" if r.returncode == 0 else "infra"))
        print("     run: %s   runsess: %s" % ({k: ev.get("run", {}).get(k) for k in ("total", "modelled", "disagreements")},
                                              {k: ev.get("runsess", {}).get(k) for k in ("inputs", "disagreements")}))
        if first:
            print("     " + first)
    finally:
        shutil.rmtree(tmp, ignore_errors=True)
