#!/bin/sh
# run_patched.sh <patch.diff> <check id> [tier]  -- run one check against a patched private copy of /repo with a private copy of /verif; print full output
set -e
P=$(realpath "$1"); C=$2; T=${3:-quick}
D=$(mktemp -d /tmp/runpatched-XXXXXX)
trap 'rm -rf "$D"' EXIT
cp -a /repo "$D/repo"; rm -rf "$D/repo/.git"
(cd "$D/repo" && patch -s -p1 -i "$P")
V=$(dirname "$(dirname "$(realpath "$0")")")
rsync -a --exclude .git --exclude replays --exclude seeded --exclude benign "$V/" "$D/verif/"
cd "$D/verif"
KA_REPO="$D/repo" ./check "$C" --tier "$T" 2>&1 | tail -${TAIL:-40}
for r in $(ls replays 2>/dev/null | head -3); do echo "--- $r"; head -c ${RBYTES:-1500} replays/$r; echo; done
