/-! ### non-vacuity: the hypotheses are satisfiable and both sides compute the same concrete answers -/

/-- a small dispatcher on ints (what `dispatch` does on the int operands used below) -/
def Bodies.stubNum (nm : String) (as : List Val) : R Num :=
  match nm, as with
  | "abs", [.num (.int x)] => .ok (.int x.natAbs)
  | "<=", [.num (.int x), .num (.int y)] => .ok (.int (if x ≤ y then 1 else 0))
  | "<", [.num (.int x), .num (.int y)] => .ok (.int (if x < y then 1 else 0))
  | "min", [.num (.int x), .num (.int y)] => .ok (.int (min x y))
  | "max", [.num (.int x), .num (.int y)] => .ok (.int (max x y))
  | "+", [.num (.int x), .num (.int y)] => .ok (.int (x + y))
  | "*", [.num (.int x), .num (.int y)] => .ok (.int (x * y))
  | _, _ => .error (.err .noMatch)

def Bodies.stub : Disp := fun nm as => (Bodies.stubNum nm as).map .num

/-- `NumDisp` is satisfiable by a dispatcher that is not the real one as well -/
example : NumDisp Bodies.stub := fun _ _ _ v hv => numResult_map _ v hv

/-- `abs([-3, 2]) = [0, 3]` through the translated body and through the hand-written body -/
example : arity1 interval_abs Bodies.stub [.intv (.int (-3)) (.int 2)] = .ok (.intv (.int 0) (.int 3)) := by rfl
example : BodyCode.run .ivAbs Bodies.stub [.intv (.int (-3)) (.int 2)] = .ok (.intv (.int 0) (.int 3)) := by rfl
example : wellTyped [.intv] Option.none [.intv (.int (-3)) (.int 2)] = true := by decide

/-- `[1, 4] * -2 = [-8, -2]` -/
example : arity2 (make_interval_with_num_op__op "*") Bodies.stub [.intv (.int 1) (.int 4), .num (.int (-2))]
    = .ok (.intv (.int (-8)) (.int (-2))) := by rfl
example : BodyCode.run (.ivNumOp "*") Bodies.stub [.intv (.int 1) (.int 4), .num (.int (-2))]
    = .ok (.intv (.int (-8)) (.int (-2))) := by rfl

/-- `sum({1, 2, 3}) = 6`, `max({1, 3, 2}) = 3` -/
example : arity1 array_sum Bodies.stub [.arr [.num (.int 1), .num (.int 2), .num (.int 3)]] = .ok (.num (.int 6)) := by rfl
example : BodyCode.run .arrSum Bodies.stub [.arr [.num (.int 1), .num (.int 2), .num (.int 3)]] = .ok (.num (.int 6)) := by rfl
example : arity1 array_max Bodies.stub [.arr [.num (.int 1), .num (.int 3), .num (.int 2)]] = .ok (.num (.int 3)) := by rfl
example : BodyCode.run .arrMax Bodies.stub [.arr [.num (.int 1), .num (.int 3), .num (.int 2)]] = .ok (.num (.int 3)) := by rfl

/-- the side condition of the `lo..hi` theorem is satisfiable -/
example : ∀ lo hi : Int, [Val.num (.int 1), Val.num (.int 5)] = [.num (.int lo), .num (.int hi)] → (hi + 1 - lo).toNat ≤ maxRange := by
  intro lo hi h
  simp only [List.cons.injEq, Val.num.injEq, Num.int.injEq, and_true] at h
  obtain ⟨rfl, rfl⟩ := h
  decide

/-- an answer as text (`Val` holds floats and has no decidable equality; the hand-written `bKaRange` computes its round bound
    with `Rat` division, which only the kernel evaluates) -/
def Bodies.showR : R Val → String
  | .ok (.arr xs) => "arr " ++ " ".intercalate (xs.map fun | .num n => n.render | _ => "?")
  | .ok _ => "other"
  | .error (.err e) => "err " ++ e.code
  | .error _ => "declined"

/-- `range(1, 5, 2) = {1, 3, 5}` through the translated `while` loop and through the hand-written loop; the side condition of
    `BODIES_range_Number_Number_Number` holds there (neither side answers with its bound) -/
example : Bodies.showR (arity3 (ka_range pyLoopFuel) Bodies.stub [.num (.int 1), .num (.int 5), .num (.int 2)]) = "arr i:1 i:3 i:5" ∧
    Bodies.showR (BodyCode.run .kaRange Bodies.stub [.num (.int 1), .num (.int 5), .num (.int 2)]) = "arr i:1 i:3 i:5" := by
  constructor <;> decide +kernel
example : wellTyped [.num, .num, .num] Option.none [.num (.int 1), .num (.int 5), .num (.int 2)] = true := by decide
/-- a step that makes no progress (`+` returning its left operand, as `1e16 + 0.5` does) is FunctionArgError on both sides -/
example : Bodies.showR (arity3 (ka_range pyLoopFuel) (fun nm as => match nm, as with | "+", [x, _] => .ok x | _, _ => Bodies.stub nm as)
      [.num (.int 1), .num (.int 5), .num (.int 2)]) = "err funarg" ∧
    Bodies.showR (BodyCode.run .kaRange (fun nm as => match nm, as with | "+", [x, _] => .ok x | _, _ => Bodies.stub nm as)
      [.num (.int 1), .num (.int 5), .num (.int 2)]) = "err funarg" := by
  constructor <;> decide +kernel

/-! ### the evaluator that runs whole programs through the translated bodies is `Model/Eval.lean`'s evaluator -/

/-- **`Model/EvalG.lean` is not a trusted copy.**  The stream `runG` evaluates whole programs with `EvalG.evalEW … runSessionW`:
    `Eval.evalE`, `evalEs`, `evalKs`, `evalConds`, `evalStmt`, `runStmts`, `runProgram`, `evalAst`, `runTree`, `runTokens`, `runIn`,
    `runText`, `runSession` written once more with the dispatcher as a parameter (so that `dispatchTopG`, which prefers the bodies
    translated from the source, can be put in).  Instantiated with the hand-written model's dispatcher
    `Eval.dispatchTop = fun nm as kw => Eval.dispatchV Eval.dispatchFuel nm as kw`, each of them IS the corresponding definition of
    `Model/Eval.lean` — on every tree, token list, text and session (structural induction over `Parser.Ast`, mutual with the
    list versions; lists of statements / inputs by induction).  Hence `runG` differs from `run` in the dispatcher ONLY
    (instants, random variables, events, display of the new kinds included), and a copy that falls behind `Model/Eval.lean`
    stops building. -/
theorem BODIES_evalG_instance :
    (∀ env t, EvalG.evalEW dispatchTop env t = evalE env t) ∧
    (∀ env ts, EvalG.evalEsW dispatchTop env ts = evalEs env ts) ∧
    (∀ env ks, EvalG.evalKsW dispatchTop env ks = evalKs env ks) ∧
    (∀ cs, EvalG.evalCondsW dispatchTop cs = evalConds cs) ∧
    (∀ env t, EvalG.evalStmtW dispatchTop env t = evalStmt env t) ∧
    (∀ env last ss, EvalG.runStmtsW dispatchTop env last ss = runStmts env last ss) ∧
    (∀ env t, EvalG.runProgramW dispatchTop env t = runProgram env t) ∧
    (∀ env t, EvalG.evalAstW dispatchTop env t = evalAst env t) ∧
    (∀ env t, EvalG.runTreeW dispatchTop env t = runTree env t) ∧
    (∀ env toks, EvalG.runTokensW dispatchTop env toks = runTokens env toks) ∧
    (∀ env s, EvalG.runInW dispatchTop env s = runIn env s) ∧
    (∀ s, EvalG.runTextW dispatchTop s = runText s) ∧
    (∀ env lost ss, EvalG.runSessionW dispatchTop env lost ss = runSession env lost ss) :=
  ⟨fun env t => evalEW_top t env, fun env ts => evalEsW_top ts env, fun env ks => evalKsW_top ks env, evalCondsW_top,
   evalStmtW_top, runStmtsW_top, runProgramW_top, evalAstW_top, runTreeW_top, runTokensW_top, runInW_top, runTextW_top,
   runSessionW_top⟩

/-- the dispatcher of the instantiation, written out -/
example : dispatchTop = fun nm as kw => dispatchV dispatchFuel nm as kw := rfl

/-- the same evaluator with the translated bodies' dispatcher is what the stream `runG` runs; an instant and a probability
    go through it (they were `unmodelled` in the copy before it was brought up to date) -/
example : (EvalG.runTextW EvalG.dispatchTopG "#2024-03-01# + 1 day").render = "ok 2024-03-02T00:00:00\n" ∧
    (EvalG.runTextW EvalG.dispatchTopG "P(Binomial(4, 1/2) = 2)").render = "ok 3/8     (0.375)\n" ∧
    (EvalG.runTextW EvalG.dispatchTopG "range(1, 3, 1/2)").render = "ok {1, 3/2, 2, 5/2, 3}\n" := by
  refine ⟨?_, ?_, ?_⟩ <;> decide +kernel

