#!/venv/bin/python
"""Confirm a candidate seeded change and store it:  store_seed.py <seed id> <property id> <dir with patch.diff demo.py notes.md> [first-attempt text]
Runs tools/try_seed.py (private copies); stores seeded/<id>/ only when the patch applies, the repo's tests pass, the demo
passes on the clean tree and fails on the changed one.  meta.json records whether and how ./check <property> reports it."""
import os, sys, json, subprocess, shutil
V = os.path.dirname(os.path.dirname(os.path.abspath(__file__)))
sid, prop, d = sys.argv[1], sys.argv[2], os.path.abspath(sys.argv[3])
first = sys.argv[4] if len(sys.argv) > 4 else None
p = subprocess.run([os.path.join(V, "tools", "try_seed.py"), prop, d], stdout=subprocess.PIPE, stderr=subprocess.STDOUT, text=True)
r = json.loads(p.stdout[p.stdout.index("{"):])
okc = r.get("patch_applies") and r.get("tests_rc") == 0 and r.get("demo_clean_rc") == 0 and r.get("demo_mutated_rc") not in (0, None)
c = r["checks"][prop]
print(sid, "confirmed" if okc else "NOT CONFIRMED", "check rc", c["rc"], c.get("replay_kind"), (c.get("first") or {}).get("key"))
if not okc:
    print(json.dumps({k: r[k] for k in r if k != "checks"}, indent=1)); sys.exit(1)
out = os.path.join(V, "seeded", sid)
os.makedirs(out, exist_ok=True)
for f in ("patch.diff", "demo.py", "notes.md"):
    if os.path.exists(os.path.join(d, f)):
        shutil.copy(os.path.join(d, f), os.path.join(out, f))
notes = open(os.path.join(d, "notes.md")).read() if os.path.exists(os.path.join(d, "notes.md")) else ""
old = json.load(open(os.path.join(out, "meta.json"))) if os.path.exists(os.path.join(out, "meta.json")) else {}
meta = dict(id=sid, property=prop,
            produced_by=old.get("produced_by", "independent sub-agent given only the property text and a scratch worktree of /repo (no access to /verif)"),
            needs_to_manifest=notes[:2500],
            confirmed=dict(how="tools/try_seed.py on private copies of /repo and /verif: demo on clean copy, apply patch, repo test suite, demo on mutated copy, ./check %s --tier quick with KA_REPO=<mutated copy>" % prop,
                           tests=r.get("tests_tail"), demo_clean_exit=r.get("demo_clean_rc"), demo_mutated_exit=r.get("demo_mutated_rc")),
            detection=dict(check=prop, exit=c["rc"], violation_lines=[l.split(" replay=")[0] + (" no-failing-input-found" if l.endswith("no-failing-input-found") else "") for l in c.get("lines", [])],
                           replay_kind=c.get("replay_kind"), first_failing_input=c.get("first"), broken_obligations=c.get("broken"), wall_s=c.get("wall")),
            first_attempt=first or old.get("first_attempt") or ("caught by the check as built" if c["rc"] == 1 else "MISSED"))
json.dump(meta, open(os.path.join(out, "meta.json"), "w"), indent=1)
