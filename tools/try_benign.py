#!/venv/bin/python
"""Run the checks against a HARMLESS change:  try_benign.py <patch.diff> [Cxx ...]   (default: all 20, quick tier)
Private copies of /repo (patched) and /verif; the repo's test suite must pass; then every check with KA_REPO=<copy>.
Prints one line per check; any exit != 0 is a false alarm (or the change is not harmless after all) and its replay is summarised."""
import os, sys, json, subprocess, tempfile, shutil, time
from concurrent.futures import ThreadPoolExecutor
V = os.path.dirname(os.path.dirname(os.path.abspath(__file__)))
patch = os.path.abspath(sys.argv[1])
checks = [a for a in sys.argv[2:] if a.startswith("C")] or ["C%02d" % i for i in range(1, 21)]
par = int(os.environ.get("PAR", "5"))
tmp = tempfile.mkdtemp(prefix="bentry-")
copy = os.path.join(tmp, "repo")
home = os.path.join(tmp, "home"); os.makedirs(home)
res = dict(patch=patch, checks={})
try:
    shutil.copytree("/repo", copy, ignore=shutil.ignore_patterns(".git"))
    vcopy = os.path.join(tmp, "verif")
    shutil.copytree(V, vcopy, ignore=shutil.ignore_patterns(".git", "replays", "seeded"), symlinks=True)
    env = dict(os.environ, HOME=home, PYTHONPATH=os.path.join(copy, "src"), MPLBACKEND="Agg")
    p = subprocess.run(["patch", "-p1", "-i", patch], cwd=copy, stdout=subprocess.PIPE, stderr=subprocess.STDOUT, text=True)
    res["patch_applies"] = p.returncode == 0
    if p.returncode:
        res["patch_out"] = p.stdout[-600:]
    p = subprocess.run(["/venv/bin/python", "-m", "pytest", "-q", "-p", "no:cacheprovider", "tst"], cwd=copy, env=env, stdout=subprocess.PIPE, stderr=subprocess.STDOUT, text=True)
    res["tests"] = p.stdout.strip().split("\n")[-1]
    def one(c):
        t0 = time.time()
        e2 = dict(os.environ, KA_REPO=copy)
        p = subprocess.run([os.path.join(vcopy, "check"), c], stdout=subprocess.PIPE, stderr=subprocess.STDOUT, text=True, env=e2, timeout=5400)
        info = dict(rc=p.returncode, wall=round(time.time() - t0, 1), last=p.stdout.strip().split("\n")[-1][:200])
        lines = [l for l in p.stdout.split("\n") if l.startswith(("VIOLATION", "INFRA", "KNOWN-FINDING"))]
        info["lines"] = lines[:6]
        for l in lines:
            if "replay=" in l:
                rp = l.split("replay=")[1].split()[0]
                try:
                    r = json.load(open(rp))
                    f = r.get("first") or {}
                    info["replay_kind"] = r.get("kind")
                    info["first"] = dict(key=str(f.get("key"))[:300], input=str(f.get("input"))[:300], expected=str(f.get("expected"))[:300], actual=str(f.get("actual"))[:300])
                    info["broken"] = [b["what"][:300] + " :: " + str(b.get("detail", ""))[:600] for b in (r.get("broken_obligations") or r.get("detail") or [])][:5]
                    info["n_failing"] = len(r.get("failing_inputs") or r.get("violations") or [])
                except Exception as e:
                    info["replay_err"] = str(e)
        return c, info
    with ThreadPoolExecutor(par) as ex:
        for c, info in ex.map(one, checks):
            res["checks"][c] = info
            print(c, info["rc"], info["wall"], info["last"], flush=True)
finally:
    if os.environ.get("KEEP"):
        print("kept", tmp)
    else:
        shutil.rmtree(tmp, ignore_errors=True)
bad = {c: i for c, i in res["checks"].items() if i["rc"] != 0}
print(json.dumps(dict(tests=res.get("tests"), patch_applies=res.get("patch_applies"), patch_out=res.get("patch_out"), alarms=bad), indent=1))
