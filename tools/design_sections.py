#!/venv/bin/python
"""One-off editor used while writing DESIGN.md section 12: replaces 12.6, the tail of 12.7 and appends/replaces 12.8
with the texts below (kept under tools/ so that the sections can be regenerated after the numbers change)."""
import os, json, glob
V = os.path.dirname(os.path.dirname(os.path.abspath(__file__)))
p = os.path.join(V, "DESIGN.md")
s = open(p).read()
metas = [json.load(open(f)) for f in sorted(glob.glob(os.path.join(V, "seeded", "*", "meta.json")))]
N = len(metas)
NB = sum(1 for m in metas if m["detection"].get("broken_obligations"))
MISSED = sum(1 for m in metas if not str(m.get("first_attempt", "")).startswith("caught"))

S126 = '''### 12.6 What the seeded changes taught (strengthening after each wave)

Three waves of independent sub-agents (40 + 40 + 40 changes, two per property per wave, plus one
delivered by accident by an agent that had been asked for a *harmless* rework; each agent saw only
the property text and a scratch worktree) produced the %(N)d changes of 12.5. The third wave was
asked to disguise each change as a refactoring and to put one of the two into glue code between
modules. Ten of the first wave, eighteen of the second and fourteen of the third were **missed**
by the checks as they stood (twelve of the fourteen not reported at all, two reported without a
failing input); every one is now reported with a concrete failing input (column "first attempt"
says what was added), and `tools/reval_seeds.py` re-runs all of them after any change to the
machinery (last run: %(N)d/%(N)d caught, all with a failing input). The recurring lessons, all now
part of the harnesses:

* *State that outlives an evaluation.* Caches keyed on `hash()`, `lru_cache` on functions of
  floats and ints (`1 == 1.0`), operands updated in place, `list.sort()` on an argument. →
  `harness/alias_common.py` (operands bound to variables are compared deep-by-value before/after
  every expression, and every expression is evaluated twice) is run by C04, C05, C14 and C17; C01
  evaluates float-typed twins of its exact trees *first* so that a shared cache is already warm.
* *Boundary spellings.* Unit exponent 0, a unit repeated inside one signature, `-40 degC`
  (sign in front of an affine unit), `to degF` from a non-temperature, leading whitespace before a
  fault (marker position), CLI arguments starting with `-`, zero-width `Uniform(a, a)`, `1e+3`
  (explicit plus in an exponent), `%%` alone, a keyword written twice, `0^0.5`, `UniformInt(-3, 3)`.
* *Values that only arise indirectly.* Infinite floats produced without Python raising
  (`1/1.5e-200/1.5e-200`, `1e300 ly`), zero-factor lazies (`0*3!`), results still lazy when they reach
  the interpreter (`5!` handed on for re-entry), failing statements in the middle of a `;`
  sequence, sessions started without an environment, outer bindings with falsy values shadowed by
  a comprehension, reads of unassigned names behind a false condition.
* *Never ask the code under test what the expectation is.* The quantity generator used the real
  `lookup_unit` to decide whether a spelling "reads as intended" and thereby steered around exactly
  the spellings a changed lookup got wrong (`hPa`, `mK`, `min`, `ft`); the reading is now derived from
  the unit *table* by the rule C13 states, and every prefix x unit spelling is swept.
* *Dispatch and glue.* Keyword and variadic arguments through every overload and as text,
  mixed-case and OS-refused paths in user files, history-independence of overload resolution,
  damaged rows in the middle of a currency table, sign aliases of currencies.

A broken proof or correspondence alone never decided a seed: in all %(N)d the oracle produced the
replay. In %(NB)d of them a Lean-side obligation broke as well in the same run (a correspondence stream
disagreed, a translator no longer recognised the source, or a kernel-checked table fact / theorem
no longer built — `detection.broken_obligations` in each `meta.json`), which is what would have
reported the change (as `no-failing-input-found`) had the oracle been blind; the others change
behaviour only outside the modelled fragment's inputs or in glue the oracle alone observes.

''' % dict(N=N, NB=NB)

S127_TAIL = '''`Props/Pipeline2.lean` (27 further theorems, 2 k lines with its lemma file, audited and listed per
property in `harness/pipeline.py` `THEOREMS2`) closes most of the remaining gaps the same way:

| theorems | say | serve |
|---|---|---|
| `PIPE_tokens_of_tree`, `PIPE_text_of_tree`, `PIPE_stages`, `PIPE_parse_marker_inside` | any rendering of a well-formed tree with redundant parentheses runs as the tree; stage 1 is `Lexer.tokenise`, a lexical error is status 1 at its own index and never "out of fuel", a parse-error marker lies inside the input | C02, C06, C11 |
| `PIPE_compare`, `PIPE_compare_node`, `PIPE_compare_semantics`, `PIPE_compare_chain_rejected` | the six comparisons on numbers and quantities are `Compare.dispatchCmp`; the parser's flipped `>`/`>=` node is `Compare.evalCmp`; `a < b < c` on three numbers is rejected (only random variables have the chained overload) | C09 |
| `PIPE_comb`, `PIPE_comb_program`, `PIPE_comb_exact` | `n!`, `C(n,k)`, `*`, `/` evaluate to the same lazy value as `Comb.evalC`, and what is printed is the display of the eager rational | C05 |
| `PIPE_qty_expr`, `PIPE_qty_dim`, `PIPE_unit_lookup` | quantity expressions (`e U`, `e to U`, `+ - * /`, comparisons) evaluate as `Qty.evalQ` over the generated unit table; a unit name resolves by `Units.lookupUnit` | C03, C04, C13 |
| `PIPE_elementary`, `…_call`, `…_domain`, `…_finite` | the 15 one-argument functions and `log(x, b)` are the `Elementary` fragment's, out-of-domain arguments are `KaRuntimeError`, results are never NaN or inf | C16, C06 |
| `PIPE_array_aggregates`, `PIPE_range`, `PIPE_range_step` | `prod mean min max size in`, `lo..hi`, `range(lo, hi, step)` are the `Arr` fragment's | C12 |
| `PIPE_display`, `PIPE_display_int`, `PIPE_display_total` | the printed text is `Display.displayResult` of the value; display never fails | C15 |
| `PIPE_execute`, `PIPE_outcome_shape`, `PIPE_display_stage` | the stages the model runs, fed to C06's handler model over the generated handler tables, give exactly the pipeline's outcome; every input ends in exactly one of ok / lexical / parse / evaluation error / escaped OverflowError (parser only) / unmodelled | C06 |

Still open: comprehensions and `median` (the two models use different environment and sorting
representations; a simulation relation is needed), `range` with float steps, and instants and
probability, which are not inside `Eval` at all (their fragments are tied to the code by their own
streams only). One observation from these proofs is recorded rather than acted on: in `Eval.runTree`
an error raised while *displaying* a lazy value counts as an evaluation error, whereas C06's handler
model lets it escape; `PIPE_display_total` shows display itself cannot fail and `Combinatoric.mul`
rejects zero divisors, so no program reaches the difference (it is an explicit hypothesis of `PIPE_execute`).
'''

S128 = '''### 12.8 Harmless changes: what the checks do when the code changes and the properties still hold

Six further sub-agents (property texts + a scratch worktree, nothing from `/verif`) produced 36
**harmless** changes of the kind a maintainer commits every week — table-driven rewrites of
if-chains, extracted helpers, renamed private functions, `functools.singledispatch` instead of
`isinstance` chains, precedence climbing instead of stacked parser functions, a different
algorithm for `lookup_unit`, memoised overload resolution, reordered registrations, six new
units, unit aliases, new functions (`gcd`, `lcm`, `variance`, `stddev`), a new `%%prefixes`
command, and the rewording of thirty error messages (`benign/ben-N/`, with the authors' notes).
`tools/try_benign.py <diff>` runs all 20 checks against a patched private copy.

**First run: 17 alarms over the six bundles, one of them right.** The one: "rework
`Combinatoric.resolve` by binary splitting" makes `(1e300)!` escape with `RecursionError` where the
unchanged code loops (outside the "small inputs" clause) — a genuine C06 violation, now kept as
seed `C06e`. The other sixteen were false alarms of the machinery, in four families, all repaired:

1. **Wording.** The harness classified diagnosed errors by message text (`"divide by zero" in msg`,
   `"Unknown unit" in err`, `txt.startswith("Unknown interpreter command")`). Rewording a message
   flipped `err divzero` to `err eval`, and C01 even produced a *failing input* for it. Now: the class of
   a diagnosed error comes from the exception's class and, for `EvalError`, from the exception it was
   raised *from* (`__context__` is the `ZeroDivisionError` / `OverflowError`); what "unknown command"
   and "wrong arity" look like is learnt by calling the code on a non-command; oracles demand "a
   diagnosed error", never a particular class (C01 division by zero, C07 domain errors, C08 invalid
   parameters, C19 missing currency unit).
2. **Identity of an implementation.** Generated registry entries were labelled with the Python
   callable's qualified name and closure; extracting a helper renamed the label and broke kernel-checked
   table facts and the unified model's body table. Now the identity of an overload is *function name
   + signature*; when a callable is renamed or restructured the reference label (`genref/registry.json`)
   is kept and listed (`impl_renamed`, shown in the evidence), and what the callable computes is tied by
   correspondence — which is all the label ever asserted.
3. **Tables that cannot be re-derived.** The structural translators (`gen_execute`, `gen_files`,
   `gen_prob`) fail, by design, when a function no longer has the shape they parse (`cli.main`'s
   fast-path condition moved into a helper, `read_config`'s coercion ladder into a table,
   `eval_probability` into two helpers). That loses tie (1) — regenerate and re-check — but not tie (2).
   `harness/core.py` now puts the **reference tables** (`genref/`, the Gen files as generated from the
   reviewed tree by `tools/mkgenref.py`) back, rebuilds so that every theorem is checked again on them,
   remembers what broke (`ctx.retied`) and lets the correspondence streams and the oracle decide against
   the *current* code. All agree → exit 0 with a line `NOTE property=… re-tied by correspondence only: …`
   and an entry in the evidence's assumptions; anything disagrees → `VIOLATION`, with the lost tie named
   first in the replay. The same path is taken when a proof fails on regenerated tables. On the seeded
   changes this alters nothing (each still yields its failing input); a change that both defeats a
   translator and alters behaviour is reported through the stream that cross-checks that table.
   This is a deliberate reading of the brief: a lost translator tie *with* a fully agreeing correspondence
   is a model still tied to the code in the second of the two permitted ways, so the property is still
   shown to hold; a lost tie with nothing to replace it (no stream covers the table, or a stream
   disagrees) is reported as `no-failing-input-found` as before.
4. **Inputs no program can produce, and time.** `IntRange.difference` was compared on empty ranges,
   which never occur inside a `Combinatoric` (a rewrite treated them differently); dropped. The watchdog
   measured wall-clock time, and two orphaned processes that had been throttling the sandbox for seven
   hours showed that a loaded machine can stretch 1 s of work to 8 s; the budget is now **CPU time of the
   checking process** with a wall-clock backstop at ten times the budget, and a reported hang is confirmed
   by a second run under five times the budget. Checks sharing one Lean tree retry the model driver and the
   axiom audit while another check is rebuilding a shared module.

**After the repairs** every bundle passes all 20 checks (the `resolve` rework excluded), also after
the third wave's strengthening, and the %(N)d seeded changes are all still reported with failing
inputs. What remains, stated plainly: renaming a function the *harness* calls directly (`tokenise`,
`parse_tokens`, `eval_parse_tree`, `display_result`, `lookup_unit`, `IntRange.difference`, `FUNCTIONS`)
makes the check exit 2 (infrastructure), never 1; a hand-written model fragment that follows the code
line by line (lexer, parser, display) disagrees with a behaviour-changing rewrite only through its
correspondence stream, which is the point of having it.
''' % dict(N=N)

i = s.index("### 12.6 What the seeded changes taught")
j = s.index("### 12.7 The unified pipeline model")
s = s[:i] + S126 + s[j:]
if "Not yet closed: refinement lemmas" in s:
    k = s.index("Not yet closed: refinement lemmas")
    e = s.index("their own streams only).", k) + len("their own streams only).")
    s = s[:k] + S127_TAIL.rstrip("\n") + s[e:]
else:
    k = s.index("`Props/Pipeline2.lean` (27 further theorems")
    e = s.index("(it is an explicit hypothesis of `PIPE_execute`).", k) + len("(it is an explicit hypothesis of `PIPE_execute`).")
    s = s[:k] + S127_TAIL.rstrip("\n") + s[e:]
if "### 12.8 Harmless changes" in s:
    k = s.index("### 12.8 Harmless changes")
    nxt = s.find("\n### 12.9", k)
    s = s[:k] + S128 + (s[nxt + 1:] if nxt >= 0 else "")
else:
    s = s.rstrip("\n") + "\n\n" + S128
open(p, "w").write(s)
print("DESIGN.md: 12.6 / 12.7 tail / 12.8 written (%d seeds, %d with broken obligations, %d first missed)" % (N, NB, MISSED))
