#!/bin/bash
# evaluate every finished wave-4 candidate that has not been stored yet:  w4_eval.sh [parallelism]
cd /verif
jobs=()
for p in $(ls ${WOUT:-/tmp/w4out}); do
  for x in a b; do
    d=${WOUT:-/tmp/w4out}/$p/$x
    [ -f $d/patch.diff ] && [ -f $d/demo.py ] && [ -f $d/notes.md ] || continue
    [ -f $d/.evaluated ] && continue
    # next free letter
    for L in g h i j k l m n o p q; do [ -d seeded/$p$L ] || [ -f ${WOUT:-/tmp/w4out}/.claimed-$p$L ] || break; done
    touch ${WOUT:-/tmp/w4out}/.claimed-$p$L; touch $d/.evaluated
    jobs+=("$p$L $p $d")
  done
done
printf '%s\n' "${jobs[@]}" | grep . | xargs -P ${1:-3} -L 1 sh -c 'tools/store_seed.py $0 $1 $2 2>&1 | tail -3 | sed "s|^|[$0] |"'
