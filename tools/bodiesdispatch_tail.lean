/-- every key of the translated table has a row above -/
theorem Bodies.keys_covered : ∀ k ∈ Gen.Bodies.bodiesTable.map (·.1), k ∈ Bodies.covered := by decide +kernel

theorem Bodies.resolveDesc_code {nm : String} {cl : List Nat} {kw : List (Nat × Nat)} {pos : List Nat} {va : Option Nat}
    {desc : String} {code? : Option BodyCode} (h : resolveDesc nm cl kw = .ok ⟨pos, va, desc, code?⟩) :
    code? = implTable.lookup desc := by
  unfold resolveDesc at h
  split at h
  · cases h
  · simp only [Except.ok.injEq, Chosen.mk.injEq] at h
    obtain ⟨_, _, rfl, rfl⟩ := h
    rfl

/-- **Resolution implies the argument shapes of the agreement theorems.**  When `dispatch` has chosen a signature of the
    generated registry for the classes of the arguments and `coerce_args` has succeeded, the coerced arguments are well-typed for
    the shapes the translator recorded under the chosen implementation descriptor — the hypothesis `wellTyped` of every
    `BODIES_<name>_<signature>` theorem is met by construction.  (`Bodies.registry_fits`: kernel `decide` over Gen/Registry ×
    Gen/Bodies; a lazy combinatoric under a parameter declared `Number` arrives resolved.) -/
theorem BODIES_resolved_wellTyped {name : String} {args cargs : List Val} {kw : List (Nat × Nat)} {pos : List Nat} {va : Option Nat}
    {desc : String} {code? : Option BodyCode} {sh : List Shape} {va' : Option Shape}
    (hr : resolveDesc name (args.map classOf) kw = .ok ⟨pos, va, desc, code?⟩)
    (hs : Gen.Bodies.bodiesShapes.lookup desc = some (sh, va'))
    (hc : coerceArgs pos va args = .ok cargs) : wellTyped sh va' cargs = true :=
  Bodies.resolved_wellTyped hr hs hc

theorem Bodies.truthy_one : truthy (.int 1) = true := by decide

theorem Bodies.rnum_lt {rec : Disp} (hS : NumSem rec) (x y : Num) :
    rnum rec "<" [x, y] = .ok (.int (if cmpLt x y then 1 else 0)) := by
  simp only [rnum, List.map, hS.1, b2v]
  rfl

theorem Bodies.rnum_le {rec : Disp} (hS : NumSem rec) (x y : Num) :
    rnum rec "<=" [x, y] = .ok (.int (if cmpLe x y then 1 else 0)) := by
  simp only [rnum, List.map, hS.2.2.2, b2v]
  rfl

/-- **The size refusals are shared.**  `EvalG.refusesSize` makes the translated dispatcher decline exactly where the hand-written
    body declines a size, with the same answer: `lo..hi` and `range(lo, hi, step)` beyond `maxRange`, a power with millions of
    digits (for `ka_range`, whose guards go through the callback dispatcher, under `NumSem`). -/
theorem BODIES_refusal_agrees (rec : Disp) (hS : NumSem rec) (code : BodyCode) (cargs : List Val) (why : String)
    (h : refusesSize (some code) cargs = some why) : code.run rec cargs = .error (.unmodelled why) := by
  unfold refusesSize at h
  split at h
  · rename_i lo hi heq
    cases heq
    split at h
    · cases h
      rename_i hc
      simp only [BodyCode.run, bRange, hc, if_true]
    · cases h
  · rename_i x y heq
    cases heq
    split at h
    · cases h
      rename_i hc
      simp only [BodyCode.run, bPow, hc, if_true]
    · cases h
  · rename_i lo hi step heq
    cases heq
    split at h
    · cases h
      rename_i hc
      simp only [Bool.and_eq_true, decide_eq_true_eq] at hc
      obtain ⟨⟨h1, h2⟩, h3⟩ := hc
      simp only [BodyCode.run, bKaRange, Bodies.rnum_lt hS, Bodies.rnum_le hS, h1, h2, h3, if_true, bind, Except.bind,
        Bodies.truthy_one, Bool.not_true, Bool.false_eq_true, if_false]
    · cases h
  · cases h

/-- **One level of dispatch.**  For every dispatcher `rec` the bodies call back into that answers number calls with numbers
    (`NumDisp`) and computes `<`, `<=`, `==`, `int` on numbers as Ka does (`NumSem`), and every call that satisfies `sideOK`:
    `dispatch` over the table of TRANSLATED bodies and `dispatch` over the hand-written table give the same answer (value or
    error) — same resolution over the generated registry, same coercion, the two bodies equal by the descriptor's own theorem
    (`BODIES_step_table`), same `simplify_type`; descriptors the translator refused run the hand-written body on both sides. -/
theorem BODIES_dispatch_step (rec : Disp) (hD : NumDisp rec) (hS : NumSem rec) (nm : String) (as : List Val)
    (kw : List (String × Val)) (hside : Bodies.sideOK rec nm as kw = true) :
    stepG Gen.Bodies.bodiesTable rec nm as kw = stepH rec nm as kw := by
  unfold Bodies.sideOK at hside
  unfold stepG stepH
  cases hr : resolveDesc nm (as.map classOf) (kwIds kw) with
  | error e => rfl
  | ok ch =>
    obtain ⟨pos, va, desc, code?⟩ := ch
    have hcode := Bodies.resolveDesc_code hr
    simp only [hr] at hside
    cases hl : Gen.Bodies.bodiesTable.lookup desc with
    | none => cases code? <;> simp only [hl]
    | some g =>
      have hcov : desc ∈ Bodies.covered :=
        Bodies.keys_covered _ (List.mem_map.mpr ⟨(desc, g), Bodies.mem_of_lookup _ _ _ hl, rfl⟩)
      obtain ⟨g', code, sh, va', h1, h2, h3, h4⟩ := BODIES_step_table desc hcov
      have hg : g' = g := Option.some.inj (h1.symm.trans hl)
      subst hg
      have hc2 : code? = some code := hcode.trans h2
      subst hc2
      simp only [hl]
      cases hca : coerceArgs pos va as with
      | error e => rfl
      | ok cargs =>
        simp only [hca] at hside
        have hw := Bodies.resolved_wellTyped hr h3 hca
        cases href : refusesSize (some code) cargs with
        | some why =>
          have hrun := BODIES_refusal_agrees rec hS code cargs why href
          simp only [bind, Except.bind, href, hrun]
        | none =>
          simp only [href, Option.isSome_none, Bool.false_or] at hside
          have hrun := h4 rec hD hS cargs hw href hside
          simp only [bind, Except.bind, href, hrun]

/-- the translated bodies at the top level of a `dispatch` of depth `n+1`, the hand-written dispatcher below them -/
def Bodies.dispatchHybrid (n : Nat) (nm : String) (as : List Val) (kw : List (String × Val)) : R Val :=
  stepG Gen.Bodies.bodiesTable (fun nm as => dispatchV n nm as []) nm as kw

/-- `sideOK` for a dispatch of depth `n+1` of Ka's dispatcher -/
def Bodies.sideOKAt (n : Nat) (nm : String) (as : List Val) (kw : List (String × Val)) : Bool :=
  Bodies.sideOK (fun nm as => dispatchV n nm as []) nm as kw

/-- **Every translated body, in its dispatch context, against Ka's own dispatcher.**  `dispatch` of depth `n+2` that runs the
    TRANSLATED body of the chosen descriptor — whose callbacks go to the hand-written dispatcher of depth `n+1` — IS
    `Eval.dispatchV (n+2)`, on every name, argument list and keyword list satisfying `sideOK` (no hypothesis on the dispatcher
    left: `BODIES_numdisp_real`, `BODIES_numsem_real`). -/
theorem BODIES_dispatch_hybrid (n : Nat) (nm : String) (as : List Val) (kw : List (String × Val))
    (hside : Bodies.sideOKAt (n + 1) nm as kw = true) :
    Bodies.dispatchHybrid (n + 1) nm as kw = dispatchV (n + 2) nm as kw :=
  BODIES_dispatch_step _ (BODIES_numdisp_real (n + 1)) (BODIES_numsem_real n) nm as kw hside

/-- **The two dispatchers are one — conditionally.**  `EvalG.dispatchVG bodiesTable` and `Eval.dispatchV` agree at depth `n+2`
    on every call satisfying `sideOK`, PROVIDED they agree one level down on the calls the bodies make (`hrec`).

    `hrec` is stated for all names and arguments and cannot be discharged from the per-descriptor theorems: those compare the two
    bodies under the SAME callback dispatcher, and nothing proved says which calls a body makes (the statement needed is that a
    body's answer depends on the callback dispatcher only through those calls — parametricity of 56 translated and ~60
    hand-written definitions).  Without it the unconditional statement is false at small depths: `strict_pow`, `ka_sqrt`, `ka_log`
    ask `dispatch("<", …)` where the hand-written bodies compare directly, so the translated side needs one more level of fuel
    (`example` below).  What IS proved without `hrec`: `BODIES_dispatch_hybrid`. -/
theorem BODIES_dispatch_agrees (n : Nat) (nm : String) (as : List Val) (kw : List (String × Val))
    (hrec : ∀ nm' as', dispatchVG Gen.Bodies.bodiesTable (n + 1) nm' as' [] = dispatchV (n + 1) nm' as' [])
    (hside : Bodies.sideOKAt (n + 1) nm as kw = true) :
    dispatchVG Gen.Bodies.bodiesTable (n + 2) nm as kw = dispatchV (n + 2) nm as kw := by
  have hfun : (fun nm as => dispatchVG Gen.Bodies.bodiesTable (n + 1) nm as []) = (fun nm as => dispatchV (n + 1) nm as []) :=
    funext fun nm' => funext fun as' => hrec nm' as'
  rw [dispatchVG_succ, hfun]
  exact BODIES_dispatch_hybrid n nm as kw hside

/-- **Whole programs.**  The evaluator of the stream `runG` (`EvalG.evalEW … runSessionW`) over ANY dispatcher `dG` that agrees
    with Ka's top-level dispatcher is `Model/Eval.lean`'s evaluator — on every tree, text and session.  (The hypothesis is at the
    level of the dispatcher, for all calls: stating it only for "the dispatches of this run" would need a predicate over the
    evaluation trace; this is the congruence of the evaluator in its dispatcher, `BODIES_evalG_instance` after `funext`.) -/
theorem BODIES_runG_agrees (dG : DispK) (hd : ∀ nm as kw, dG nm as kw = dispatchTop nm as kw) :
    (∀ env t, EvalG.evalEW dG env t = evalE env t) ∧
    (∀ env t, EvalG.runProgramW dG env t = runProgram env t) ∧
    (∀ env t, EvalG.runTreeW dG env t = runTree env t) ∧
    (∀ s, EvalG.runTextW dG s = runText s) ∧
    (∀ env lost ss, EvalG.runSessionW dG env lost ss = runSession env lost ss) := by
  have : dG = dispatchTop := funext fun nm => funext fun as => funext fun kw => hd nm as kw
  subst this
  exact ⟨BODIES_evalG_instance.1, BODIES_evalG_instance.2.2.2.2.2.2.1, BODIES_evalG_instance.2.2.2.2.2.2.2.2.1,
    BODIES_evalG_instance.2.2.2.2.2.2.2.2.2.2.2.1, BODIES_evalG_instance.2.2.2.2.2.2.2.2.2.2.2.2⟩

/-! ### non-vacuity, and why `BODIES_dispatch_agrees` keeps its hypothesis -/

/-- an answer as text (no decidable equality on `R Val`) -/
def Bodies.showD : R Val → String
  | .ok (.num n) => "num " ++ n.render
  | .ok (.intv a b) => "intv " ++ a.render ++ " " ++ b.render
  | .ok _ => "other"
  | .error (.err e) => "err " ++ e.code
  | .error .fuel => "fuel"
  | .error (.unmodelled w) => "declined " ++ w

/-- `sideOK` holds on ordinary calls, and both sides of `BODIES_dispatch_hybrid` compute `[1, 4] * -2 = [-8, -2]`, `2 ^ 10` -/
example : Bodies.sideOKAt 2 "*" [.intv (.int 1) (.int 4), .num (.int (-2))] [] = true ∧
    Bodies.showD (Bodies.dispatchHybrid 2 "*" [.intv (.int 1) (.int 4), .num (.int (-2))] []) = "intv i:-8 i:-2" ∧
    Bodies.showD (dispatchV 3 "*" [.intv (.int 1) (.int 4), .num (.int (-2))] []) = "intv i:-8 i:-2" ∧
    Bodies.showD (Bodies.dispatchHybrid 2 "^" [.num (.int 2), .num (.int 10)] []) = "num i:1024" := by
  refine ⟨?_, ?_, ?_, ?_⟩ <;> decide +kernel

/-- the unconditional statement "for every fuel" is FALSE: at depth 1 the translated `strict_pow` runs out of fuel asking
    `dispatch("<", (x, 0))`, the hand-written `bPow` compares directly — the same call agrees from depth 2 on -/
example : Bodies.showD (dispatchVG Gen.Bodies.bodiesTable 1 "^" [.num (.int 2), .num (.int 10)] []) = "fuel" ∧
    Bodies.showD (dispatchV 1 "^" [.num (.int 2), .num (.int 10)] []) = "num i:1024" ∧
    Bodies.showD (dispatchVG Gen.Bodies.bodiesTable 2 "^" [.num (.int 2), .num (.int 10)] []) = "num i:1024" := by
  refine ⟨?_, ?_, ?_⟩ <;> decide +kernel

