#!/venv/bin/python
"""Writes lean/KaVerif/Props/Bodies.lean from the SPEC below (which hand-written model body a translated descriptor
corresponds to, and which lemma of Lemmas/BodiesLemmas.lean proves the agreement).  A maintenance aid, run by hand when a
descriptor is added to the SPEC; check runs never call it and never regenerate Props/Bodies.lean.  The translated term and
the argument shapes of each descriptor are read from the current lean/KaVerif/Gen/Bodies.lean."""
import os, re, sys
V = os.path.dirname(os.path.dirname(os.path.abspath(__file__)))
GENF = os.path.join(V, "lean", "KaVerif", "Gen", "Bodies.lean")
OUT = os.path.join(V, "lean", "KaVerif", "Props", "Bodies.lean")
src = open(GENF, encoding="utf-8").read()


def table(name):
    m = re.search(r"^def %s : .*? := \[\n(.*?)\]\n\n" % name, src, re.S | re.M)
    rows = []
    for line in m.group(1).split("\n"):
        line = line.strip().rstrip(",")
        mm = re.match(r'^\("((?:[^"\\]|\\.)*)", (.*)\)$', line)
        rows.append((mm.group(1), mm.group(2)))
    return rows


BODIES = dict(table("bodiesTable"))
SHAPES = dict(table("bodiesShapes"))

OPN = {"+": "plus", "-": "minus", "*": "times", "/": "div", "%": "mod", "^": "pow", "<": "lt", "<=": "le", "==": "eq", "!=": "ne",
       ">": "gt", ">=": "ge", "!": "fact", "±": "plusminus"}


def thm_name(desc):
    name, sig, _ = desc.split("|", 2)
    tys = re.findall(r"\*?\w+", sig)
    return "BODIES_%s_%s" % (OPN.get(name, name), "_".join(t.replace("*", "var") for t in tys))


NUMOP = "make_interval_with_num_op_agree h \"%s\" (by decide) _ _ _"
# descriptor (as in Gen/Registry, with Lean string escapes) -> (BodyCode term, proof term of the agreement on destructed arguments)
SPEC = [
    ("+|(Interval, Number)|ka.functions.make_interval_with_num_op.<locals>.op['+']", '.ivNumOp "+"', NUMOP % "+"),
    ("+|(Number, Interval)|ka.functions.register_commutative_op.<locals>.reverse_f[ka.functions.make_interval_with_num_op.<locals>.op['+']]",
     '.rev (.ivNumOp "+")', "reverse_f_agree _ (BodyCode.run (.ivNumOp \"+\")) _ _ (%s)" % (NUMOP % "+")),
    ("*|(Interval, Number)|ka.functions.make_interval_with_num_op.<locals>.op['*']", '.ivNumOp "*"', NUMOP % "*"),
    ("*|(Number, Interval)|ka.functions.register_commutative_op.<locals>.reverse_f[ka.functions.make_interval_with_num_op.<locals>.op['*']]",
     '.rev (.ivNumOp "*")', "reverse_f_agree _ (BodyCode.run (.ivNumOp \"*\")) _ _ (%s)" % (NUMOP % "*")),
    ("-|(Interval, Number)|ka.functions.make_interval_with_num_op.<locals>.op['-']", '.ivNumOp "-"', NUMOP % "-"),
    ("/|(Interval, Number)|ka.functions.make_interval_with_num_op.<locals>.op['/']", '.ivNumOp "/"', NUMOP % "/"),
    ("interval|(Number, Number)|ka.functions.make_interval", ".makeInterval", "make_interval_agree h _ _"),
    ("contains|(Interval, Number)|ka.functions.interval_contains", ".ivContains", "interval_contains_agree h _ _ _"),
    ("in|(Number, Interval)|ka.functions.in_interval", ".inInterval", "in_interval_agree h _ _ _"),
    ("^|(Interval, Number)|ka.functions.interval_to_power", ".ivPow", "interval_to_power_agree h _ _ _"),
    ('+|(Interval)|ka.functions.<lambda:register_function(lambda x: x, \\"+\\", (Interval,))>', ".ident", "lambda_plus_Interval_agree _"),
    ("-|(Interval)|ka.functions.interval_flip", ".ivFlip", "interval_flip_agree h _ _"),
    ("sqrt|(Interval)|ka.functions.interval_sqrt", ".ivSqrt", "interval_sqrt_agree h _ _"),
    ("ln|(Interval)|ka.functions.interval_ln", ".ivLogFixed .e", "interval_ln_agree h _ _"),
    ("log10|(Interval)|ka.functions.interval_log10", ".ivLogFixed .ten", "interval_log10_agree h _ _"),
    ("log2|(Interval)|ka.functions.interval_log2", ".ivLogFixed .two", "interval_log2_agree h _ _"),
    ("log|(Interval, Number)|ka.functions.interval_log", ".ivLog", "interval_log_agree h _ _ _"),
    ("abs|(Interval)|ka.functions.interval_abs", ".ivAbs", "interval_abs_agree h _ _"),
]
for op in ("<", "<="):
    rv = {"<": ">", "<=": ">="}[op]
    base = "ka.functions.register_interval_cmp.<locals>."
    IN = "interval_num_agree h \"%s\" (by decide) _ _ _" % op
    NI = "num_interval_agree h \"%s\" (by decide) _ _ _" % op
    II = "interval_interval_agree h \"%s\" (by decide) _ _ _ _" % op
    SPEC += [
        ("%s|(Interval, Number)|%sinterval_num['%s']" % (op, base, op), '.ivCmp "%s" .intervalNum' % op, IN),
        ("%s|(Number, Interval)|%snum_interval['%s']" % (op, base, op), '.ivCmp "%s" .numInterval' % op, NI),
        ("%s|(Interval, Interval)|%sinterval_interval['%s']" % (op, base, op), '.ivCmp "%s" .intervalInterval' % op, II),
        ("%s|(Interval, Number)|%sswap.<locals>.swapped_f[%snum_interval['%s']]" % (rv, base, base, op), '.rev (.ivCmp "%s" .numInterval)' % op,
         "swapped_f_agree _ (BodyCode.run (.ivCmp \"%s\" .numInterval)) _ _ (%s)" % (op, NI)),
        ("%s|(Number, Interval)|%sswap.<locals>.swapped_f[%sinterval_num['%s']]" % (rv, base, base, op), '.rev (.ivCmp "%s" .intervalNum)' % op,
         "swapped_f_agree _ (BodyCode.run (.ivCmp \"%s\" .intervalNum)) _ _ (%s)" % (op, IN)),
        ("%s|(Interval, Interval)|%sswap.<locals>.swapped_f[%sinterval_interval['%s']]" % (rv, base, base, op),
         '.rev (.ivCmp "%s" .intervalInterval)' % op,
         "swapped_f_agree _ (BodyCode.run (.ivCmp \"%s\" .intervalInterval)) _ _ (%s)" % (op, II)),
    ]
SPEC += [
    ("==|(Interval, Interval)|ka.functions.interval_eq", ".ivEq false", "interval_eq_agree h _ _ _ _"),
    ("!=|(Interval, Interval)|ka.functions.interval_neq", ".ivEq true", "interval_neq_agree h _ _ _ _"),
    ("lower|(Interval)|ka.types.interval_get_lower", ".ivLower", "interval_get_lower_agree _ _"),
    ("upper|(Interval)|ka.types.interval_get_upper", ".ivUpper", "interval_get_upper_agree _ _"),
    ("min|(Interval, Number)|ka.functions.interval_min", ".ivMin", "interval_min_agree h _ _ _"),
    ("min|(Number, Interval)|ka.functions.register_commutative_op.<locals>.reverse_f[ka.functions.interval_min]", ".rev .ivMin",
     "reverse_f_agree _ (BodyCode.run .ivMin) _ _ (interval_min_agree h _ _ _)"),
    ("max|(Interval, Number)|ka.functions.interval_max", ".ivMax", "interval_max_agree h _ _ _"),
    ("max|(Number, Interval)|ka.functions.register_commutative_op.<locals>.reverse_f[ka.functions.interval_max]", ".rev .ivMax",
     "reverse_f_agree _ (BodyCode.run .ivMax) _ _ (interval_max_agree h _ _ _)"),
    ("size|(Interval)|ka.functions.interval_size", ".ivSize", "interval_size_agree h _ _"),
    ("±|(Number, Number)|ka.functions.interval_plusminus", ".plusMinus", "interval_plusminus_agree h _ _"),
    ("tol|(Number, Number)|ka.functions.interval_plusminus", ".plusMinus", "interval_plusminus_agree h _ _"),
]
# arrays, ranges, variadic max / min: no hypothesis on the dispatcher is used
SPEC += [
    ("prod|(Array)|ka.functions.array_prod", ".arrProd", "array_prod_agree rec _"),
    ("sum|(Array)|ka.functions.array_sum", ".arrSum", "array_sum_agree rec _"),
    ("mean|(Array)|ka.functions.array_mean", ".arrMean", "array_mean_agree rec _"),
    ("size|(Array)|ka.functions.array_size", ".arrSize", "array_size_agree rec _"),
    ("max|(Array)|ka.functions.array_max", ".arrMax", "array_max_agree rec _"),
    ("min|(Array)|ka.functions.array_min", ".arrMin", "array_min_agree rec _"),
    ("in|(Any, Array)|ka.functions.in_array", ".inArray", "in_array_agree rec _ _"),
    ("max|(*Number)|ka.functions.max_vararg", ".varMax", "exact max_vararg_agree rec args"),
    ("min|(*Number)|ka.functions.min_vararg", ".varMin", "exact min_vararg_agree rec args"),
    ('range|(Integral, Integral)|ka.functions.<lambda:register_function(lambda lo, hi: Array(list(range(lo, hi+1))), \\"range\\", (Integral, Integral), \\"Returns an array of the i>',
     ".range", "lambda_range_agree rec _ _ (hP _ _ rfl)",
     "fun args => ∀ lo hi : Int, args = [.num (.int lo), .num (.int hi)] → (hi + 1 - lo).toNat ≤ maxRange"),
    # a `while` loop: the translated side runs it with the round bound `pyLoopFuel`, the hand-written side with the model's own
    # bounds; the side condition (it mentions the dispatcher: 6th field "rec") says that neither answers with its bound
    ("range|(Number, Number, Number)|ka.functions.ka_range", ".kaRange", "ka_range_agree h pyLoopFuel _ _ _ hP.1 hP.2",
     "fun rec args => arity3 (ka_range pyLoopFuel) rec args ≠ .error .fuel ∧\n"
     "      BodyCode.run .kaRange rec args ≠ .error (.unmodelled \"huge range\")", "NumDisp", "rec"),
]

# the quantity-operator closures of register_quantities_op: f (Quantity, Quantity), left_is_number, right_is_number
QF = "ka.functions.register_quantities_op.<locals>."
for op in ["+", "-", "*", "/", "<", "<=", "==", "!=", ">", ">="]:
    wrapb = op in "+-*/"
    wrap = "True" if wrapb else "False"
    lw = "true" if wrapb else "false"
    if op == "*":
        cell, rule, lem = 'ka.functions.<lambda:register_quantities_op(\\"*\\", lambda qv1, qv2: qv1*qv2)>', ".mul", "qty_mul_agree"
    elif op == "/":
        cell, rule, lem = 'ka.functions.<lambda:register_quantities_op(\\"/\\", lambda qv1, qv2: qv1/qv2)>', ".div", "qty_div_agree"
    else:
        cell, rule, lem = "None", ".same", "qty_same_agree"
    fd = "%sf['%s',%s,%s]" % (QF, op, cell, wrap)
    QQ = '%s h "%s" (by decide) %s _ _ _ _' % (lem, op, lw)
    SPEC += [
        ("%s|(Quantity, Quantity)|%s" % (op, fd), '.qtyQty "%s" %s %s' % (op, rule, lw), QQ),
        ("%s|(Number, Quantity)|%sleft_is_number[%s]" % (op, QF, fd), '.numQty "%s" %s %s' % (op, rule, lw),
         'left_is_number_agree _ "%s" %s %s _ _ _ (%s)' % (op, rule, lw, QQ)),
        ("%s|(Quantity, Number)|%sright_is_number[%s]" % (op, QF, fd), '.qtyNum "%s" %s %s' % (op, rule, lw),
         'right_is_number_agree _ "%s" %s %s _ _ _ (%s)' % (op, rule, lw, QQ)),
    ]
SPEC += [
    ('==|(Any, Any)|ka.functions.<lambda:register_function(lambda x, y: 0, \\"==\\", (Any, Any))>', ".const 0", "rfl"),
    ('!=|(Any, Any)|ka.functions.<lambda:register_function(lambda x, y: 1, \\"!=\\", (Any, Any))>', ".const 1", "rfl"),
]

# closures over Python builtins; ka_sqrt and strict_pow (under NumSem)
for op in ["<", "<=", "==", "!=", ">", ">="]:
    pyop = {"<": "lt", "<=": "le", "==": "eq", "!=": "ne", ">": "gt", ">=": "ge"}[op]
    SPEC.append(("%s|(Number, Number)|ka.functions.intify.<locals>.f_new[_operator.%s]" % (op, pyop), '.cmp "%s"' % op,
                 'intify_agree rec "%s" _ _' % op))
for nm, py, fn in [("+", "_operator.pos", "pos"), ("-", "_operator.neg", "neg"), ("abs", "builtins.abs", "abs"), ("floor", "math.floor", "floor"),
                   ("ceil", "math.ceil", "ceil"), ("round", "builtins.round", "round"), ("int", "builtins.int", "toInt"),
                   ("float", "builtins.float", "toFloat"), ("sin", "math.sin", "sin"), ("cos", "math.cos", "cos"), ("tan", "math.tan", "tan")]:
    SPEC.append(("%s|(Quantity)|ka.functions.register_numeric_function.<locals>.quantity_function[%s]" % (nm, py), ".qfn .%s" % fn,
                 "quantity_function_builtin_agree rec .%s _ _" % fn))
SPEC += [
    ("sqrt|(Number)|ka.functions.ka_sqrt", ".fn1 .sqrt", "ka_sqrt_agree h _", None, "NumSem"),
    ("sqrt|(Quantity)|ka.functions.register_numeric_function.<locals>.quantity_function[ka.functions.ka_sqrt]", ".qfn .sqrt",
     "quantity_function_sqrt_agree h _ _", None, "NumSem"),
    ("^|(Number, Number)|ka.functions.strict_pow", ".pow", "strict_pow_agree h _ _ (hP _ _ rfl)",
     "fun args => ∀ x y : Num, args = [.num x, .num y] → hugePow x y = false", "NumSem"),
]

# ka_log and its dependants (under NumSem).  No side condition: the `ZeroDivisionError` of `math.log(x, base)` for a base that is
# 1.0 as a float is a branch of both sides (`PyRt.mathLog2`, `Elementary.kaLog`)
SPEC.append(("log|(Number, Number)|ka.functions.ka_log", ".log2args", "ka_log_agree h _ _", None, "NumSem"))
for nm, lb in [("ln", "e"), ("log10", "ten"), ("log2", "two")]:
    SPEC.append(("%s|(Number)|ka.functions.ka_%s" % (nm, nm), ".fn1 .%s" % nm, "ka_%s_agree h _" % nm, None, "NumSem"))
    SPEC.append(("%s|(Quantity)|ka.functions.register_numeric_function.<locals>.quantity_function[ka.functions.ka_%s]" % (nm, nm),
                 ".qfn .%s" % nm, "quantity_function_agree ka_%s .%s _ _ (ka_%s_agree h _)" % (nm, nm, nm), None, "NumSem"))

HOLDS = {".num": ("holds_num", "⟨n%d, rfl⟩"), ".intv": ("holds_intv", "⟨a%d, b%d, rfl⟩"), ".arr": ("holds_arr", "⟨xs%d, rfl⟩"),
         ".qty": ("holds_qty", "⟨m%d, d%d, rfl⟩"), ".int": ("holds_int", "⟨k%d, rfl⟩"), ".any": None}

L = []
L.append('''import KaVerif.Lemmas.BodiesLemmas
/-
  BODIES — the registered function bodies TRANSLATED from the Python source agree with the hand-written model bodies.

  `Gen/Bodies.lean` is regenerated from `/repo/src/ka/functions.py` on every check run by translate/gen_bodies.py (Python `ast`
  of each registered callable → a Lean definition over `Eval.Val`, Python runtime `Model/PyRt.lean`).  `Model/Eval.lean`'s
  `implTable` holds the hand-written bodies the property theorems (C07, C12, …) and the pipeline refinement theorems are about.
  Each theorem below says, for one implementation descriptor of the generated registry:

      the body translated from the source and the hand-written body are THE SAME FUNCTION on every argument list the
      registered signature admits (exact equality of results, errors included), for every dispatcher `rec` that answers
      calls on plain numbers with a number or an error (`NumDisp`)

  and `BODIES_numdisp_real` shows that Ka's dispatcher `Eval.dispatchV` (at every nesting depth) is such a dispatcher.
  A change to a Python body changes the generated definition, and the theorem of that descriptor stops checking.

  (This file is written with the help of tools/mkbodiesprops.py; it is not regenerated by check runs.)
-/
set_option linter.unusedVariables false
-- membership / distinct-keys facts over the (long) descriptor tables are discharged by simp, which needs a deeper recursion for them
set_option maxRecDepth 8000
namespace KaVerif
open KaVerif.Eval KaVerif.PyRt KaVerif.Bodies KaVerif.Gen.Bodies

/-- The body translated from the Python source that is registered under the implementation descriptor `desc` and the
    hand-written model body under the same descriptor agree on every argument list the registered signature admits. -/
def Bodies.AgreesUnder (H : Disp → Prop) (desc : String) (P : Disp → List Val → Prop) : Prop :=
  ∃ (g : Body) (code : BodyCode) (sh : List Shape) (va : Option Shape),
    Gen.Bodies.bodiesTable.lookup desc = some g ∧ implTable.lookup desc = some code ∧
    Gen.Bodies.bodiesShapes.lookup desc = some (sh, va) ∧
    ∀ rec : Disp, H rec → ∀ args : List Val, wellTyped sh va args = true → P rec args → g rec args = code.run rec args

/-- … for every dispatcher that answers the bodies' calls on plain numbers with a number or an error (`NumDisp`), on the
    well-typed argument lists that satisfy the side condition `P` (a size bound of the model, where there is one).
    (The side condition of `AgreesUnder` may mention the dispatcher — needed for the one body with a `while` loop, `ka_range`,
    whose number of rounds depends on what `dispatch("+")` returns; everywhere else it is a condition on the arguments.) -/
def Bodies.AgreesOn (desc : String) (P : List Val → Prop) : Prop := Bodies.AgreesUnder NumDisp desc (fun _ => P)

/-- agreement on every well-typed argument list (no side condition) -/
def Bodies.Agrees (desc : String) : Prop := Bodies.AgreesOn desc (fun _ => True)

/-- the three tables are keyed by distinct descriptors (so that membership is lookup) -/
theorem Bodies.bodiesTable_nodup : (Gen.Bodies.bodiesTable.map (·.1)).Nodup := by simp [Gen.Bodies.bodiesTable]
theorem Bodies.bodiesShapes_nodup : (Gen.Bodies.bodiesShapes.map (·.1)).Nodup := by simp [Gen.Bodies.bodiesShapes]
theorem Bodies.implTable_nodup : (implTable.map (·.1)).Nodup := by simp [implTable]

theorem Bodies.agrees_intro {H : Disp → Prop} {desc : String} {P : Disp → List Val → Prop} (g : Body) (code : BodyCode) (sh : List Shape) (va : Option Shape)
    (h1 : (desc, g) ∈ Gen.Bodies.bodiesTable) (h2 : (desc, code) ∈ implTable) (h3 : (desc, sh, va) ∈ Gen.Bodies.bodiesShapes)
    (h4 : ∀ rec : Disp, H rec → ∀ args : List Val, wellTyped sh va args = true → P rec args → g rec args = code.run rec args) :
    Bodies.AgreesUnder H desc P :=
  ⟨g, code, sh, va, lookup_of_mem_nodup _ _ _ Bodies.bodiesTable_nodup h1, lookup_of_mem_nodup _ _ _ Bodies.implTable_nodup h2,
   lookup_of_mem_nodup _ _ _ Bodies.bodiesShapes_nodup h3, h4⟩

/-- **The hypothesis on the dispatcher is true of Ka's dispatcher**: at every nesting depth `dispatch` answers the calls on
    plain numbers that the bodies make (`Bodies.numCalls`) with a number or raises.  Kernel `decide` over the generated
    registry (`Bodies.numCalls_table`) + the number bodies return numbers. -/
theorem BODIES_numdisp_real (n : Nat) : NumDisp (fun nm as => dispatchV n nm as []) := numDisp_dispatchV n

/-- **The stronger hypothesis used for `ka_sqrt` and `strict_pow` is true of Ka's dispatcher as well**: with at least one level
    of nesting left, `dispatch` computes `<`, `==` and `int` on plain numbers as the registered implementations do (`NumSem`).
    (The hand-written models of these two bodies compare directly instead of calling back into `dispatch`.) -/
theorem BODIES_numsem_real (n : Nat) : NumSem (fun nm as => dispatchV (n + 1) nm as []) := numSem_dispatchV n
''')
names = []
SEMNAMES = set()
SIDE = {}
for ent in SPEC:
    desc, code, proof = ent[:3]
    side = ent[3] if len(ent) > 3 else None
    hyp = ent[4] if len(ent) > 4 else None
    recside = len(ent) > 5 and ent[5] == "rec"      # the side condition is a function of the dispatcher and the arguments
    SIDE[desc] = side
    if desc not in BODIES:
        sys.exit("mkbodiesprops: %s is not in Gen/Bodies.bodiesTable" % desc)
    g = BODIES[desc]
    m = re.match(r"^\[(.*)\], (.*)$", SHAPES[desc])
    shapes = [x.strip() for x in m.group(1).split(",") if x.strip()]
    va = m.group(2)
    tn = thm_name(desc)
    if tn in names:
        sys.exit("duplicate theorem name " + tn)
    names.append(tn)
    if hyp == "NumSem":
        SEMNAMES.add(tn)
    if recside:
        L.append("/-- a body with a `while` loop: agreement unless one of the two sides stops at its own round / size bound (the\n"
                 "    translated loop at `pyLoopFuel`: `.fuel`; the hand-written model at `maxRange`: `unmodelled \"huge range\"`) — the\n"
                 "    side condition mentions the dispatcher because the number of rounds depends on what `dispatch` returns -/")
        L.append("theorem %s : Bodies.AgreesUnder %s \"%s\"\n    (%s) := by" % (tn, hyp, desc, side))
    elif hyp is not None:
        L.append("theorem %s : Bodies.AgreesUnder %s \"%s\"\n    (fun _ => %s) := by" % (tn, hyp, desc, side or "fun _ => True"))
    elif side is None:
        L.append("theorem %s : Bodies.Agrees \"%s\" := by" % (tn, desc))
    else:
        L.append("theorem %s : Bodies.AgreesOn \"%s\"\n    (%s) := by" % (tn, desc, side))
    L.append("  refine Bodies.agrees_intro (%s) (%s) [%s] (%s)" % (g, code, ", ".join(shapes), va))
    L.append("    (by simp [Gen.Bodies.bodiesTable]) (by simp [implTable]) (by simp [Gen.Bodies.bodiesShapes]) ?_")
    L.append("  intro rec h args hw hP")
    if va != "Option.none":
        L.append("  " + proof)
    else:
        xs = ["x%d" % i for i in range(len(shapes))]
        hs = ["hx%d" % i for i in range(len(shapes))]
        L.append("  obtain ⟨%s, rfl, %s⟩ := wt%d hw" % (", ".join(xs), ", ".join(hs), len(shapes)))
        for i, sh in enumerate(shapes):
            if HOLDS[sh] is not None:
                lem, pat = HOLDS[sh]
                L.append("  obtain %s := %s hx%d" % (pat.replace("%d", str(i)), lem, i))
        L.append("  exact " + proof)
    L.append("")
L.append("/-- the descriptors covered by the theorems above -/")
L.append("def Bodies.covered : List String := [\n  " + ",\n  ".join('"%s"' % e[0] for e in SPEC) + "]\n")
L.append("/-- **Summary.**  Every covered descriptor: translated body = hand-written body (see `Bodies.AgreesOn`; the side condition,\n"
         "    where there is one — a size bound of the model — is stated in the descriptor's own theorem). -/")
L.append("theorem BODIES_table : ∀ d ∈ Bodies.covered, ∃ H P, (H = NumDisp ∨ H = NumSem) ∧ Bodies.AgreesUnder H d P := by")
L.append("  intro d hd")
L.append("  simp only [Bodies.covered, List.mem_cons, List.mem_nil_iff, or_false] at hd")
L.append("  rcases hd with " + " | ".join(["rfl"] * len(SPEC)))
for tn in names:
    L.append("  · exact ⟨_, _, %s, %s⟩" % ("Or.inr rfl" if tn in SEMNAMES else "Or.inl rfl", tn))
L.append("")
TAIL = os.path.join(V, "tools", "bodiesprops_tail.lean")
if os.path.exists(TAIL):
    L.append(open(TAIL, encoding="utf-8").read())
L.append("end KaVerif\n")
open(OUT, "w", encoding="utf-8").write("\n".join(L))
print("mkbodiesprops: %d theorems -> %s" % (len(names), OUT))

# ---------------------------------------------------------------------------------------------------------------------------
# Props/BodiesDispatch.lean: ONE LEVEL OF DISPATCH over the translated table = one level over the hand-written table (case analysis
# over the descriptors of the SPEC above, generated here so that a new descriptor only needs its SPEC row)
OUT2 = os.path.join(V, "lean", "KaVerif", "Props", "BodiesDispatch.lean")
byd = {e[0]: e for e in SPEC}
KARANGE = [e[0] for e in SPEC if e[1] == ".kaRange"][0]
D = []
D.append(open(os.path.join(V, "tools", "bodiesdispatch_head.lean"), encoding="utf-8").read().replace("@KARANGE@", KARANGE))
SPECIAL = {
    ".range": """  obtain ⟨g, code, sh, va, h1, h2, h3, h4⟩ := %(tn)s
  have hcode : code = .range := Option.some.inj (h2.symm.trans (by rfl))
  subst hcode
  refine ⟨g, _, sh, va, h1, h2, h3, fun rec hD hS args hw href hside => h4 rec hD args hw ?_⟩
  intro lo hi e
  subst e
  exact Bodies.refuses_range href""",
    ".pow": """  obtain ⟨g, code, sh, va, h1, h2, h3, h4⟩ := %(tn)s
  have hcode : code = .pow := Option.some.inj (h2.symm.trans (by rfl))
  subst hcode
  refine ⟨g, _, sh, va, h1, h2, h3, fun rec hD hS args hw href hside => h4 rec hS args hw ?_⟩
  intro x y e
  subst e
  exact Bodies.refuses_pow href""",
    ".kaRange": """  obtain ⟨g, code, sh, va, h1, h2, h3, h4⟩ := %(tn)s
  have hg : g = arity3 (ka_range pyLoopFuel) := Option.some.inj (h1.symm.trans (by rfl))
  have hcode : code = .kaRange := Option.some.inj (h2.symm.trans (by rfl))
  subst hg hcode
  refine ⟨_, _, sh, va, h1, h2, h3, fun rec hD hS args hw href hside => h4 rec hD args hw ?_⟩
  rw [Bodies.sideB_kaRange] at hside
  exact Bodies.kaRange_side hside""",
}
for (desc, tn) in zip([e[0] for e in SPEC], names):
    ent = byd[desc]
    side = ent[3] if len(ent) > 3 else None
    hyp = ent[4] if len(ent) > 4 else None
    D.append("theorem Bodies.step_%s : Bodies.StepAgrees \"%s\" := by" % (tn[len("BODIES_"):], desc))
    if side is None and hyp is None:
        D.append("  exact Bodies.step_of_agrees %s" % tn)
    elif side is None and hyp == "NumSem":
        D.append("  exact Bodies.step_of_sem %s" % tn)
    elif ent[1] in SPECIAL:
        D.append(SPECIAL[ent[1]] % {"tn": tn})
    else:
        sys.exit("mkbodiesprops: no rule to put the side condition of %s into Bodies.sideB" % tn)
    D.append("")
D.append("/-- **Every translated descriptor, in the form the dispatcher needs it.** -/")
D.append("theorem BODIES_step_table : ∀ d ∈ Bodies.covered, Bodies.StepAgrees d := by")
D.append("  intro d hd")
D.append("  simp only [Bodies.covered, List.mem_cons, List.mem_nil_iff, or_false] at hd")
D.append("  rcases hd with " + " | ".join(["rfl"] * len(SPEC)))
for tn in names:
    D.append("  · exact Bodies.step_%s" % tn[len("BODIES_"):])
D.append("")
D.append(open(os.path.join(V, "tools", "bodiesdispatch_tail.lean"), encoding="utf-8").read())
open(OUT2, "w", encoding="utf-8").write("\n".join(D))
print("mkbodiesprops: dispatch case analysis over %d descriptors -> %s" % (len(names), OUT2))
DISPATCH = ["BODIES_step_table", "BODIES_resolved_wellTyped", "BODIES_refusal_agrees", "BODIES_dispatch_step", "BODIES_dispatch_hybrid",
            "BODIES_dispatch_agrees", "BODIES_runG_agrees"]
open(os.path.join(V, "tools", "bodies_dispatch_theorems.txt"), "w").write("\n".join("KaVerif." + n for n in DISPATCH) + "\n")

# theorems of the tail that are audited with the agreement theorems (harness/pipeline.py bodies_theorems())
EXTRA = ["BODIES_evalG_instance"]
open(os.path.join(V, "tools", "bodies_theorems.txt"), "w").write("\n".join("KaVerif." + n for n in names + EXTRA) + "\n")
