#!/venv/bin/python
"""Regenerate MANIFEST.json from the per-property check modules (harness/props/Cxx.py)."""
import os, sys, json, importlib
V = os.path.dirname(os.path.dirname(os.path.abspath(__file__)))
sys.path.insert(0, os.path.join(V, "harness"))
props = [json.loads(l) for l in open(os.path.join(V, "properties.jsonl"))]
checks, na = [], []
not_ready = set()
nr = os.path.join(V, "tools", "not_ready.txt")
if os.path.exists(nr):
    not_ready = set(open(nr).read().split())
for p in props:
    pid = p["id"]
    if pid in not_ready:
        na.append(dict(property_id=pid, reason="check under construction by a builder; not claimed until it is committed and passes on the unchanged tree"))
        continue
    try:
        m = importlib.import_module("props." + pid)
    except Exception as e:
        if not isinstance(e, ModuleNotFoundError):
            print("mkmanifest: %s does not import (%s) -> not claimed" % (pid, e))
        na.append(dict(property_id=pid, reason="check not built yet (planned in DESIGN.md section 5, %s); not claimed until its theorems and correspondence exist" % pid))
        continue
    if not all(hasattr(m, k) for k in ("LEVEL_TEXT", "LEVEL_NOTE", "TECHNIQUE", "check")):
        na.append(dict(property_id=pid, reason="check under construction; not claimed until its theorems and correspondence exist"))
        continue
    if getattr(m, "NOT_APPLICABLE", None):
        na.append(dict(property_id=pid, reason=m.NOT_APPLICABLE))
        continue
    checks.append(dict(
        property_id=pid,
        quick_cmd="./check %s --tier quick" % pid,
        thorough_cmd="./check %s --tier thorough" % pid,
        evidence_file="evidence/%s.json" % pid,
        replay_cmd_template="./check %s --replay {path}" % pid,
        engine="lean4-model+correspondence",
        level_claimed=dict(category="proof", text=m.LEVEL_TEXT, design_ref="DESIGN.md section 5, " + pid),
        level_note=m.LEVEL_NOTE,
        technique=m.TECHNIQUE))
man = dict(
    version=1,
    setup_cmd="./setup.sh",
    hooks=dict(guard="KA_VERIF", enable="no source hooks: checks import /repo/src in-process with KA_VERIF=1 and an empty HOME",
               baseline_off_cmd="cd /repo && /venv/bin/python -m pytest -ra -q -p no:cacheprovider --timeout=900 --continue-on-collection-errors",
               source_commits=[], add_only=True),
    engines=[dict(name="lean4-model+correspondence", path="lean/ harness/ translate/",
                  serves_properties=[c["property_id"] for c in checks],
                  kind_free_text="Lean 4 theorems over an executable model of Ka; model tied to /repo by a translator (generated tables re-checked by the kernel) and by a differential correspondence check; property oracles search the real code for a replay")],
    checks=checks,
    not_applicable=na,
    notes="See DESIGN.md. Exit 0 held / 1 violation / 2 infrastructure failure. known_findings.json lists recorded and fixed defects.")
json.dump(man, open(os.path.join(V, "MANIFEST.json"), "w"), indent=1)
print("claimed:", [c["property_id"] for c in checks], "not claimed:", [n["property_id"] for n in na])
