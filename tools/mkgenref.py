#!/venv/bin/python
"""Refresh genref/ — the REFERENCE copy of the generated tables, as generated from the reviewed /repo tree.
Run on the unchanged tree whenever /repo or a translator changes (it is part of the commit routine, never of a check run).
harness/core.py puts these files back when the tables cannot be re-derived from a changed source (see proof_phase)."""
import os, sys, shutil, subprocess
V = os.path.dirname(os.path.dirname(os.path.abspath(__file__)))
GEN, REF = os.path.join(V, "lean", "KaVerif", "Gen"), os.path.join(V, "genref")
env = dict(os.environ, KA_GENREF_UPDATE="1", MPLBACKEND="Agg", HOME="/nonexistent-home", KA_VERIF="1")
env.pop("KA_REPO", None)
p = subprocess.run(["/venv/bin/python", os.path.join(V, "translate", "gen.py")], env=env, stdout=subprocess.PIPE, stderr=subprocess.STDOUT, text=True)
if p.returncode:
    print(p.stdout[-3000:]); sys.exit("translator failed on the reference tree")
shutil.rmtree(REF, ignore_errors=True)
os.makedirs(REF)
for f in sorted(os.listdir(GEN)):
    shutil.copy(os.path.join(GEN, f), os.path.join(REF, f))
print("genref: %d files" % len(os.listdir(REF)))
