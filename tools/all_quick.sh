#!/bin/bash
# run all 20 quick checks on /repo (P at a time), print one summary line each and any VIOLATION / INFRA / KNOWN-FINDING line
cd "$(dirname "$0")/.."
P=${1:-4}
seq -w 1 20 | xargs -P $P -I{} sh -c './check C{} --tier ${TIER:-quick} > /tmp/allq.C{}.log 2>&1; echo "rc=$? $(grep -a "tier=" /tmp/allq.C{}.log | tail -1)"; grep -a "^VIOLATION\|^INFRA\|^NOTE" /tmp/allq.C{}.log | head -3'
