#!/venv/bin/python
"""Emit the generated parts of DESIGN.md section 12 (defects repaired, per-property status, seeded changes) as markdown."""
import json, os, glob, subprocess, importlib, sys
V = os.path.dirname(os.path.dirname(os.path.abspath(__file__)))
sys.path.insert(0, os.path.join(V, "harness"))
out = []
# ---- defects
kf = json.load(open(os.path.join(V, "known_findings.json")))["findings"]
log = subprocess.run(["git", "-C", "/repo", "log", "--reverse", "--format=%h\t%s"], stdout=subprocess.PIPE, text=True).stdout.strip().split("\n")[1:]
bycommit = {}
for f in kf:
    if f.get("commit"):
        bycommit.setdefault(f["commit"], []).append(f)
out.append("### 12.3 Genuine defects found and repaired in `/repo` (one `fix:` commit each; the 72 tests pass after each)\n")
out.append("| commit | properties | what failed (failing input → observed) |")
out.append("|---|---|---|")
for l in log:
    h, s = l.split("\t", 1)
    fs = bycommit.get(h, [])
    props = ", ".join(sorted({f["property"] for f in fs})) or "—"
    what = "; ".join(sorted({f["what"].split(h, 1)[-1].strip() for f in fs})) or s[5:]
    out.append("| `%s` | %s | %s |" % (h, props, what.replace("|", "\\|")))
known = [f for f in kf if f["status"] == "known"]
out.append("\n**Recorded, not repaired** (`status: known` in `known_findings.json`; each suppresses exactly its key):\n")
for f in known:
    out.append("* %s — key `%s`: %s" % (f["property"], f.get("key") or f.get("match"), f["what"]))
if not known:
    out.append("* none")
# ---- per-property status
out.append("\n### 12.4 Per-property status\n")
out.append("| id | Lean modules | property theorems audited | level | quick | notes |")
out.append("|---|---|---|---|---|---|")
for pid in ["C%02d" % i for i in range(1, 21)]:
    try:
        m = importlib.import_module("props." + pid)
    except Exception as e:
        out.append("| %s | — | — | not claimed | — | %s |" % (pid, e)); continue
    ev = {}
    p = os.path.join(V, "evidence", pid + ".json")
    if os.path.exists(p):
        ev = json.load(open(p))
    partial = "partial" if "PARTIAL" in m.LEVEL_TEXT[:12] else "proof"
    out.append("| %s | %s | %d | %s | %ss, %s cases | %s |" % (pid, ", ".join(x.replace("KaVerif.", "") for x in m.LEAN_MODULES), len(m.THEOREMS), partial,
               ev.get("wall_s", "?"), ev.get("coverage", {}).get("evaluations", "?"), m.TECHNIQUE))
# ---- seeded
out.append("\n### 12.5 Seeded changes (independent sub-agents, property text only) and which check catches them\n")
out.append("| seed | property | mechanism (from the author's notes) | reported by | first failing input found | first attempt |")
out.append("|---|---|---|---|---|---|")
for d in sorted(glob.glob(os.path.join(V, "seeded", "*"))):
    mp = os.path.join(d, "meta.json")
    if not os.path.exists(mp):
        continue
    m = json.load(open(mp))
    notes = m.get("needs_to_manifest", "").replace("\n", " ")
    mech = notes[:160].replace("|", "\\|")
    det = m["detection"]
    ffi = (det.get("first_failing_input") or {}).get("key", "")[:70].replace("|", "\\|")
    out.append("| %s | %s | %s… | `./check %s` exit %s (%s) | `%s` | %s |" % (m["id"], m["property"], mech, det["check"], det["exit"], det.get("replay_kind"), ffi, m["first_attempt"]))
print("\n".join(out))
