#!/venv/bin/python
"""Evaluate one candidate seeded change:  try_seed.py <property id> <dir with patch.diff, demo.py> [--tier quick]
 1. copy /repo to a scratch dir, 2. check the demo passes on the clean copy, 3. apply the patch,
 4. run the repo's test suite (must pass), 5. run the demo (must fail), 6. run ./check <id> with KA_REPO=<copy>,
 7. print a JSON summary; restore generated files by re-running the check on /repo."""
import os, sys, json, subprocess, tempfile, shutil, time
V = os.path.dirname(os.path.dirname(os.path.abspath(__file__)))
pid, d = sys.argv[1], os.path.abspath(sys.argv[2])
tier = sys.argv[4] if len(sys.argv) > 4 and sys.argv[3] == "--tier" else "quick"
checks = [pid] + [a for a in sys.argv[5:] if a.startswith("C")]
tmp = tempfile.mkdtemp(prefix="seedtry-")
copy = os.path.join(tmp, "repo")
home = os.path.join(tmp, "home"); os.makedirs(home)
res = dict(property=pid, dir=d)
try:
    shutil.copytree("/repo", copy, ignore=shutil.ignore_patterns(".git"))
    vcopy = os.path.join(tmp, "verif")          # a private copy of the machinery: nothing shared is regenerated
    shutil.copytree(V, vcopy, ignore=shutil.ignore_patterns(".git", "replays", "seeded"), symlinks=True)
    env = dict(os.environ, HOME=home, PYTHONPATH=os.path.join(copy, "src"), KA_TREE=copy, MPLBACKEND="Agg")
    def run(cmd, **kw):
        p = subprocess.run(cmd, stdout=subprocess.PIPE, stderr=subprocess.STDOUT, text=True, env=env, **kw)
        return p.returncode, p.stdout
    rc, out = run(["/venv/bin/python", os.path.join(d, "demo.py")], cwd=tmp, timeout=600)
    res["demo_clean_rc"] = rc
    rc, out = run(["patch", "-p1", "-i", os.path.join(d, "patch.diff")], cwd=copy)
    res["patch_applies"] = rc == 0
    if rc != 0:
        res["patch_out"] = out[-500:]
    rc, out = run(["/venv/bin/python", "-m", "pytest", "-q", "-p", "no:cacheprovider", "tst"], cwd=copy, timeout=900)
    res["tests_rc"] = rc; res["tests_tail"] = out.strip().split("\n")[-1]
    rc, out = run(["/venv/bin/python", os.path.join(d, "demo.py")], cwd=tmp, timeout=600)
    res["demo_mutated_rc"] = rc; res["demo_tail"] = out.strip()[-300:]
    res["checks"] = {}
    for c in checks:
        t0 = time.time()
        e2 = dict(os.environ, KA_REPO=copy, VERIF_TIER=tier)
        p = subprocess.run([os.path.join(vcopy, "check"), c, "--tier", tier], stdout=subprocess.PIPE, stderr=subprocess.STDOUT, text=True, env=e2, timeout=3600)
        lines = [l for l in p.stdout.split("\n") if l.startswith("VIOLATION") or l.startswith("INFRA")]
        info = dict(rc=p.returncode, lines=lines, wall=round(time.time() - t0, 1))
        for l in lines:
            if "replay=" in l:
                rp = l.split("replay=")[1].split()[0]
                try:
                    r = json.load(open(rp))
                    f = r.get("first") or {}
                    info["replay_kind"] = r.get("kind")
                    info["first"] = dict(key=str(f.get("key"))[:200], expected=str(f.get("expected"))[:150], actual=str(f.get("actual"))[:150])
                    info["broken"] = [b["what"][:120] for b in (r.get("broken_obligations") or r.get("detail") or [])][:4]
                except Exception as e:
                    info["replay_err"] = str(e)
        res["checks"][c] = info
finally:
    shutil.rmtree(tmp, ignore_errors=True)
print(json.dumps(res, indent=1))
