#!/venv/bin/python
"""Replace the generated block of DESIGN.md with the current output of tools/mkdesign_tables.py."""
import os, subprocess, sys
V = os.path.dirname(os.path.dirname(os.path.abspath(__file__)))
p = os.path.join(V, "DESIGN.md")
s = open(p).read()
B, E = "<!-- BEGIN GENERATED (tools/mkdesign_tables.py) -->", "<!-- END GENERATED -->"
i, j = s.index(B), s.index(E)
gen = subprocess.run([os.path.join(V, "tools", "mkdesign_tables.py")], stdout=subprocess.PIPE, text=True, check=True).stdout
open(p, "w").write(s[:i] + B + "\n" + gen.rstrip("\n") + "\n" + s[j:])
print("DESIGN.md generated block: %d lines" % gen.count("\n"))
