#!/venv/bin/python
"""Re-evaluate every stored seeded change (seeded/<id>/) with the checks as they are now:  reval_seeds.py [id ...]
Each seed runs through tools/try_seed.py on private copies (PAR at a time).  Prints one line per seed and a summary;
a seed counts as caught when its property's check exits 1 with a replay of kind failing-input or broken-obligation."""
import os, sys, json, subprocess, glob
from concurrent.futures import ThreadPoolExecutor
V = os.path.dirname(os.path.dirname(os.path.abspath(__file__)))
ids = sys.argv[1:] or sorted(os.path.basename(os.path.dirname(p)) for p in glob.glob(os.path.join(V, "seeded", "*", "meta.json")))
par = int(os.environ.get("PAR", "6"))

def one(i):
    d = os.path.join(V, "seeded", i)
    prop = json.load(open(os.path.join(d, "meta.json")))["property"]
    p = subprocess.run([os.path.join(V, "tools", "try_seed.py"), prop, d], stdout=subprocess.PIPE, stderr=subprocess.STDOUT, text=True)
    try:
        r = json.loads(p.stdout[p.stdout.index("{"):])
        c = r["checks"][prop]
        if not r.get("patch_applies"):
            return i, dict(rc=None, kind="PATCH-DOES-NOT-APPLY", key=None)
        return i, dict(rc=c["rc"], kind=c.get("replay_kind"), key=(c.get("first") or {}).get("key"), tests=r.get("tests_tail"),
                       demo=(r.get("demo_clean_rc"), r.get("demo_mutated_rc")), lines=c.get("lines"))
    except Exception as e:  # noqa
        return i, dict(rc=None, error=str(e), out=p.stdout[-400:])

res = {}
with ThreadPoolExecutor(par) as ex:
    for i, r in ex.map(one, ids):
        res[i] = r
        print(i, r.get("rc"), r.get("kind"), str(r.get("key"))[:90], flush=True)
missed = [i for i, r in res.items() if r.get("rc") != 1]
nofail = [i for i, r in res.items() if r.get("rc") == 1 and r.get("kind") != "failing-input"]
print("seeds=%d caught=%d (with failing input %d) missed=%s no-failing-input=%s" % (len(res), len(res) - len(missed), len(res) - len(missed) - len(nofail), missed, nofail))
json.dump(res, open("/tmp/reval_seeds.json", "w"), indent=1)
