"""
Translator plug-in for the unit registry (C13; shared with C03, C04, C20):
    ka.units  ->  lean/KaVerif/Gen/Units.lean  +  lean/KaVerif/Gen/units.json

Extracted from the *running* module after the guarded import (empty HOME, so the default currency
table and the default base currency `eur` are in effect):

  BASE_UNITS                names, in order
  PREFIXES                  in order: name_prefix, symbol_prefix, multiplier (exact rational), exponent, base
  UNITS                     in registration order: symbol, singular_name, plural_name, quantities,
                            quantity_vector.v, multiple and offset as exact rationals (Fraction(x) for
                            int/Fraction, float.as_integer_ratio for floats) plus the Python kind
  NAME_TO_UNIT, SYMBOL_TO_UNIT   association lists key -> index into UNITS (dict order preserved)

Physical units and currencies live in the same table; a currency has `cash := true`
("cash" in quantities).  Strings are emitted both as code-point lists (kernel-friendly) and as
`String`.  The record types are in Model/Units.lean.

The extraction FAILS (non-zero exit; the check reports a broken obligation) when a per-user ka
directory is visible, when a dict value is not an element of UNITS, or when a number is not an
int / Fraction / finite float.
"""
import os, json, math
from fractions import Fraction

CHUNK = 48


def _num(x, what):
    """(numerator, denominator, kind) of a Python number, exact."""
    if isinstance(x, bool) or not isinstance(x, (int, Fraction, float)):
        raise Exception("%s is %r (%s): expected int, Fraction or float" % (what, x, type(x).__name__))
    if isinstance(x, int):
        return x, 1, "int"
    if isinstance(x, Fraction):
        return x.numerator, x.denominator, "frac"
    if not math.isfinite(x):
        raise Exception("%s is not finite: %r" % (what, x))
    n, d = x.as_integer_ratio()
    return n, d, "float"


def extract():
    home = os.path.expanduser("~")
    if os.path.exists(os.path.join(home, ".config", "ka")) or os.path.exists(os.path.join(home, "AppData", "Local", "ka")):
        raise Exception("a per-user ka directory is visible under HOME=%s; the translator must run with an empty HOME" % home)
    import ka.units as U
    units = list(U.UNITS)
    ident = {id(u): i for i, u in enumerate(units)}
    nbase = len(U.BASE_UNITS)
    out_units = []
    for i, u in enumerate(units):
        for f in (u.symbol, u.singular_name, u.plural_name):
            if not isinstance(f, str):
                raise Exception("unit %d has a non-string spelling %r" % (i, f))
        qs = list(u.quantities)
        dim = list(u.quantity_vector.v.xs)
        if len(dim) != nbase or not all(isinstance(e, int) and not isinstance(e, bool) for e in dim):
            raise Exception("unit %s: dimension vector %r does not have one int per base unit" % (u.symbol, dim))
        mn, md, mk = _num(u.multiple, "multiple of " + u.symbol)
        on, od, ok = _num(u.offset, "offset of " + u.symbol)
        out_units.append(dict(symbol=u.symbol, singular=u.singular_name, plural=u.plural_name,
                              has_plural=(u.plural_name != U.Unit.NO_PLURAL), quantities=qs, cash=("cash" in qs),
                              dim=dim, multiple=[mn, md, mk], offset=[on, od, ok]))
    prefixes = []
    for p in U.PREFIXES:
        mn, md, mk = _num(p.multiplier, "multiplier of prefix " + p.name_prefix)
        if mk == "float" or mn <= 0:
            raise Exception("prefix %s: multiplier %r is not a positive int/Fraction" % (p.name_prefix, p.multiplier))
        if not (isinstance(p.exponent, int) and isinstance(p.base, int) and p.base > 0):
            raise Exception("prefix %s: exponent/base %r/%r" % (p.name_prefix, p.exponent, p.base))
        prefixes.append(dict(name=p.name_prefix, sym=p.symbol_prefix, multiplier=[mn, md, mk], exp=p.exponent, base=p.base))

    def amap(d, what):
        res = []
        for k, v in d.items():
            if not isinstance(k, str) or id(v) not in ident:
                raise Exception("%s[%r] is not an element of UNITS" % (what, k))
            res.append([k, ident[id(v)]])
        return res
    return dict(base_units=list(U.BASE_UNITS), base_currency=U.BASE_CURRENCY, no_plural=U.Unit.NO_PLURAL,
                prefixes=prefixes, units=out_units,
                names=amap(U.NAME_TO_UNIT, "NAME_TO_UNIT"), symbols=amap(U.SYMBOL_TO_UNIT, "SYMBOL_TO_UNIT"))


def rnest(chunks):
    """c0 ++ (c1 ++ (c2 ++ …)): right-nested so that the kernel walks each element through one append only"""
    if not chunks:
        return "[]"
    return " ++ (".join(chunks) + ")" * (len(chunks) - 1)


def gen_units():
    T = extract()
    kind = {"int": ".int", "frac": ".frac", "float": ".float"}

    def cm(s):
        return s.replace("-/", "- /").replace("/-", "/ -")
    L = [HEADER, "import KaVerif.Model.Units\nnamespace KaVerif.Gen.Units\nopen KaVerif.Units\n"]
    L.append("/-- `ka.units.BASE_UNITS` -/")
    L.append("def baseUnitsS : List String := " + llist(lstr(b) for b in T["base_units"]))
    L.append("def baseUnits : List (List Nat) := " + llist(codepoints(b) for b in T["base_units"]))
    L.append("/-- `Unit.NO_PLURAL` -/")
    L.append("def noPlural : List Nat := " + codepoints(T["no_plural"]))
    L.append("")
    for i, p in enumerate(T["prefixes"]):
        L.append("/-- prefix %d: `%s` / `%s` -/" % (i, cm(p["name"]), cm(p["sym"])))
        L.append("def p%d : PrefixRec := { name := %s, sym := %s, mulNum := %d, mulDen := %d, mulKind := %s, exp := %d, base := %d, nameS := %s, symS := %s }"
                 % (i, codepoints(p["name"]), codepoints(p["sym"]), p["multiplier"][0], p["multiplier"][1],
                    kind[p["multiplier"][2]], p["exp"], p["base"], lstr(p["name"]), lstr(p["sym"])))
    L.append("/-- `ka.units.PREFIXES`, in order -/")
    L.append("def prefixes : List PrefixRec := " + llist("p%d" % i for i in range(len(T["prefixes"]))))
    L.append("")
    for i, u in enumerate(T["units"]):
        L.append("/-- unit %d: `%s` %s %s -/" % (i, cm(u["symbol"]), cm(u["singular"]), cm(u["plural"])))
        L.append(("def u%d : UnitRec := { symbol := %s, singular := %s, plural := %s, hasPlural := %s, "
                  "quantities := %s, cash := %s, dim := %s, "
                  "mulNum := %d, mulDen := %d, mulKind := %s, offNum := %d, offDen := %d, offKind := %s, "
                  "symbolS := %s, singularS := %s, pluralS := %s, quantitiesS := %s }")
                 % (i, codepoints(u["symbol"]), codepoints(u["singular"]), codepoints(u["plural"]), lbool(u["has_plural"]),
                    llist(codepoints(q) for q in u["quantities"]), lbool(u["cash"]), llist(str(e) for e in u["dim"]),
                    u["multiple"][0], u["multiple"][1], kind[u["multiple"][2]],
                    u["offset"][0], u["offset"][1], kind[u["offset"][2]],
                    lstr(u["symbol"]), lstr(u["singular"]), lstr(u["plural"]), llist(lstr(q) for q in u["quantities"])))
    n = len(T["units"])
    chunks = []
    for c in range(0, n, CHUNK):
        L.append("def unitsChunk%d : List UnitRec := %s" % (c // CHUNK, llist("u%d" % i for i in range(c, min(n, c + CHUNK)))))
        chunks.append("unitsChunk%d" % (c // CHUNK))
    L.append("/-- `ka.units.UNITS`, in registration order -/")
    L.append("def units : List UnitRec := " + rnest(chunks))
    L.append("def numUnits : Nat := %d" % n)
    L.append("")
    for what, key in (("names", "names"), ("symbols", "symbols")):
        m = T[key]
        chunks = []
        for c in range(0, len(m), CHUNK):
            L.append("def %sChunk%d : List (List Nat × Nat) := [\n  %s]" % (
                what, c // CHUNK, ",\n  ".join("(%s, %d)" % (codepoints(k), v) for k, v in m[c:c + CHUNK])))
            chunks.append("%sChunk%d" % (what, c // CHUNK))
        L.append("/-- `ka.units.%s` as key ↦ index into `units` (dict order) -/" % ("NAME_TO_UNIT" if what == "names" else "SYMBOL_TO_UNIT"))
        L.append("def %s : List (List Nat × Nat) := %s" % (what, rnest(chunks)))
        L.append("def %sS : List String := %s" % (what, llist(lstr(k) for k, _ in m)))
        L.append("")
    L.append("/-- the unit registry of the current source tree -/")
    L.append("def table : UnitTable := { baseUnits := baseUnits, baseUnitsS := baseUnitsS, prefixes := prefixes, units := units, names := names, symbols := symbols }")
    L.append("end KaVerif.Gen.Units\n")
    write_if_changed("Units", "\n".join(L))
    # ---- complete-table obligation "every unit is reachable under its three spellings", one kernel
    #      `decide` per chunk of UNITS (parallel files; a monolithic one takes > 80 s)
    nch = (n + CHUNK - 1) // CHUNK
    for k in range(nch):
        R = [HEADER, "import KaVerif.Gen.Units\nimport KaVerif.Lemmas.UnitsChecks\nnamespace KaVerif.Gen.Units\nopen KaVerif.Units\n",
             "set_option maxRecDepth 100000 in",
             "/-- units %d..%d are found under their symbol, singular and plural name, unprefixed -/" % (k * CHUNK, min(n, (k + 1) * CHUNK) - 1),
             "theorem reach%d : reachableFrom table %d unitsChunk%d = true := by decide +kernel" % (k, k * CHUNK, k),
             "theorem chunkLen%d : unitsChunk%d.length = %d := by decide" % (k, k, min(n, (k + 1) * CHUNK) - k * CHUNK),
             "end KaVerif.Gen.Units\n"]
        write_if_changed("UnitsReach%d" % k, "\n".join(R))
    A = [HEADER] + ["import KaVerif.Gen.UnitsReach%d" % k for k in range(nch)]
    A.append("import KaVerif.Gen.Units\nimport KaVerif.Lemmas.UnitsChecks\nnamespace KaVerif.Gen.Units\nopen KaVerif.Units\n")
    A.append("/-- every entry of `UNITS` is found under its symbol, its singular and its plural name, unprefixed -/")
    if nch == 0:
        A.append("theorem reachAll : reachableFrom table 0 units = true := rfl")
    else:
        term = "reach%d" % (nch - 1)
        for k in range(nch - 2, -1, -1):
            term = "reachableFrom_append table %d _ _ %d reach%d chunkLen%d (%s)" % (k * CHUNK, CHUNK, k, k, term)
        A.append("theorem reachAll : reachableFrom table 0 units = true :=\n  " + term)
    A.append("end KaVerif.Gen.Units\n")
    write_if_changed("UnitsReachAll", "\n".join(A))
    # remove chunk files of an earlier, longer table
    k = nch
    while os.path.exists(os.path.join(GEN, "UnitsReach%d.lean" % k)):
        os.remove(os.path.join(GEN, "UnitsReach%d.lean" % k))
        k += 1
    p = os.path.join(GEN, "units.json")
    txt = json.dumps(T, indent=0, sort_keys=True, ensure_ascii=False)
    if not os.path.exists(p) or open(p, encoding="utf-8").read() != txt:
        with open(p, "w", encoding="utf-8") as f:
            f.write(txt)


MODULES = {"Units": gen_units}
