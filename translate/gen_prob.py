"""
C08 translator plugin:  /repo/src/ka/{probability,functions,parse}.py  ->  lean/KaVerif/Gen/ProbTable.lean

The decision table of `eval_probability` / `DoubleEvent.probability` is extracted by SYMBOLIC EXECUTION ON
STUBS of the LIVE code, through the live registry:

  for every registered function whose name is a chain of comparison tokens (`<`, `<=`, `=`, `<_<=`, ...),
  every argument position for the random variable, discrete / continuous:
      ev = ka.functions.dispatch(name, [threshold symbols ..., stub, ...])     # the registered constructor
      p  = ka.functions.dispatch("P", [ev])                                    # -> Event.probability()

  * the random-variable stubs subclass DiscreteRandomVariable / RandomVariable; their cdf/pmf return a
    recording value node `cdf(arg)` / `pmf(arg)`;
  * the threshold symbols record `math.floor(t)`, `math.ceil(t)`, `t - 1`, `t + 1` and raise NotTableShaped on
    ANY other use (comparison, bool, hash, int(), index, multiplication ...), i.e. the code may not branch
    on a threshold;
  * value nodes record `1 - v`, `v - w`; a comparison of a value node with the literal 0 (what `max(v, 0)`
    does) is a recorded decision: the executor explores both outcomes and accepts the resulting decision
    tree only if it is exactly `0 if v < 0 else v` (emitted as `max0 v`);
  * anything else -> exception -> the translator exits non-zero (the check reports a broken obligation).

Also extracted: the parser's rewriting of comparison chains (`make_comparison_node` run on every operator
list of length 1 and 2 over `< <= > >= =`): resulting label and whether the operands were reversed; and which
labels are registered function names at all.
"""
import math, numbers, itertools

OPS = {"<=": "le", "<": "lt", ">": "gt", ">=": "ge", "=": "eq"}


class NotTableShaped(Exception):
    pass


def _refuse(what):
    def f(self, *a, **k):
        raise NotTableShaped("the code used a symbolic threshold/value in an unsupported way: %s" % what)
    return f


class SymNum:
    """A symbolic threshold (registered as numbers.Number)."""

    def __init__(self, node):
        self.node = node

    def __floor__(self):
        return SymInt(("floor", self.node))

    def __ceil__(self):
        return SymInt(("ceil", self.node))

    def __sub__(self, c):
        if type(c) is not int:
            raise NotTableShaped("threshold - %r" % (c,))
        return type(self)(("addc", self.node, -c))

    def __add__(self, c):
        if type(c) is not int:
            raise NotTableShaped("threshold + %r" % (c,))
        return type(self)(("addc", self.node, c))

    __radd__ = __add__
    for _n in ("__bool__", "__eq__", "__ne__", "__lt__", "__le__", "__gt__", "__ge__", "__hash__", "__int__",
               "__float__", "__index__", "__mul__", "__rmul__", "__truediv__", "__rtruediv__", "__neg__", "__rsub__",
               "__floordiv__", "__mod__", "__pow__", "__rpow__", "__abs__", "__round__", "__trunc__", "__len__",
               "__iter__"):
        locals()[_n] = _refuse(_n)
    del _n


class SymInt(SymNum):
    """A symbolic threshold known to be a Python int (registered as numbers.Integral)."""


numbers.Number.register(SymNum)
numbers.Integral.register(SymInt)


class Explorer:
    """Decisions taken on value nodes; replayed / extended depth-first."""
    path = []
    trace = []

    @classmethod
    def decide(cls, kind, node):
        i = len(cls.trace)
        ans = cls.path[i] if i < len(cls.path) else False
        cls.trace.append((kind, node, ans))
        return ans


class Val:
    """A symbolic probability value."""

    def __init__(self, node):
        self.node = node

    def __rsub__(self, other):
        if type(other) is int and other == 1:
            return Val(("oneSub", self.node))
        raise NotTableShaped("%r - value" % (other,))

    def __sub__(self, other):
        if isinstance(other, Val):
            return Val(("sub", self.node, other.node))
        raise NotTableShaped("value - %r" % (other,))

    def _cmp(kind):
        def f(self, other):
            if type(other) is int and other == 0:
                return Explorer.decide(kind, self.node)
            raise NotTableShaped("value %s %r" % (kind, other))
        return f
    __lt__ = _cmp("lt0")
    __gt__ = _cmp("gt0")
    __le__ = _cmp("le0")
    __ge__ = _cmp("ge0")
    del _cmp
    for _n in ("__bool__", "__eq__", "__ne__", "__hash__", "__int__", "__float__", "__index__", "__mul__", "__rmul__",
               "__truediv__", "__rtruediv__", "__neg__", "__add__", "__radd__", "__abs__", "__round__", "__floor__",
               "__ceil__", "__pow__", "__rpow__"):
        locals()[_n] = _refuse("value." + _n)
    del _n


def _arg(x):
    if isinstance(x, SymNum):
        return x.node
    raise NotTableShaped("cdf/pmf called with the non-symbolic argument %r" % (x,))


def make_stubs():
    import ka.probability as P

    class DiscStub(P.DiscreteRandomVariable):
        def cdf(self, x):
            # a non-int argument (the real discrete cdfs need range(x+1)) is recorded as it is; the model's
            # interpreter answers `none` for it and the theorems stop compiling
            return Val(("cdf", _arg(x)))

        def pmf(self, x):
            return Val(("pmf", _arg(x)))

        def mean(self):
            raise NotTableShaped("mean() called while evaluating an event")

        def sample(self):
            raise NotTableShaped("sample() called while evaluating an event")

    class ContStub(P.RandomVariable):
        def cdf(self, x):
            return Val(("cdf", _arg(x)))

        def mean(self):
            raise NotTableShaped("mean() called while evaluating an event")

        def sample(self):
            raise NotTableShaped("sample() called while evaluating an event")

    return DiscStub, ContStub


def explore(thunk):
    """Run thunk under every outcome of the recorded decisions.  Returns list of (trace, result)."""
    runs, todo = [], [[]]
    while todo:
        path = todo.pop()
        Explorer.path, Explorer.trace = path, []
        res = thunk()
        trace = list(Explorer.trace)
        runs.append((trace, res))
        for i in range(len(path), len(trace)):
            todo.append([t[2] for t in trace[:i]] + [True])
        if len(runs) > 16:
            raise NotTableShaped("too many decisions on probability values")
    return runs


def result_node(r):
    if isinstance(r, Val):
        return r.node
    if type(r) is int:
        return ("const", r)
    raise NotTableShaped("event probability returned %r" % (r,))


def normalise(runs):
    """The decision tree must be a single expression, or exactly max(v, 0)."""
    if len(runs) == 1:
        trace, res = runs[0]
        if trace:
            raise NotTableShaped("decision without alternative")
        n = result_node(res)
        if n[0] == "const":
            raise NotTableShaped("constant probability %r" % (n,))
        return n
    if len(runs) == 2:
        by = {}
        for trace, res in runs:
            if len(trace) != 1:
                raise NotTableShaped("nested decisions on probability values")
            by[trace[0][2]] = (trace[0][0], trace[0][1], result_node(res))
        if set(by) != {True, False} or by[True][:2] != by[False][:2]:
            raise NotTableShaped("inconsistent decision")
        kind, v = by[True][0], by[True][1]
        neg, pos = (by[True][2], by[False][2]) if kind in ("lt0", "le0") else (by[False][2], by[True][2])
        # v < 0 (or <= 0) -> 0 ; otherwise v     ==  max(v, 0)
        if neg == ("const", 0) and pos == v:
            return ("max0", v)
    raise NotTableShaped("probability is not of the form expr | max(expr, 0): %r" % (runs,))


def lean_arg(n):
    k = n[0]
    if k == "var":
        return "(.var %d)" % n[1]
    if k in ("floor", "ceil"):
        return "(.%s %s)" % (k, lean_arg(n[1]))
    if k == "addc":
        return "(.addc %s (%d))" % (lean_arg(n[1]), n[2])
    raise NotTableShaped("argument node %r" % (n,))


def lean_expr(n):
    k = n[0]
    if k in ("cdf", "pmf"):
        return "(.%s %s)" % (k, lean_arg(n[1]))
    if k in ("oneSub", "max0"):
        return "(.%s %s)" % (k, lean_expr(n[1]))
    if k == "sub":
        return "(.sub %s %s)" % (lean_expr(n[1]), lean_expr(n[2]))
    raise NotTableShaped("value node %r" % (n,))


def lean_ops(ops):
    return "[" + ", ".join("." + OPS[o] for o in ops) + "]"


def extract_rows():
    """[(ops, rvPos, disc, intOnly, expr node)] for everything the registry accepts."""
    import ka.functions as F
    import ka.probability as P
    DiscStub, ContStub = make_stubs()
    rows = []
    labels = []
    for k in (1, 2):
        for ops in itertools.product(OPS, repeat=k):
            name = "_".join(ops)
            if name not in F.FUNCTIONS:
                continue
            labels.append(ops)
            for pos in range(k + 1):
                for disc in (True, False):
                    found = None
                    for int_only, cls in ((False, SymNum), (True, SymInt)):
                        args = [cls(("var", i)) for i in range(k + 1)]
                        args[pos] = (DiscStub if disc else ContStub)()
                        try:
                            ev = F.dispatch(name, args)
                        except F.NoMatchingFunctionSignatureError:
                            continue
                        found = (int_only, args, ev)
                        break
                    if found is None:
                        continue
                    int_only, args, ev = found
                    if not isinstance(ev, (P.Event, P.DoubleEvent)):
                        raise NotTableShaped("%s%r did not construct an event: %r" % (name, (pos, disc), ev))

                    def thunk(name=name, pos=pos, disc=disc, cls=(SymInt if int_only else SymNum)):
                        a = [cls(("var", i)) for i in range(len(name.split("_")) + 1)]
                        a[pos] = (DiscStub if disc else ContStub)()
                        return F.dispatch("P", [F.dispatch(name, a)])
                    expr = normalise(explore(thunk))
                    rows.append((ops, pos, disc, int_only, expr))
    return rows, labels


def extract_flips():
    """make_comparison_node on every operator list: [(ops, new ops, reversed?)]"""
    import ka.parse as PA
    out = []
    for k in (1, 2):
        for ops in itertools.product(OPS, repeat=k):
            terms = ["t%d" % i for i in range(k + 1)]
            node = PA.make_comparison_node(list(terms), list(ops))
            new = tuple(node.label.split("_"))
            if node.value != node.label or any(o not in OPS for o in new) or len(new) != k:
                raise NotTableShaped("make_comparison_node(%r) -> %r" % (ops, node.label))
            kids = list(node.children)
            if kids == terms:
                rev = False
            elif kids == terms[::-1]:
                rev = True
            else:
                raise NotTableShaped("make_comparison_node(%r) reordered the operands to %r" % (ops, kids))
            out.append((ops, new, rev))
    return out


def gen_prob_table():
    rows, labels = extract_rows()
    flips = extract_flips()
    if not rows:
        raise NotTableShaped("no event row found in the registry")
    A = [HEADER.rstrip("\n"),  # noqa: F821 (injected)
         "/- Decision table of eval_probability / DoubleEvent.probability (symbolic execution of the live code",
         "   through the live registry), the parser's comparison-chain rewriting, and the registered labels. -/",
         "import KaVerif.Model.Prob",
         "namespace KaVerif.Gen.ProbTable",
         "open KaVerif.Prob",
         "",
         "def rows : List Row := ["]
    L = []
    for ops, pos, disc, int_only, expr in rows:
        L.append("  { ops := %s, rvPos := %d, disc := %s, intOnly := %s,\n    expr := %s }"
                 % (lean_ops(ops), pos, lbool(disc), lbool(int_only), lean_expr(expr)))  # noqa: F821
    A.append(",\n".join(L) + "]")
    A.append("")
    A.append("/-- `make_comparison_node`: written operator list ↦ (function label, operands reversed?) -/")
    A.append("def flips : List (List Op × (List Op × Bool)) := [")
    A.append(",\n".join("  (%s, (%s, %s))" % (lean_ops(o), lean_ops(n), lbool(r)) for o, n, r in flips) + "]")  # noqa: F821
    A.append("")
    A.append("/-- operator chains whose label is a registered function name -/")
    A.append("def labels : List (List Op) := [" + ", ".join(lean_ops(o) for o in labels) + "]")
    A.append("")
    A.append("end KaVerif.Gen.ProbTable")
    write_if_changed("ProbTable", "\n".join(A) + "\n")  # noqa: F821


MODULES = {"ProbTable": gen_prob_table}
