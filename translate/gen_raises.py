"""Translator plugin for C06: every `raise` statement of Ka's own source, read from the Python `ast`.

For each raise site: module, enclosing function (qualified), exception class, and whether the site is lexically inside a
`try` of the same function whose handlers name that class (or a base of it, or `Exception`).  Plus the exception classes
Ka defines with their bases, and — for every class that interpret.execute does not name — a CONTAINMENT analysis over a
by-name call graph: the class is contained when every call of a function that may raise it sits inside a `try` that
catches it (so it can never reach execute).  The Lean side (Props/C06Raises.lean) proves by kernel `decide` over this table
that every site is handled: locally, by the stage's handler list, by containment, or it is one of the few defensive
raises argued unreachable there by name.  A new `raise` of a class nobody catches makes that theorem fail at build time."""
import ast, os

STAGE = {"tokens": "lex", "parse": "parse"}      # every other module runs in the evaluation stage
SKIP = {"gui", "cli", "config", "currency", "__init__"}   # not reachable from interpret.execute (start-up code: C19's subject)


def _cls(e):
    if e is None:
        return "<reraise>"
    if isinstance(e, ast.Name) and not e.id[:1].isupper():
        return "<reraise>"          # `raise e`: a caught exception object, no new class
    if isinstance(e, ast.Call):
        e = e.func
    if isinstance(e, ast.Name):
        return e.id
    if isinstance(e, ast.Attribute):
        return e.attr
    return "<expr>"


def _handler_names(h):
    t = h.type
    if t is None:
        return ["<bare>"]
    elts = t.elts if isinstance(t, ast.Tuple) else [t]
    return [e.id if isinstance(e, ast.Name) else (e.attr if isinstance(e, ast.Attribute) else "?") for e in elts]


class _V(ast.NodeVisitor):
    """walks one module; records raise sites and call sites with the handler classes lexically protecting them"""

    def __init__(self, mod):
        self.mod, self.fn, self.prot = mod, [], []
        self.raises, self.calls, self.classes, self.loads = [], [], [], []

    def visit_ClassDef(self, n):
        bases = [b.id if isinstance(b, ast.Name) else (b.attr if isinstance(b, ast.Attribute) else "?") for b in n.bases]
        self.classes.append((n.name, bases))
        self.fn.append(n.name)
        self.generic_visit(n)
        self.fn.pop()

    def _fn(self, n):
        self.fn.append(n.name)
        saved, self.prot = self.prot, []          # a try around a nested def does not protect the def's body when it runs later
        self.generic_visit(n)
        self.prot = saved
        self.fn.pop()
    visit_FunctionDef = visit_AsyncFunctionDef = _fn

    def visit_Lambda(self, n):
        saved, self.prot = self.prot, []
        self.fn.append("<lambda>")
        self.generic_visit(n)
        self.fn.pop()
        self.prot = saved

    def visit_Name(self, n):
        if isinstance(n.ctx, ast.Load):
            self.loads.append(n.id)

    def visit_Attribute(self, n):
        if isinstance(n.ctx, ast.Load):
            self.loads.append(n.attr)
        self.generic_visit(n)

    def visit_Try(self, n):
        names = [x for h in n.handlers for x in _handler_names(h)]
        self.prot.append(names)
        for s in n.body:
            self.visit(s)
        self.prot.pop()
        for h in n.handlers:
            for s in h.body:
                self.visit(s)
        for s in n.orelse + n.finalbody:
            self.visit(s)

    def visit_Raise(self, n):
        self.raises.append((".".join(self.fn) or "<module>", _cls(n.exc), [x for p in self.prot for x in p]))
        self.generic_visit(n)

    def visit_Call(self, n):
        f = n.func
        name = f.id if isinstance(f, ast.Name) else (f.attr if isinstance(f, ast.Attribute) else None)
        if name:
            self.calls.append((".".join(self.fn) or "<module>", name, [x for p in self.prot for x in p]))
        # the callee position is a call, not a value reference
        for a in list(n.args) + [k.value for k in n.keywords]:
            self.visit(a)
        if isinstance(f, ast.Attribute):
            self.visit(f.value)


def gen_raises():
    src = os.path.join(REPO, "src", "ka")
    mods = {}
    for f in sorted(os.listdir(src)):
        if f.endswith(".py") and f[:-3] not in SKIP:
            v = _V(f[:-3])
            v.visit(ast.parse(open(os.path.join(src, f), encoding="utf-8").read()))
            mods[f[:-3]] = v
    parents = {}
    for v in mods.values():
        for name, bases in v.classes:
            if any(b.endswith("Exception") or b.endswith("Error") or b in parents for b in bases):
                parents[name] = bases[0]

    def catches(handler_names, cls):
        c = cls
        seen = set()
        while c and c not in seen:
            if c in handler_names:
                return True
            seen.add(c)
            c = parents.get(c) or ("Exception" if c not in ("Exception", "BaseException") and c[:1].isupper() and c != "<reraise>" else None)
        return "<bare>" in handler_names or "BaseException" in handler_names

    sites = []
    parse_calls = {callee for _caller, callee, _p in mods["parse"].calls} if "parse" in mods else set()
    for m, v in mods.items():
        for fn, cls, prot in v.raises:
            if cls in ("<reraise>", "<expr>"):
                continue        # re-raising what a handler caught adds no class
            sites.append((m, fn, cls, catches(prot, cls)))
    # functions of other modules that the parser calls by name run in the parse stage as well
    staged = [(STAGE.get(m, "eval"), m, fn, c, loc) for m, fn, c, loc in sites]
    staged += [("parse", m, fn, c, loc) for m, fn, c, loc in sites if m != "parse" and fn.split(".")[-1] in parse_calls]
    # ---- containment of the classes execute() does not name: fixpoint over a by-name call graph
    tree = ast.parse(open(os.path.join(src, "interpret.py"), encoding="utf-8").read())
    ex = next(n for n in tree.body if isinstance(n, ast.FunctionDef) and n.name == "execute")
    named = set()
    for t in [n for n in ex.body if isinstance(n, ast.Try)]:
        for h in t.handlers:
            named.update(_handler_names(h))
    conv = set()
    et = ast.parse(open(os.path.join(src, "eval.py"), encoding="utf-8").read())
    ept = next(n for n in et.body if isinstance(n, ast.FunctionDef) and n.name == "eval_parse_tree")
    for n in ast.walk(ept):
        if isinstance(n, ast.ExceptHandler):
            conv.update(_handler_names(n))
    contained, leaks = [], []
    for cls in sorted({c for _m, _f, c, loc in sites if not loc}):
        if catches(named | conv, cls):
            continue
        may = {fn.split(".")[-1] for m, fn, c, loc in sites if c == cls and not loc}
        # reaching execute's own frames unprotected is a leak; so is any way a function that may raise the class can be
        # called that this by-name graph cannot see: being passed around as a value (registered, stored) or being a lambda
        entry = {"execute", "eval_parse_tree", "eval_node", "tokenise", "parse_tokens", "display_result", "reduce_result", "<lambda>"}
        changed, leak = True, None
        while changed and leak is None:
            changed = False
            for m, v in mods.items():
                for caller, callee, prot in v.calls:
                    if callee in may and not catches(prot, cls):
                        c0 = caller.split(".")[-1]
                        if c0 == "<module>":
                            continue        # import time: not a frame under execute (start-up is C19's subject)
                        if c0 in entry:
                            leak = "%s.%s calls %s" % (m, caller, callee)
                            break
                        if c0 not in may:
                            may.add(c0)
                            changed = True
                if leak:
                    break
            if leak is None:
                for m, v in mods.items():
                    ref = next((x for x in v.loads if x in may), None)
                    if ref:
                        leak = "%s uses %s as a value (it can be called where this analysis does not see it)" % (m, ref)
                        break
        (leaks if leak else contained).append((cls, leak or ", ".join(sorted(may))))
    L = [HEADER, "namespace KaVerif.Gen.Raises", "",
         "/-- every `raise <Class>(...)` of the modules reachable from interpret.execute: (stage it runs in, module, function, class, handled inside the same function) -/",
         "def raiseSites : List (String × String × String × String × Bool) := ["]
    L.append(",\n".join("  (%s, %s, %s, %s, %s)" % (lstr(st), lstr(m), lstr(fn), lstr(c), lbool(loc)) for st, m, fn, c, loc in sorted(set(staged))) + "]")
    L += ["", "/-- exception classes Ka defines, with their base class -/",
          "def classParents : List (String × String) := [" + ", ".join("(%s, %s)" % (lstr(k), lstr(v)) for k, v in sorted(parents.items())) + "]",
          "", "/-- classes execute() does not name whose every raising call is wrapped in a try that catches them (by-name call graph): (class, functions that may raise it) -/",
          "def contained : List (String × String) := [" + ", ".join("(%s, %s)" % (lstr(c), lstr(w)) for c, w in contained) + "]",
          "", "/-- classes execute() does not name that reach an entry point unprotected (by-name call graph): (class, where) -/",
          "def leaking : List (String × String) := [" + ", ".join("(%s, %s)" % (lstr(c), lstr(w)) for c, w in leaks) + "]",
          "", "end KaVerif.Gen.Raises", ""]
    write_if_changed("Raises", "\n".join(L))


MODULES = {"Raises": gen_raises}
