"""Translator plugin for C06: the try/except structure of interpret.execute, eval.eval_parse_tree,
the interpreter command table and cli.main's fast path, read from the Python `ast` of the sources."""
import ast, os


def _names(t):
    if t is None:
        return ["<bare>"]
    if isinstance(t, ast.Tuple):
        return [n for e in t.elts for n in _names(e)]
    if isinstance(t, ast.Name):
        return [t.id]
    if isinstance(t, ast.Attribute):
        return [t.attr]
    raise ValueError("unsupported except clause: " + ast.dump(t))


def _calls(nodes):
    out = []
    for n in nodes:
        for c in ast.walk(n):
            if isinstance(c, ast.Call):
                f = c.func
                out.append(f.id if isinstance(f, ast.Name) else (f.attr if isinstance(f, ast.Attribute) else "?"))
    return out


def _handler_status(h):
    """what the handler does: ('return', k) / ('raise-or-return', k) / ('raise', cls)"""
    rets, raises = [], []
    for n in ast.walk(h):
        if isinstance(n, ast.Return) and isinstance(n.value, ast.Constant):
            rets.append(n.value.value)
        if isinstance(n, ast.Raise):
            raises.append(n)
    if rets and not raises:
        if len(set(rets)) != 1:
            raise ValueError("handler returns different statuses")
        return ("return", rets[0])
    if rets and raises:
        return ("reraise-if-flag", rets[-1])
    if raises and isinstance(raises[0].exc, ast.Call):
        f = raises[0].exc.func
        return ("raise", f.id if isinstance(f, ast.Name) else f.attr)
    raise ValueError("handler shape not understood")


def gen_exec():
    src = os.path.join(REPO, "src", "ka")
    tree = ast.parse(open(os.path.join(src, "interpret.py"), encoding="utf-8").read())
    fn = next(n for n in tree.body if isinstance(n, ast.FunctionDef) and n.name == "execute")
    tries = [n for n in fn.body if isinstance(n, ast.Try)]
    if len(tries) != 3:
        raise ValueError("execute() no longer has three try blocks (found %d)" % len(tries))
    want_calls = [["tokenise"], ["parse_tokens"], ["eval_parse_tree", "reduce_result", "display_result"]]
    blocks = []
    for t, wc in zip(tries, want_calls):
        calls = _calls(t.body)
        for c in wc:
            if c not in calls:
                raise ValueError("try block no longer calls %s" % c)
        hs = []
        for h in t.handlers:
            st = _handler_status(h)
            for nm in _names(h.type):
                hs.append((nm, st))
        blocks.append(hs)
    # statements of execute() between the tries must not call anything that can raise, except attribute reads
    etree = ast.parse(open(os.path.join(src, "eval.py"), encoding="utf-8").read())
    ept = next(n for n in etree.body if isinstance(n, ast.FunctionDef) and n.name == "eval_parse_tree")
    et = [n for n in ept.body if isinstance(n, ast.Try)]
    if len(et) != 1 or "eval_node" not in _calls(et[0].body):
        raise ValueError("eval_parse_tree shape changed")
    conv = []
    for h in et[0].handlers:
        st = _handler_status(h)
        if st[0] != "raise":
            raise ValueError("eval_parse_tree handler does not convert")
        for nm in _names(h.type):
            conv.append((nm, st[1]))
    # interpreter commands
    cmds = None
    for n in tree.body:
        if isinstance(n, ast.Assign) and getattr(n.targets[0], "id", None) == "INTERPRETER_COMMANDS":
            cmds = []
            for e in n.value.elts:
                names, call = e.elts
                nm = [x.value for x in names.elts] if isinstance(names, ast.Tuple) else [names.value]
                nargs = call.args[1].value
                cmds.append((nm, nargs, call.args[0].id))
    if cmds is None:
        raise ValueError("INTERPRETER_COMMANDS not found")
    # cli fast path
    ctree = ast.parse(open(os.path.join(src, "cli.py"), encoding="utf-8").read())
    main = next(n for n in ctree.body if isinstance(n, ast.FunctionDef) and n.name == "main")
    fast = False
    for n in ast.walk(main):
        if isinstance(n, ast.If):
            for c in ast.walk(n):
                if isinstance(c, ast.Call) and getattr(c.func, "attr", None) == "exit" and c.args and isinstance(c.args[0], ast.Call) \
                        and getattr(c.args[0].func, "id", None) == "execute":
                    cond = ast.unparse(n.test)
                    if cond != "len(raw_args) == 1 and raw_args[0] not in flaglist":
                        raise ValueError("cli.main fast-path condition changed: " + cond)
                    fast = True
    L = [HEADER, "namespace KaVerif.Gen.Exec\n"]

    def hl(hs):
        out = []
        for nm, st in hs:
            code = st[1] if st[0] in ("return", "reraise-if-flag") else 9
            out.append("(%s, %d)" % (lstr(nm), code))
        return llist(out)
    L.append("/-- handlers of the try around `tokenise` in interpret.execute: (exception class, status returned) -/")
    L.append("def lexCaught : List (String × Nat) := " + hl(blocks[0]))
    L.append("/-- handlers of the try around `parse_tokens` -/")
    L.append("def parseCaught : List (String × Nat) := " + hl(blocks[1]))
    L.append("/-- handlers of the try around eval_parse_tree / reduce_result / display_result, in order -/")
    L.append("def evalCaught : List (String × Nat) := " + hl(blocks[2]))
    L.append("/-- eval_parse_tree converts these host exceptions, raised while evaluating the tree, into this class -/")
    L.append("def evalConverted : List (String × String) := " + llist("(%s, %s)" % (lstr(a), lstr(b)) for a, b in conv))
    L.append("/-- INTERPRETER_COMMANDS: (names, number of arguments) -/")
    L.append("def commands : List (List String × Nat) := " + llist("(%s, %d)" % (llist(lstr(x) for x in nm), na) for nm, na, _ in cmds))
    L.append("/-- cli.main exits with execute()'s status on the one-argument fast path -/")
    L.append("def cliFastPath : Bool := " + lbool(fast))
    L.append("end KaVerif.Gen.Exec\n")
    write_if_changed("Exec", "\n".join(L))


MODULES = {"Exec": gen_exec}
