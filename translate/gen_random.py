"""
Translator plugin for C18: where does randomness enter src/ka?

An `ast` scan of every module of the package lists every use of Python's `random` module
(imports, attribute accesses `random.X`, the bare module object, from-imports) and of other
entropy sources (`secrets`, `uuid`, `os.urandom`, `SystemRandom`, `numpy.random`, dynamic imports
of "random"), each with file / enclosing function / line.

The generator FAILS (non-zero exit of gen.py → broken obligation) unless randomness is drawn at
exactly two places:
  * `probability.unit()` whose body is exactly `return random.random()`            (the draw)
  * `register_function(random.seed, "seed", …)` at module level of functions.py     (the seed)
and `rand` is registered exactly once, with the function object `unit` imported from
`.probability`.  The model (`Model/Sample.lean`) treats every sampler as a function of the stream of
`unit()` results; this scan is what licenses that reading of the current source tree.

Output: lean/KaVerif/Gen/RandomSources.lean (the use list + a kernel-checked `decide` that every
entry is one of the two allowed sites) and Gen/random_sources.json for the harness.
"""
import ast, glob, json, os

ENTROPY_MODULES = {"secrets", "uuid"}
ENTROPY_ATTRS = {"urandom", "SystemRandom", "getrandbits", "randbytes", "getrandom"}


class Scan(ast.NodeVisitor):
    def __init__(self, fname):
        self.fname = fname
        self.stack = []
        self.aliases = set()       # local names bound to the module `random`
        self.uses = []             # dict(file, func, kind, what, line)
        self.unit_calls = []       # (func, line) for every call `unit()`
        self.attr_bases = set()    # id() of Name nodes that are the base of an Attribute

    def ctx(self):
        return ".".join(self.stack) if self.stack else "<module>"

    def add(self, kind, what, node):
        self.uses.append(dict(file=self.fname, func=self.ctx(), kind=kind, what=what, line=node.lineno))

    def visit_FunctionDef(self, node):
        self.stack.append(node.name)
        self.generic_visit(node)
        self.stack.pop()

    visit_AsyncFunctionDef = visit_FunctionDef
    visit_ClassDef = visit_FunctionDef

    def visit_Import(self, node):
        for a in node.names:
            root = a.name.split(".")[0]
            if a.name == "random" or a.name.startswith("random."):
                self.aliases.add(a.asname or "random")
                self.add("import", a.name + ((" as " + a.asname) if a.asname else ""), node)
            elif root in ENTROPY_MODULES or a.name in ("numpy.random",):
                self.add("other-entropy-import", a.name, node)

    def visit_ImportFrom(self, node):
        mod = node.module or ""
        if mod == "random" or mod.startswith("random."):
            self.add("from-import", ",".join(a.name for a in node.names), node)
        elif mod.split(".")[0] in ENTROPY_MODULES or mod == "numpy.random":
            self.add("other-entropy-import", mod, node)
        elif mod in ("os",):
            for a in node.names:
                if a.name in ENTROPY_ATTRS:
                    self.add("other-entropy-import", mod + "." + a.name, node)
        elif mod == "numpy":
            for a in node.names:
                if a.name == "random":
                    self.add("other-entropy-import", "numpy.random", node)

    def visit_Attribute(self, node):
        if isinstance(node.value, ast.Name) and node.value.id in self.aliases:
            self.attr_bases.add(id(node.value))
            self.add("attr", node.attr, node)
        elif node.attr in ENTROPY_ATTRS:
            self.add("other-entropy-attr", node.attr, node)
        elif node.attr == "random" and isinstance(node.value, ast.Name) and node.value.id in ("np", "numpy"):
            self.add("other-entropy-attr", node.value.id + ".random", node)
        self.generic_visit(node)

    def visit_Name(self, node):
        if node.id in self.aliases and id(node) not in self.attr_bases and isinstance(node.ctx, ast.Load):
            self.add("module-object", node.id, node)

    def visit_Call(self, node):
        f = node.func
        if isinstance(f, ast.Name) and f.id == "unit":
            self.unit_calls.append((self.ctx(), node.lineno))
        dyn = (isinstance(f, ast.Name) and f.id == "__import__") or \
              (isinstance(f, ast.Attribute) and f.attr == "import_module")
        if dyn and node.args and isinstance(node.args[0], ast.Constant) and \
                str(node.args[0].value).split(".")[0] in ({"random"} | ENTROPY_MODULES):
            self.add("dynamic-import", str(node.args[0].value), node)
        self.generic_visit(node)


def scan_tree():
    src = os.path.join(REPO, "src", "ka")
    files = sorted(glob.glob(os.path.join(src, "**", "*.py"), recursive=True))
    if not files:
        raise RuntimeError("no sources under " + src)
    uses, unit_calls, trees = [], [], {}
    for p in files:
        rel = os.path.relpath(p, src)
        tree = ast.parse(open(p, encoding="utf-8").read(), filename=p)
        trees[rel] = tree
        # two passes: aliases first (an import may follow a use textually only inside functions)
        s = Scan(rel)
        for n in ast.walk(tree):
            if isinstance(n, ast.Import):
                for a in n.names:
                    if a.name == "random" or a.name.startswith("random."):
                        s.aliases.add(a.asname or "random")
        s.visit(tree)
        uses += s.uses
        unit_calls += [(rel, f, l) for f, l in s.unit_calls]
    return uses, unit_calls, trees


def check_shape(uses, unit_calls, trees):
    """Raise unless randomness enters at exactly the two allowed places."""
    problems = []
    draws = [u for u in uses if u["kind"] != "import"]
    # (A) probability.unit
    ptree = trees.get("probability.py")
    unit_def = [n for n in (ptree.body if ptree else []) if isinstance(n, ast.FunctionDef) and n.name == "unit"]
    if len(unit_def) != 1:
        problems.append("probability.py does not define exactly one top-level unit()")
    else:
        body = [b for b in unit_def[0].body if not (isinstance(b, ast.Expr) and isinstance(b.value, ast.Constant))]
        ok = (len(body) == 1 and isinstance(body[0], ast.Return) and isinstance(body[0].value, ast.Call)
              and not body[0].value.args and not body[0].value.keywords
              and isinstance(body[0].value.func, ast.Attribute) and body[0].value.func.attr == "random"
              and isinstance(body[0].value.func.value, ast.Name) and body[0].value.func.value.id == "random"
              and not unit_def[0].args.args and not unit_def[0].decorator_list)
        if not ok:
            problems.append("probability.unit() is not exactly `return random.random()`")
    # unit must not be rebound anywhere in probability.py / functions.py
    for rel in ("probability.py", "functions.py"):
        t = trees.get(rel)
        for n in ast.walk(t) if t else []:
            if isinstance(n, (ast.Assign, ast.AugAssign, ast.AnnAssign)):
                tg = n.targets if isinstance(n, ast.Assign) else [n.target]
                for x in tg:
                    for y in ast.walk(x):
                        if isinstance(y, ast.Name) and y.id in ("unit", "random"):
                            problems.append("%s rebinds the name %r at line %d" % (rel, y.id, n.lineno))
    # (B) the registrations in functions.py
    ftree = trees.get("functions.py")
    regs = {"rand": [], "seed": []}
    seed_attr_nodes = set()
    for n in ast.walk(ftree) if ftree else []:
        if isinstance(n, ast.Call) and isinstance(n.func, ast.Name) and n.func.id == "register_function" and len(n.args) >= 2:
            nm = n.args[1]
            if isinstance(nm, ast.Constant) and nm.value in regs:
                regs[nm.value].append(n)
    if len(regs["seed"]) != 1:
        problems.append("functions.py registers 'seed' %d times (expected once)" % len(regs["seed"]))
    else:
        a = regs["seed"][0].args[0]
        if not (isinstance(a, ast.Attribute) and a.attr == "seed" and isinstance(a.value, ast.Name) and a.value.id == "random"):
            problems.append("the 'seed' registration is not `random.seed` (line %d)" % regs["seed"][0].lineno)
        else:
            seed_attr_nodes.add(a.lineno)
    if len(regs["rand"]) != 1:
        problems.append("functions.py registers 'rand' %d times (expected once)" % len(regs["rand"]))
    else:
        a = regs["rand"][0].args[0]
        if not (isinstance(a, ast.Name) and a.id == "unit"):
            problems.append("the 'rand' registration is not the function object `unit` (line %d)" % regs["rand"][0].lineno)
    imported_unit = False
    for n in ast.walk(ftree) if ftree else []:
        if isinstance(n, ast.ImportFrom) and (n.module or "").endswith("probability") and n.level == 1:
            imported_unit |= any(a.name == "unit" and a.asname is None for a in n.names)
        if isinstance(n, (ast.FunctionDef, ast.ClassDef)) and n.name == "unit":
            problems.append("functions.py defines its own `unit`")
    if not imported_unit:
        problems.append("functions.py does not import `unit` from .probability")
    # every non-import use must be one of the two sites
    for u in draws:
        okA = (u["file"] == "probability.py" and u["func"] == "unit" and u["kind"] == "attr" and u["what"] == "random")
        okB = (u["file"] == "functions.py" and u["func"] == "<module>" and u["kind"] == "attr" and u["what"] == "seed"
               and u["line"] in seed_attr_nodes)
        u["site"] = "draw" if okA else "seed" if okB else "FORBIDDEN"
        if not (okA or okB):
            problems.append("randomness outside unit()/seed: %(file)s:%(line)d in %(func)s: %(kind)s %(what)s" % u)
    # unit() itself is called only by the samplers (and handed to the `rand` registration as an object)
    for f, fn, l in unit_calls:
        if not (f == "probability.py" and fn.endswith(".sample")):
            problems.append("unit() is called outside a sample() method: %s:%d in %s" % (f, l, fn))
    if sum(1 for u in draws if u.get("site") == "draw") != 1:
        problems.append("expected exactly one `random.random` access (inside unit())")
    if sum(1 for u in draws if u.get("site") == "seed") != 1:
        problems.append("expected exactly one `random.seed` access (the seed registration)")
    return problems


def gen_random_sources():
    uses, unit_calls, trees = scan_tree()
    problems = check_shape(uses, unit_calls, trees)
    for u in uses:
        u.setdefault("site", "import")
    meta = dict(uses=uses, unit_calls=[dict(file=f, func=fn, line=l) for f, fn, l in unit_calls], problems=problems,
                files=sorted(trees))
    with open(os.path.join(GEN, "random_sources.json"), "w") as f:
        json.dump(meta, f, indent=1, sort_keys=True)
    if problems:
        raise RuntimeError("random-source scan: " + "; ".join(problems))
    L = [HEADER, "namespace KaVerif.Gen.RandomSources\n"]
    L.append("/-- one syntactic use of the `random` module (or another entropy source) in src/ka -/")
    L.append("structure Use where\n  file : String\n  func : String\n  kind : String\n  what : String\n  line : Nat\n")
    L.append("/-- every use found by the ast scan of " + ", ".join(sorted(trees)) + " -/")
    L.append("def uses : List Use := [\n  " + ",\n  ".join(
        "{ file := %s, func := %s, kind := %s, what := %s, line := %d }" % (
            lstr(u["file"]), lstr(u["func"]), lstr(u["kind"]), lstr(u["what"]), u["line"]) for u in uses) + "]\n")
    L.append("/-- the call sites of `unit()` (file, enclosing function) -/")
    L.append("def unitCalls : List (String × String) := " + llist(
        "(%s, %s)" % (lstr(f), lstr(fn)) for f, fn, l in unit_calls) + "\n")
    L.append("def isImport (u : Use) : Bool := u.kind == \"import\" && u.what == \"random\"")
    L.append("def isDraw (u : Use) : Bool := u.file == \"probability.py\" && u.func == \"unit\" && u.kind == \"attr\" && u.what == \"random\"")
    L.append("def isSeed (u : Use) : Bool := u.file == \"functions.py\" && u.func == \"<module>\" && u.kind == \"attr\" && u.what == \"seed\"\n")
    L.append("/-- randomness enters src/ka only through `probability.unit()` (one `random.random` access) and the\n"
             "    `seed` registration (one `random.seed` access); everything else is a plain `import random` -/")
    L.append("theorem only_unit_and_seed :\n    uses.all (fun u => isImport u || isDraw u || isSeed u) = true ∧\n"
             "    (uses.filter isDraw).length = 1 ∧ (uses.filter isSeed).length = 1 := by decide\n")
    L.append("end KaVerif.Gen.RandomSources\n")
    write_if_changed("RandomSources", "\n".join(L))


MODULES = {"RandomSources": gen_random_sources}
