"""
Translator plug-in for the lexer (C11, shared with C02):  ka.tokens  ->  lean/KaVerif/Gen/Tokens.lean

Extracted from the *running* module: CONST_TOKENS (order preserved, duplicates preserved), ALPHA_TOKENS
(as the sub-list of CONST_TOKENS it is, first occurrences), the tag strings of the four valued token kinds,
and the sources + flags of the three regular expressions.

The regular expressions are not translated: the Lean model (Model/Lexer.lean) contains hand-written readers
for exactly the three patterns below.  If a pattern (or its flags) in /repo differs from these literal copies
the extraction FAILS, which the check reports as a broken obligation (the readers would no longer be the code).
"""
import re

# literal copies of the patterns the hand-written readers in Model/Lexer.lean implement
EXPECT_VAR = "[a-zA-Zμ€$£¥][_a-zA-Z0-9μ€$£¥]*"
EXPECT_BASED = "0(x|o|b|d)([0-9a-fA-F]+)"
EXPECT_NUM = ("\n    (([0-9]+\\.?[0-9]*)|([0-9]*\\.?[0-9]+))  # Decimal, float or integer\n"
              "    (e[\\-+]?[0-9]+)?                       # Scientific notation")
EXPECT_FLAGS = {"VAR_REGEX": re.UNICODE, "BASED_INT_REGEX": re.UNICODE, "NUM_REGEX": re.UNICODE | re.VERBOSE}
EXPECT_TAGS = {"VAR": "identifier", "NUM": "number", "STRING": "string", "INSTANT": "instant"}


def gen_tokens():
    import ka.tokens as T
    for name, want in (("VAR_REGEX", EXPECT_VAR), ("BASED_INT_REGEX", EXPECT_BASED), ("NUM_REGEX", EXPECT_NUM)):
        rx = getattr(T, name)
        if not isinstance(rx, re.Pattern):
            raise Exception("ka.tokens.%s is not a compiled pattern" % name)
        if rx.pattern != want:
            raise Exception("ka.tokens.%s changed: the hand-written reader implements %r, the code has %r"
                            % (name, want, rx.pattern))
        if rx.flags != EXPECT_FLAGS[name]:
            raise Exception("ka.tokens.%s flags changed: %r (expected %r)" % (name, rx.flags, EXPECT_FLAGS[name]))
    for attr, want in EXPECT_TAGS.items():
        if getattr(T.Tokens, attr) != want:
            raise Exception("ka.tokens.Tokens.%s changed: %r" % (attr, getattr(T.Tokens, attr)))
    consts = list(T.CONST_TOKENS)
    if not all(isinstance(t, str) and t for t in consts):
        raise Exception("CONST_TOKENS must be non-empty strings")
    if not isinstance(T.ALPHA_TOKENS, (set, frozenset)) or not set(T.ALPHA_TOKENS) <= set(consts):
        raise Exception("ALPHA_TOKENS is not a sub-set of CONST_TOKENS")
    alpha = []
    for t in consts:
        if t in T.ALPHA_TOKENS and t not in alpha:
            alpha.append(t)
    L = [HEADER, "namespace KaVerif.Gen.Tokens\n"]
    L.append("/-- `ka.tokens.CONST_TOKENS`, in scan order (duplicates kept) -/")
    L.append("def constTokens : List String := " + llist(lstr(t) for t in consts))
    L.append("/-- `ka.tokens.ALPHA_TOKENS` (a Python set; listed in CONST_TOKENS order) -/")
    L.append("def alphaTokens : List String := " + llist(lstr(t) for t in alpha))
    L.append("/-- sources of the three regular expressions; the translator fails unless they equal the patterns the readers implement -/")
    L.append("def varRegex : String := " + lstr(T.VAR_REGEX.pattern))
    L.append("def basedIntRegex : String := " + lstr(T.BASED_INT_REGEX.pattern))
    L.append("def numRegex : String := " + lstr(T.NUM_REGEX.pattern))
    L.append("def numRegexVerbose : Bool := " + lbool(bool(T.NUM_REGEX.flags & re.VERBOSE)))
    # behavioural probe of the one place where the reader leans on a lenient library call:
    # int(group2, base=2) accepts a base prefix of its own, so '0b0b1' reads as 1 unless the code rejects it
    try:
        tok = T.read_num_token(0, "0b0b1")
        if not (tok.tag == "number" and tok.end_index_excl == 5 and tok.meta("value") == 1):
            raise Exception("read_num_token('0b0b1') returned an unexpected token %r" % ((tok.tag, tok.end_index_excl, tok._meta),))
        accepts = True
    except T.BadNumberError:
        accepts = False
    L.append("/-- probe: does `read_num_token` let `int(…, base=2)` swallow a second `0b`/`0B` prefix (`0b0b1` = 1)? -/")
    L.append("def intAcceptsBinPrefix : Bool := " + lbool(accepts))
    L.append("end KaVerif.Gen.Tokens\n")
    write_if_changed("Tokens", "\n".join(L))


MODULES = {"Tokens": gen_tokens}
