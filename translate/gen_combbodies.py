"""
Translator for the lazy-combinatorics classes of /repo/src/ka/types.py and the two constructors of /repo/src/ka/utils.py
->  lean/KaVerif/Gen/CombBodies.lean   (loaded by translate/gen.py; helpers are injected)

What `translate/gen_bodies.py` refuses ("a class with attributes and methods") is handled here for the PURE part:

  * a Python class whose `__init__` assigns a fixed set of attributes becomes a Lean `structure` (`IntRange {lo hi : Int}`,
    `Combinatoric {ns ds : List IntRange}`); `self.x` is field access; a method becomes a function taking the structure;
  * the statement subset: `return e`, `if / elif / else` whose taken branches all return, assignment of a fresh local;
  * the expression subset: int literals, names, attribute reads of structure-typed names, `+` / `-` on ints, `+` on lists,
    comparisons (chained ones included) on ints, `not` / `and` / `or` on bools, conditional expressions, list and 2-tuple
    literals, constructor calls (positional / keyword), calls of translated methods, `[x for x in L if c]` (a filter),
    and the idiom `a if a else []` on an optional list parameter.

  TYPING ASSUMPTION (trusted, like the argument shapes of gen_bodies): the attributes `lo`, `hi` hold Python ints (they are
  only ever built from ints: `IntRange(2, n)`, `other.lo - 1`, …), so `+ - < <= >` are exact integer operations.

  Anything else is REFUSED with the reason and listed in `refused` (a refusal is not an error: the hand-written model of that
  method stays tied by correspondence only): loops that mutate a list in place (`ds.pop()`, `ds.extend`, slices) —
  `Combinatoric.mul`; mutation of attributes of objects held in a list and the memo `self.value` — `Combinatoric.resolve`;
  string formatting.
"""
import ast, os

FIELDS = {"IntRange": ["lo", "hi"], "Combinatoric": ["ns", "ds"]}
LEAN_T = {"I": "Int", "B": "Bool", "R": "IntRange", "LR": "List IntRange", "P": "List IntRange × List IntRange",
          "C": "Combinatoric", "IC": "Int ⊕ Combinatoric", "OLR": "Option (List IntRange)"}


class Refuse(Exception):
    pass


def src_of(lines, node):
    return "\n".join(lines[node.lineno - 1: node.end_lineno])


class Fn:
    def __init__(self, cls, node, methods, lines):
        self.cls, self.node, self.methods, self.lines = cls, node, methods, lines
        self.env = {}

    # ---- expressions ----------------------------------------------------------------------------------------------
    def expr(self, e):
        if isinstance(e, ast.Constant) and isinstance(e.value, int) and not isinstance(e.value, bool):
            return ("(%d : Int)" % e.value if e.value >= 0 else "(%d : Int)" % e.value, "I")
        if isinstance(e, ast.Name):
            if e.id not in self.env:
                raise Refuse("free name %s" % e.id)
            return (e.id, self.env[e.id])
        if isinstance(e, ast.Attribute):
            v, s = self.expr(e.value)
            if s == "R" and e.attr in FIELDS["IntRange"]:
                return ("%s.%s" % (v, e.attr), "I")
            if s == "C" and e.attr in FIELDS["Combinatoric"]:
                return ("%s.%s" % (v, e.attr), "LR")
            raise Refuse("attribute %s of a value of sort %s" % (e.attr, s))
        if isinstance(e, ast.Compare):
            ops = {ast.Lt: "<", ast.LtE: "≤", ast.Gt: ">", ast.GtE: "≥", ast.Eq: "=", ast.NotEq: "≠"}
            operands = [self.expr(x) for x in [e.left] + e.comparators]
            if any(s != "I" for _, s in operands):
                raise Refuse("comparison of non-integers")
            parts = []
            for i, op in enumerate(e.ops):
                if type(op) not in ops:
                    raise Refuse("comparison operator %s" % type(op).__name__)
                parts.append("decide (%s %s %s)" % (operands[i][0], ops[type(op)], operands[i + 1][0]))
            return ("(" + " && ".join(parts) + ")" if len(parts) > 1 else parts[0], "B")
        if isinstance(e, ast.BoolOp):
            vs = [self.expr(x) for x in e.values]
            if any(s != "B" for _, s in vs):
                raise Refuse("and / or on non-bools")
            return ("(" + (" || " if isinstance(e.op, ast.Or) else " && ").join(v for v, _ in vs) + ")", "B")
        if isinstance(e, ast.UnaryOp) and isinstance(e.op, ast.Not):
            v, s = self.expr(e.operand)
            if s != "B":
                raise Refuse("not on a non-bool")
            return ("!%s" % v if v.startswith("(") else "!(%s)" % v, "B")
        if isinstance(e, ast.BinOp) and isinstance(e.op, (ast.Add, ast.Sub)):
            (a, sa), (b, sb) = self.expr(e.left), self.expr(e.right)
            if sa == sb == "I":
                return ("(%s %s %s)" % (a, "+" if isinstance(e.op, ast.Add) else "-", b), "I")
            if sa == sb == "LR" and isinstance(e.op, ast.Add):
                return ("(%s ++ %s)" % (a, b), "LR")
            raise Refuse("operator on sorts %s, %s" % (sa, sb))
        if isinstance(e, ast.IfExp):
            # the idiom `a if a else []` on an optional list parameter
            if (isinstance(e.test, ast.Name) and self.env.get(e.test.id) == "OLR" and isinstance(e.body, ast.Name)
                    and e.body.id == e.test.id and isinstance(e.orelse, ast.List) and not e.orelse.elts):
                return ("(match %s with | some l => (if l.isEmpty then [] else l) | none => [])" % e.test.id, "LR")
            c, sc = self.expr(e.test)
            (a, sa), (b, sb) = self.expr(e.body), self.expr(e.orelse)
            if sc != "B" or sa != sb:
                raise Refuse("conditional expression on sorts %s ? %s : %s" % (sc, sa, sb))
            return ("(if %s then %s else %s)" % (c, a, b), sa)
        if isinstance(e, ast.List):
            vs = [self.expr(x) for x in e.elts]
            if any(s != "R" for _, s in vs):
                raise Refuse("list of non-ranges")
            return ("([%s] : List IntRange)" % ", ".join(v for v, _ in vs), "LR")
        if isinstance(e, ast.Tuple) and len(e.elts) == 2:
            (a, sa), (b, sb) = self.expr(e.elts[0]), self.expr(e.elts[1])
            if sa != "LR" or sb != "LR":
                raise Refuse("tuple of sorts %s, %s" % (sa, sb))
            return ("(%s, %s)" % (a, b), "P")
        if isinstance(e, ast.ListComp):
            if (len(e.generators) == 1 and isinstance(e.generators[0].target, ast.Name) and isinstance(e.elt, ast.Name)
                    and e.elt.id == e.generators[0].target.id and not e.generators[0].is_async):
                g = e.generators[0]
                src, ss = self.expr(g.iter)
                if ss != "LR":
                    raise Refuse("comprehension over sort %s" % ss)
                old = self.env.get(g.target.id)
                self.env[g.target.id] = "R"
                conds = [self.expr(c) for c in g.ifs]
                if old is None:
                    del self.env[g.target.id]
                else:
                    self.env[g.target.id] = old
                if any(s != "B" for _, s in conds):
                    raise Refuse("comprehension condition that is not a bool")
                cond = " && ".join(c for c, _ in conds) if conds else "true"
                return ("(List.filter (fun %s => %s) %s)" % (g.target.id, cond, src), "LR")
            raise Refuse("list comprehension that is not a filter")
        if isinstance(e, ast.Call):
            f = e.func
            if isinstance(f, ast.Name) and f.id == "IntRange" and len(e.args) == 2 and not e.keywords:
                (a, sa), (b, sb) = self.expr(e.args[0]), self.expr(e.args[1])
                if sa != "I" or sb != "I":
                    raise Refuse("IntRange(…) on non-integers")
                return ("(IntRange.mk %s %s)" % (a, b), "R")
            if isinstance(f, ast.Name) and f.id == "Combinatoric" and not e.args:
                kw = {}
                for k in e.keywords:
                    v, s = self.expr(k.value)
                    if k.arg not in ("ns", "ds") or s != "LR":
                        raise Refuse("Combinatoric(%s=… of sort %s)" % (k.arg, s))
                    kw[k.arg] = "(some %s)" % v
                return ("(Combinatoric.init %s %s)" % (kw.get("ns", "none"), kw.get("ds", "none")), "C")
            if isinstance(f, ast.Attribute) and not e.args and not e.keywords:
                v, s = self.expr(f.value)
                if s == "R" and ("IntRange", f.attr) in self.methods:
                    return ("(IntRange.%s %s)" % (f.attr, v), self.methods[("IntRange", f.attr)])
            raise Refuse("call of %s" % ast.unparse(f))
        raise Refuse("expression %s" % type(e).__name__)

    # ---- statements -----------------------------------------------------------------------------------------------
    @staticmethod
    def always_returns(stmts):
        if not stmts:
            return False
        s = stmts[-1]
        if isinstance(s, ast.Return):
            return True
        if isinstance(s, ast.If):
            return Fn.always_returns(s.body) and Fn.always_returns(s.orelse)
        return False

    def stmts(self, ss, ind):
        pad = "  " * ind
        if not ss:
            raise Refuse("a path that ends without `return`")
        s, rest = ss[0], ss[1:]
        if isinstance(s, ast.Expr) and isinstance(s.value, ast.Constant) and isinstance(s.value.value, str):
            return self.stmts(rest, ind)
        if isinstance(s, ast.Return):
            if s.value is None:
                raise Refuse("bare return")
            v, sort = self.expr(s.value)
            self.rets.append(sort)
            return pad + "@RET:%s@ %s" % (sort, v)
        if isinstance(s, ast.If):
            if not self.always_returns(s.body):
                raise Refuse("an `if` branch that falls through")
            c, sc = self.expr(s.test)
            if sc != "B":
                raise Refuse("condition of sort %s" % sc)
            return (pad + "if %s then\n" % c + self.stmts(s.body, ind + 1) + "\n" + pad + "else\n"
                    + self.stmts(list(s.orelse) + rest, ind + 1))
        if isinstance(s, ast.Assign) and len(s.targets) == 1 and isinstance(s.targets[0], ast.Name):
            x = s.targets[0].id
            if x in self.env:
                raise Refuse("re-assignment of %s" % x)
            v, sort = self.expr(s.value)
            self.env[x] = sort
            return pad + "let %s : %s := %s\n" % (x, LEAN_T[sort], v) + self.stmts(rest, ind)
        raise Refuse("statement %s" % type(s).__name__)

    def translate(self, name, params):
        """params: [(name, sort)] -> Lean definition text, return sort"""
        self.env = dict(params)
        self.rets = []
        body = self.stmts(self.node.body, 1)
        kinds = set(self.rets)
        if len(kinds) == 1:
            rs = kinds.pop()
            wrap = {rs: ""}
        elif kinds == {"I", "C"}:
            rs = "IC"
            wrap = {"I": "Sum.inl", "C": "Sum.inr"}
        else:
            raise Refuse("return values of sorts %s" % sorted(kinds))
        for k, w in wrap.items():
            body = body.replace("@RET:%s@ " % k, (w + " ") if w else "")
        doc = "/-- `%s` (%s:%d)\n```\n%s\n``` -/" % (name, self.file, self.node.lineno, src_of(self.lines, self.node))
        sig = " ".join("(%s : %s)" % (p, LEAN_T[s]) for p, s in params)
        return "%s\ndef %s %s : %s :=\n%s\n" % (doc, name, sig, LEAN_T[rs], body), rs


def init_fields(cls):
    """attributes assigned by `__init__`, in order: [(attr, value expression)]"""
    for n in cls.body:
        if isinstance(n, ast.FunctionDef) and n.name == "__init__":
            out = []
            for s in n.body:
                if (isinstance(s, ast.Assign) and len(s.targets) == 1 and isinstance(s.targets[0], ast.Attribute)
                        and isinstance(s.targets[0].value, ast.Name) and s.targets[0].value.id == "self"):
                    out.append((s.targets[0].attr, s.value))
                elif not (isinstance(s, ast.Expr) and isinstance(s.value, ast.Constant)):
                    raise Refuse("__init__ of %s does more than assign attributes" % cls.name)
            return n, out
    raise Refuse("class %s has no __init__" % cls.name)


def gen_combbodies():
    tpath = os.path.join(REPO, "src", "ka", "types.py")
    upath = os.path.join(REPO, "src", "ka", "utils.py")
    tsrc, usrc = open(tpath, encoding="utf-8").read(), open(upath, encoding="utf-8").read()
    ttree, utree = ast.parse(tsrc), ast.parse(usrc)
    tlines, ulines = tsrc.split("\n"), usrc.split("\n")
    classes = {n.name: n for n in ttree.body if isinstance(n, ast.ClassDef)}
    L = [HEADER, """/-
  The lazy-combinatorics classes `IntRange` / `Combinatoric` of src/ka/types.py and the constructors `lazy_factorial` /
  `lazy_choose` of src/ka/utils.py, TRANSLATED from their Python source by translate/gen_combbodies.py (a class with fixed
  attributes is a structure, a method a function of the structure; typing assumption: `lo`, `hi` hold Python ints).
  `translated` lists what was translated, `refused` what was not, and why.  Import-free.
-/
set_option linter.unusedVariables false
namespace KaVerif.Gen.CombBodies
"""]
    translated, refused = [], []
    methods = {}
    # ---- class IntRange: the structure -----------------------------------------------------------------------------
    ir = classes.get("IntRange")
    if ir is None:
        raise SystemExit("gen_combbodies: class IntRange not found in types.py")
    init, fields = init_fields(ir)
    params = [a.arg for a in init.args.args[1:]]
    if [f for f, _ in fields] != FIELDS["IntRange"] or any(not (isinstance(v, ast.Name) and v.id == f) for f, v in fields) \
            or params != FIELDS["IntRange"]:
        raise SystemExit("gen_combbodies: IntRange.__init__ no longer stores (lo, hi) as given")
    L.append("/-- `class IntRange` (ka/types.py:%d): the attributes `__init__` assigns, in the order of its parameters\n```\n%s\n``` -/"
             % (ir.lineno, src_of(tlines, init)))
    L.append("structure IntRange where\n  lo : Int\n  hi : Int\nderiving DecidableEq, Repr, Inhabited\n")
    for n in ir.body:
        if not isinstance(n, ast.FunctionDef) or n.name == "__init__":
            continue
        f = Fn("IntRange", n, methods, tlines)
        f.file = "ka/types.py"
        ps = [(a.arg, "R") for a in n.args.args]      # `self` and `other` are IntRanges (attribute reads `.lo`, `.hi`)
        try:
            text, rs = f.translate("IntRange." + n.name, ps)
            methods[("IntRange", n.name)] = rs
            L.append(text)
            translated.append("IntRange." + n.name)
        except Refuse as r:
            refused.append(("IntRange." + n.name, str(r)))
    # ---- class Combinatoric: structure and constructor -------------------------------------------------------------
    cb = classes.get("Combinatoric")
    if cb is None:
        raise SystemExit("gen_combbodies: class Combinatoric not found in types.py")
    init, fields = init_fields(cb)
    names = [f for f, _ in fields]
    if names[:2] != FIELDS["Combinatoric"]:
        raise SystemExit("gen_combbodies: Combinatoric.__init__ no longer assigns ns, ds first")
    for extra, v in fields[2:]:
        if isinstance(v, ast.Constant) and v.value is None:
            refused.append(("Combinatoric.%s" % extra, "attribute initialised to None and assigned later (a memo): not a field of the structure"))
        else:
            raise SystemExit("gen_combbodies: Combinatoric.__init__ assigns %s" % extra)
    f = Fn("Combinatoric", init, methods, tlines)
    f.env = {a.arg: "OLR" for a in init.args.args[1:]}
    if len(init.args.defaults) != 2 or any(not (isinstance(d, ast.Constant) and d.value is None) for d in init.args.defaults):
        raise SystemExit("gen_combbodies: Combinatoric.__init__ defaults are no longer None")
    vals = [f.expr(v) for _, v in fields[:2]]
    L.append("/-- `class Combinatoric` (ka/types.py:%d): the list attributes `__init__` assigns -/" % cb.lineno)
    L.append("structure Combinatoric where\n  ns : List IntRange\n  ds : List IntRange\nderiving DecidableEq, Repr, Inhabited\n")
    L.append("/-- `Combinatoric.__init__` (ka/types.py:%d); a parameter left out is `None`\n```\n%s\n``` -/" % (init.lineno, src_of(tlines, init)))
    L.append("def Combinatoric.init %s : Combinatoric :=\n  Combinatoric.mk %s %s\n"
             % (" ".join("(%s : Option (List IntRange))" % a.arg for a in init.args.args[1:]), vals[0][0], vals[1][0]))
    translated.append("Combinatoric.__init__")
    for n in cb.body:
        if not isinstance(n, ast.FunctionDef) or n.name == "__init__":
            continue
        why = None
        for x in ast.walk(n):
            if isinstance(x, ast.While):
                why = "a `while` loop over lists that are mutated in place (`pop`, `extend`, slices, attribute updates of list elements)"
                break
            if isinstance(x, ast.JoinedStr) or (isinstance(x, ast.Call) and isinstance(x.func, ast.Name) and x.func.id in ("str", "map")):
                why = "string formatting"
        if why is None:
            f = Fn("Combinatoric", n, methods, tlines)
            f.file = "ka/types.py"
            try:
                f.translate("Combinatoric." + n.name, [("self", "C")] + [(a.arg, "I") for a in n.args.args[1:]])
                why = "not needed by the model (no agreement theorem to state)"
            except Refuse as r:
                why = str(r)
        refused.append(("Combinatoric." + n.name, why))
    # ---- utils.lazy_factorial, utils.lazy_choose -------------------------------------------------------------------
    ufns = {n.name: n for n in utree.body if isinstance(n, ast.FunctionDef)}
    for nm in ("lazy_factorial", "lazy_choose"):
        if nm not in ufns:
            refused.append((nm, "not found in utils.py"))
            continue
        f = Fn(None, ufns[nm], methods, ulines)
        f.file = "ka/utils.py"
        try:
            text, rs = f.translate(nm, [(a.arg, "I") for a in ufns[nm].args.args])
            L.append(text)
            translated.append(nm)
        except Refuse as r:
            refused.append((nm, str(r)))
    tf = [n for n in ttree.body if isinstance(n, ast.FunctionDef) and n.name == "fraction_divide"]
    if tf:
        refused.append(("fraction_divide", "constructs a host-library object (`fractions.Fraction(n1, n2)`): its normalisation and "
                        "ZeroDivisionError are modelled by `Arith`/`Num`, not translated"))
    L.append("/-- what the translator rendered -/")
    L.append("def translated : List String := %s\n" % llist(lstr(t) for t in translated))
    L.append("/-- what the translator refused, and why -/")
    L.append("def refused : List (String × String) := [\n  %s]\n" % ",\n  ".join("(%s, %s)" % (lstr(a), lstr(b)) for a, b in refused))
    L.append("end KaVerif.Gen.CombBodies\n")
    write_if_changed("CombBodies", "\n".join(L))


MODULES = {"CombBodies": gen_combbodies}
