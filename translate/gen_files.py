"""
Translator plug-in for the optional per-user files (C19, shared with C20):

  Gen/Caught.lean        from the Python `ast` of config.py / currency.py / interpret.py:
                         for every *risky call site* of read_config, load_currency_data,
                         parse_currency_data, load_history, readline_load_history and save_history the
                         handlers of the `try` that encloses it (exception classes in order, the keyword
                         names of every `print` in the handler, where it prints, how the handler ends).
  Gen/ConfigProps.lean   the ConfigProperties table of the *running* ka.config (name, default as text,
                         num flag, boolean flag; in the order read_config scans it), plus the two CPython
                         character tables the model's `strip`/`int` rely on (str.isspace, decimal digits).
  Gen/CurrencyData.lean  DEFAULT_CURRENCY_DATA (code points), DEFAULT_BASE_CURRENCY, SPECIAL_NAMES,
                         SPECIAL_CURRENCY_SYMBOLS, and the *shape* of the registration loop of units.py.

The extraction FAILS (non-zero exit; the check treats it as a broken obligation and searches the real code
for a failing input) when
  * a `print` call in one of these functions is given a keyword other than file/end/sep/flush
    (the historical defect: `print(..., out=sys.stderr)` raises TypeError inside the handler),
  * a risky call site the model knows is missing, has more than one enclosing `try`, or a call the model
    does not know appears outside every `try`,
  * a handler ends differently from what the model's control flow implements,
  * the base-currency selection or the registration loop of units.py no longer has the statement shape the
    hand-written model follows (compared as normalised source text).
"""
import ast, os, re

PRINT_KW = ("file", "end", "sep", "flush")

# Python exception class name -> constructor of KaVerif.UserFiles.ExnClass
EXN_CLASSES = {
    "BaseException": "baseException", "Exception": "exception",
    "OSError": "osError", "IOError": "osError", "EnvironmentError": "osError",
    "IsADirectoryError": "isADirectoryError", "NotADirectoryError": "notADirectoryError",
    "PermissionError": "permissionError", "FileNotFoundError": "fileNotFoundError",
    "ValueError": "valueError", "UnicodeError": "unicodeError", "UnicodeDecodeError": "unicodeDecodeError",
    "TypeError": "typeError", "AssertionError": "assertionError",
}

# (file, function) -> { site name : (callee text, occurrence index among calls with that text) }
# `*` as the callee = "every call of the function that is not listed as allowed outside".
SITES = {
    ("config.py", "read_config"): {
        "cfgOpen": ("open", 0), "cfgReadlines": ("f.readlines", 0), "cfgInt": ("int", 0)},
    ("currency.py", "load_currency_data"): {
        "curOpen": ("open", 0), "curRead": ("f.read", 0), "curParse": ("parse_currency_data", 0),
        "curDefaultParse": ("parse_currency_data", 1)},
    ("currency.py", "parse_currency_data"): {"parseFloat": ("float", 0)},
    ("interpret.py", "load_history"): {
        "histExists": ("os.path.exists", 0), "histOpen": ("open", 0), "histReadlines": ("f.readlines", 0)},
    ("interpret.py", "readline_load_history"): {"addHistory": ("readline.add_history", 0)},
    ("interpret.py", "save_history"): {
        "saveGetPath": ("ka.config.get", 0), "saveEnabled": ("history_enabled", 0),
        "saveExists": ("os.path.exists", 0), "saveOpenAppend": ("open", 0), "saveWriteAppend": ("f.write", 0),
        "saveMakedirs": ("os.makedirs", 0), "saveOpenNew": ("open", 1), "saveWriteNew": ("f.write", 2)},
}
# calls that may sit outside every `try` (they cannot raise on the states the model distinguishes,
# or they are pure string/list operations)
ALLOWED_OUTSIDE = {
    "read_config": {"os.path.exists", "os.path.isfile", "ConfigProperties", "dir", "props_obj.__getattribute__",
                    "x.startswith", "line.split", "len", "map", "x.strip", "next", "printerr", "print"},
    "load_currency_data": {"ka.config.get", "os.path.exists", "print", "parse_currency_data"},
    "parse_currency_data": {"map", "filter", "line.split", "line.strip", "s.split", "len", "result.append",
                            "CurrencyData", "float"},
    "load_history": {"ka.config.get", "history_enabled", "print", "str"},
    "readline_load_history": {"load_history", "line.strip"},
    "save_history": {"print", "str"},
}
# how the handler protecting a site must end: fallthrough (runs off its end), ret (return), cont (continue)
EXPECT_ACTION = {
    "cfgOpen": "ret", "cfgReadlines": "ret", "cfgInt": "cont",
    "curOpen": "fallthrough", "curRead": "fallthrough", "curParse": "fallthrough",
    "histExists": "fallthrough", "histOpen": "fallthrough", "histReadlines": "fallthrough",
    "addHistory": "fallthrough",
    "saveGetPath": "fallthrough", "saveEnabled": "fallthrough", "saveExists": "fallthrough",
    "saveOpenAppend": "fallthrough", "saveWriteAppend": "fallthrough", "saveMakedirs": "fallthrough",
    "saveOpenNew": "fallthrough", "saveWriteNew": "fallthrough",
}
# sites that must NOT be protected locally (the model lets the exception propagate to the caller)
UNPROTECTED = {"parseFloat", "curDefaultParse"}
SITE_ORDER = ["cfgOpen", "cfgReadlines", "cfgInt", "curOpen", "curRead", "curParse", "curDefaultParse", "parseFloat",
              "histExists", "histOpen", "histReadlines", "addHistory", "saveGetPath", "saveEnabled", "saveExists",
              "saveOpenAppend", "saveWriteAppend", "saveMakedirs", "saveOpenNew", "saveWriteNew"]


def _src(fname):
    return open(os.path.join(REPO, "src", "ka", fname), encoding="utf-8").read()


def _function(tree, name):
    for n in ast.walk(tree):
        if isinstance(n, ast.FunctionDef) and n.name == name:
            return n
    raise Exception("function %s not found" % name)


def _collect_calls(fn):
    """[(callee text, enclosing try nodes innermost-last, call node)] in source order, nested defs included."""
    out = []

    def visit(node, chain):
        if isinstance(node, ast.Try):
            for s in node.body:
                visit(s, chain + [node])
            for h in node.handlers:
                for s in h.body:
                    visit(s, chain)
            for s in node.orelse + node.finalbody:
                visit(s, chain)
            return
        if isinstance(node, ast.Call):
            out.append((ast.unparse(node.func), chain, node))
        for c in ast.iter_child_nodes(node):
            visit(c, chain)

    for s in fn.body:
        visit(s, [])
    out.sort(key=lambda t: (t[2].lineno, t[2].col_offset))
    return out


def _check_prints(fn, where):
    for n in ast.walk(fn):
        if isinstance(n, ast.Call) and isinstance(n.func, ast.Name) and n.func.id == "print":
            for k in n.keywords:
                if k.arg not in PRINT_KW:
                    raise Exception("%s: print() is called with keyword %r (line %d); print accepts only %s — "
                                    "the call raises TypeError" % (where, k.arg, n.lineno, "/".join(PRINT_KW)))


def _handler(h, where):
    """one `except` clause -> (classes, print keyword lists, prints only to stderr/param?, action)"""
    if h.type is None:
        classes = None
    else:
        ts = h.type.elts if isinstance(h.type, ast.Tuple) else [h.type]
        classes = []
        for t in ts:
            nm = ast.unparse(t).split(".")[-1]
            if nm not in EXN_CLASSES:
                raise Exception("%s: handler catches %s, a class the model's hierarchy does not list" % (where, nm))
            classes.append(EXN_CLASSES[nm])
    prints, stderr_only = [], True
    for n in ast.walk(h):
        if isinstance(n, ast.Call) and isinstance(n.func, ast.Name) and n.func.id in ("print", "printerr"):
            kws = [k.arg for k in n.keywords]
            for k in kws:
                if k not in PRINT_KW:
                    raise Exception("%s: handler calls print(..., %s=...) (line %d): TypeError inside the handler"
                                    % (where, k, n.lineno))
            prints.append(kws)
            if n.func.id == "print":
                tgt = [ast.unparse(k.value) for k in n.keywords if k.arg == "file"]
                if tgt != ["sys.stderr"]:
                    stderr_only = False
    last = h.body[-1]
    if isinstance(last, ast.Return):
        action = "ret"
    elif isinstance(last, ast.Continue):
        action = "cont"
    elif isinstance(last, ast.Raise):
        action = "reraise"
    else:
        action = "fallthrough"
    for n in ast.walk(h):
        if isinstance(n, (ast.Raise,)):
            action = "reraise"
    return classes, prints, stderr_only, action


def extract_sites():
    """site name -> list of handlers (possibly empty)"""
    res = {}
    for (fname, fnname), sites in SITES.items():
        tree = ast.parse(_src(fname))
        fn = _function(tree, fnname)
        _check_prints(fn, "%s:%s" % (fname, fnname))
        calls = _collect_calls(fn)
        seen, used = {}, set()
        bysite = {}
        for callee, chain, node in calls:
            i = seen.get(callee, 0)
            seen[callee] = i + 1
            for site, (want, occ) in sites.items():
                if want == callee and occ == i:
                    bysite[site] = (chain, node)
                    used.add(id(node))
        for site in sites:
            if site not in bysite:
                raise Exception("%s:%s: call site %s (%s #%d) not found — the function no longer has the shape "
                                "the model follows" % (fname, fnname, site, sites[site][0], sites[site][1]))
        for callee, chain, node in calls:
            if id(node) in used or chain:
                continue
            if callee not in ALLOWED_OUTSIDE[fnname]:
                raise Exception("%s:%s: call %s (line %d) is outside every try and unknown to the model"
                                % (fname, fnname, callee, node.lineno))
        for site, (chain, node) in bysite.items():
            where = "%s:%s:%s" % (fname, fnname, site)
            if len(chain) > 1:
                raise Exception("%s: %d nested try statements — the model handles one" % (where, len(chain)))
            hs = [_handler(h, where) for h in chain[0].handlers] if chain else []
            if site in UNPROTECTED and hs:
                raise Exception("%s: now protected by a try; the model lets it propagate" % where)
            if site in EXPECT_ACTION:
                for (_, _, _, action) in hs:
                    if action != EXPECT_ACTION[site]:
                        raise Exception("%s: handler ends with %s, the model implements %s"
                                        % (where, action, EXPECT_ACTION[site]))
            res[site] = hs
    return res


def gen_caught():
    sites = extract_sites()
    L = [HEADER, "import KaVerif.Model.UserFiles", "namespace KaVerif.Gen.Caught", "open KaVerif.UserFiles", ""]
    L.append("/-- For every risky call site of the per-user-file functions: the handlers of the enclosing `try`")
    L.append("    (exception classes in order; keyword names of each print call — the translator refuses any")
    L.append("    keyword other than file/end/sep/flush; whether every print goes to sys.stderr; how it ends). -/")
    L.append("def guard : Site → List Handler")
    for s in SITE_ORDER:
        hs = sites[s]
        items = []
        for classes, prints, stderr_only, action in hs:
            cl = "none" if classes is None else "(some %s)" % llist("." + c for c in classes)
            pk = llist(llist("." + ("end_" if k == "end" else k) for k in kws) for kws in prints)
            items.append("⟨%s, %s, %s, .%s⟩" % (cl, pk, lbool(stderr_only), action))
        L.append("  | .%s => %s" % (s, llist(items)))
    L.append("")
    L.append("end KaVerif.Gen.Caught\n")
    write_if_changed("Caught", "\n".join(L))


def _norm_home(s):
    home = os.path.expanduser("~")
    return s.replace(home, "~") if home and home != "/" else s


def gen_configprops():
    import unicodedata
    import ka.config as C
    po = C.ConfigProperties()
    props = [po.__getattribute__(x) for x in dir(po) if not x.startswith("_")]   # exactly read_config's list
    rows = []
    for p in props:
        if not isinstance(p, C.ConfigProperty):
            raise Exception("ConfigProperties has a non-property attribute %r" % (p,))
        if not isinstance(p.name, str):
            raise Exception("ConfigProperty name is not a string: %r" % (p.name,))
        rows.append((p.name, _norm_home(str(p.default)), bool(p.num), bool(p.boolean)))
    spaces = [c for c in range(0x110000) if chr(c).isspace()]
    zeros = [c for c in range(0x110000) if unicodedata.decimal(chr(c), -1) == 0]
    alld = [c for c in range(0x110000) if unicodedata.decimal(chr(c), -1) >= 0]
    for z in zeros:
        if not all(unicodedata.decimal(chr(z + i), -1) == i for i in range(10)):
            raise Exception("decimal digits of block %x are not contiguous" % z)
    if len(alld) != 10 * len(zeros):
        raise Exception("decimal digit outside a 0..9 block")
    L = [HEADER, "namespace KaVerif.Gen.ConfigProps", ""]
    L.append("/-- `ConfigProperties` in the order `read_config` scans it (`dir()` order):")
    L.append("    (name as code points, default as text (HOME shown as ~) as code points, num, boolean) -/")
    L.append("def props : List (List Nat × List Nat × Bool × Bool) := [")
    L.append("\n".join("  (%s, %s, %s, %s)%s  -- %s = %s" % (codepoints(n), codepoints(d), lbool(nu), lbool(b),
                                                          "," if i < len(rows) - 1 else "", n, d)
                       for i, (n, d, nu, b) in enumerate(rows)))
    L.append("]")
    L.append("/-- code points `c` with `chr(c).isspace()` in the running CPython (what `str.strip()` and `int()` remove) -/")
    L.append("def pySpace : List Nat := " + llist(map(str, spaces)))
    L.append("/-- code points of every decimal digit ZERO (`unicodedata.decimal == 0`); the nine that follow are 1..9 -/")
    L.append("def pyDecimalZeros : List Nat := " + llist(map(str, zeros)))
    L.append("")
    L.append("end KaVerif.Gen.ConfigProps\n")
    write_if_changed("ConfigProps", "\n".join(L))


# The statement shapes of units.py the hand-written model (Model/UserFiles.lean `baseCurrency`,
# `registerRow`; Model/Currency.lean `multiple`) follows, as normalised source text (ast.unparse).
EXPECT_BASE_SELECT = [
    "DEFAULT_BASE_CURRENCY = 'eur'",
    "CURRENCY_DATA = load_currency_data()",
    "BASE_CURRENCY = ka.config.get(ConfigProperties.BASE_CURRENCY)",
    "def has_currency(sym, currency_data):\n    return any((c.symbol == sym for c in currency_data))",
    "if not has_currency(BASE_CURRENCY, CURRENCY_DATA):\n    if has_currency(DEFAULT_BASE_CURRENCY, CURRENCY_DATA):\n"
    "        BASE_CURRENCY = DEFAULT_BASE_CURRENCY\n    else:\n        BASE_CURRENCY = None",
]
EXPECT_REG_BLOCK = """if BASE_CURRENCY is not None:
    CASH = QSPACE.get_basis_vector(BASE_CURRENCY)
    base = next((c for c in CURRENCY_DATA if c.symbol == BASE_CURRENCY))
    for c in CURRENCY_DATA:
        if not c.dollar_rate > 0:
            continue
        mul = base.dollar_rate / c.dollar_rate
        cname = typable_name(c.name, c.symbol)
        if cname in NAME_TO_UNIT and c.symbol in SYMBOL_TO_UNIT:
            continue
        name = c.symbol if cname in NAME_TO_UNIT else cname
        sym = cname if c.symbol in SYMBOL_TO_UNIT else c.symbol
        if sym in SPECIAL_NAMES:
            name = SPECIAL_NAMES[sym]
        if name in NAME_TO_UNIT or name + 's' in NAME_TO_UNIT or sym in SYMBOL_TO_UNIT:
            continue
        register_unit(sym, name, 'cash', CASH, multiple=mul)
        if sym in SPECIAL_CURRENCY_SYMBOLS:
            special_sym = SPECIAL_CURRENCY_SYMBOLS[sym]
            if special_sym in NAME_TO_UNIT or special_sym + 's' in NAME_TO_UNIT or special_sym in SYMBOL_TO_UNIT:
                continue
            register_unit(special_sym, special_sym, 'cash', CASH, multiple=mul)"""
EXPECT_TYPABLE = """def typable_name(name, fallback):
    decomposed = unicodedata.normalize('NFKD', name)
    cleaned = ''.join((ch for ch in decomposed if ch.isascii() and (ch.isalnum() or ch == '_')))
    return cleaned if cleaned and cleaned[0].isalpha() else fallback"""
EXPECT_WRITER = """def scrape_and_store_rates_to(path):
    currencies = scrape_exchange_rates()
    with open(path, 'w') as f:
        for c in currencies:
            f.write(','.join([c.symbol, c.name, str(c.dollar_rate)]))
            f.write('\\n')"""


def gen_currencydata():
    import ka.currency as CU
    tree = ast.parse(_src("units.py"))
    top = tree.body
    # --- base currency selection: the five statements starting at DEFAULT_BASE_CURRENCY
    idx = next((i for i, s in enumerate(top) if isinstance(s, ast.Assign) and
                ast.unparse(s.targets[0]) == "DEFAULT_BASE_CURRENCY"), None)
    if idx is None:
        raise Exception("units.py: DEFAULT_BASE_CURRENCY assignment not found")
    got = [ast.unparse(s) for s in top[idx:idx + len(EXPECT_BASE_SELECT)]]
    if got != EXPECT_BASE_SELECT:
        raise Exception("units.py: base-currency selection changed; the model follows\n%s\nthe code has\n%s"
                        % ("\n".join(EXPECT_BASE_SELECT), "\n".join(got)))
    # --- the registration block
    blk = [s for s in top if isinstance(s, ast.If) and ast.unparse(s.test) == "BASE_CURRENCY is not None"
           and any(isinstance(x, ast.For) for x in s.body)]
    if len(blk) != 1:
        raise Exception("units.py: currency registration block not found")
    got = ast.unparse(blk[0])
    if got != EXPECT_REG_BLOCK:
        import difflib
        d = "\n".join(difflib.unified_diff(EXPECT_REG_BLOCK.split("\n"), got.split("\n"), "model", "code", lineterm=""))
        raise Exception("units.py: the currency registration loop changed; the model no longer follows it:\n" + d)
    # typable_name (the model's `typableName`), docstring dropped
    tn = _function(tree, "typable_name")
    if tn.body and isinstance(tn.body[0], ast.Expr) and isinstance(getattr(tn.body[0], "value", None), ast.Constant):
        tn.body = tn.body[1:]
    if ast.unparse(tn) != EXPECT_TYPABLE:
        raise Exception("units.py: typable_name changed; the model's `typableName` follows\n%s\ncode:\n%s"
                        % (EXPECT_TYPABLE, ast.unparse(tn)))
    # register_unit's own assertions (the model's `registerUnit`)
    ru = _function(tree, "register_unit")
    asserts = [ast.unparse(n.test) for n in ast.walk(ru) if isinstance(n, ast.Assert)]
    want = ["isinstance(quantity_vector, QuantityVector)", "quantity_vector == QUANTITY_TO_QV[q]",
            "singular_name not in NAME_TO_UNIT", "symbol not in SYMBOL_TO_UNIT", "plural_name not in NAME_TO_UNIT"]
    if sorted(asserts) != sorted(want):
        raise Exception("units.py: register_unit's assertions changed: %r" % asserts)
    # --- the export writer
    wr = ast.unparse(_function(ast.parse(_src("currency.py")), "scrape_and_store_rates_to"))
    if wr != EXPECT_WRITER:
        raise Exception("currency.py: the export writer changed; the model's `exportTable` follows\n%s\ncode:\n%s"
                        % (EXPECT_WRITER, wr))
    # --- constants (literal dicts of units.py, by ast)
    consts = {}
    for s in top:
        if isinstance(s, ast.Assign) and ast.unparse(s.targets[0]) in ("SPECIAL_CURRENCY_SYMBOLS", "SPECIAL_NAMES",
                                                                         "DEFAULT_BASE_CURRENCY"):
            consts[ast.unparse(s.targets[0])] = ast.literal_eval(s.value)
    for k in ("SPECIAL_CURRENCY_SYMBOLS", "SPECIAL_NAMES", "DEFAULT_BASE_CURRENCY"):
        if k not in consts:
            raise Exception("units.py: %s is not a literal" % k)
    text = CU.DEFAULT_CURRENCY_DATA
    if not isinstance(text, str):
        raise Exception("DEFAULT_CURRENCY_DATA is not a string")
    L = [HEADER, "namespace KaVerif.Gen.CurrencyData", ""]
    L.append("/-- `ka.currency.DEFAULT_CURRENCY_DATA` as code points (%d rows) -/" % (text.count("\n") + 1))
    rows = text.split("\n")
    L.append("def defaultRows : List (List Nat) := [\n  " + ",\n  ".join(codepoints(r) for r in rows) + "]")
    L.append("def joinNL : List (List Nat) → List Nat\n  | [] => []\n  | [r] => r\n  | r :: rs => r ++ 10 :: joinNL rs")
    L.append("/-- the text itself: the rows joined by newlines -/")
    L.append("def defaultText : List Nat := joinNL defaultRows")
    L.append("/-- `DEFAULT_BASE_CURRENCY` -/")
    L.append("def defaultBase : List Nat := %s  -- %s" % (codepoints(consts["DEFAULT_BASE_CURRENCY"]), consts["DEFAULT_BASE_CURRENCY"]))
    L.append("/-- `SPECIAL_NAMES` (symbol ↦ short name) -/")
    L.append("def specialNames : List (List Nat × List Nat) := " +
             llist("(%s, %s)" % (codepoints(k), codepoints(v)) for k, v in consts["SPECIAL_NAMES"].items()))
    L.append("/-- `SPECIAL_CURRENCY_SYMBOLS` (symbol ↦ sign) -/")
    L.append("def specialSymbols : List (List Nat × List Nat) := " +
             llist("(%s, %s)" % (codepoints(k), codepoints(v)) for k, v in consts["SPECIAL_CURRENCY_SYMBOLS"].items()))
    L.append("")
    L.append("end KaVerif.Gen.CurrencyData\n")
    write_if_changed("CurrencyData", "\n".join(L))


MODULES = {"Caught": gen_caught, "ConfigProps": gen_configprops, "CurrencyData": gen_currencydata}
