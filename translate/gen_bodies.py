"""Translator plug-in: the BODIES of the callables registered in `ka.functions.FUNCTIONS` -> lean/KaVerif/Gen/Bodies.lean.

For every registered implementation the translator finds the Python function object (following closures), takes its
source (`inspect.getsource` + `ast.parse`) and translates a small Python subset into a Lean `def` over `Eval.Val` in the
error monad `Eval.R` (a SHALLOW embedding; runtime: lean/KaVerif/Model/PyRt.lean).  One `let t ← …` is emitted per Python
sub-expression that can raise, in CPython's evaluation order; `and` / conditional expressions short-circuit; an `if`
whose branches fall through gets the rest of the block duplicated into both branches; `for` loops become folds over the
loop-carried variables; generator expressions under `tuple` / `any` become `pyMapM` / `pyAnyM`.

Static sorts of Python expressions (see PyRt.lean): V `Val`, L `List Val`, B `Bool`, N `Int`, Q `List Int`, S `String`.

Anything outside the subset makes the translator REFUSE the function: it is listed in the generated file under
`untranslated` with the reason.  The translator never guesses.

The generated table `bodiesTable` is keyed by the implementation descriptors of Gen/Registry (`implNames`).
"""
import ast, inspect, textwrap, types, math, builtins, numbers


class Refuse(Exception):
    pass


class SortChange(Refuse):
    """a loop-carried variable that starts as a Python int literal and becomes a Ka value inside the loop"""
    def __init__(self, var, msg):
        Refuse.__init__(self, msg)
        self.var = var


SORT_LEAN = {"V": "Val", "L": "List Val", "B": "Bool", "N": "Int", "Q": "List Int", "S": "String"}
LEAN_KEYWORDS = set("""rec end at from fun let do if then else match with in have show by theorem def structure inductive where
 open namespace section variable universe instance class abbrev example axiom private protected mutual deriving macro syntax
 notation prefix infix infixl infixr postfix for unless return break continue try catch finally mut this Type Sort Prop
 import export using at local scoped attribute set_option true false bad none some""".split())
ERR_CLASSES = {"KaRuntimeError": ".runtime", "FunctionArgError": ".funArg", "IncompatibleQuantitiesError": ".incompatible"}
MAX_LINES = 160


def lean_int(k):
    return str(k) if k >= 0 else "(%d)" % k


def builtin_funs():
    """Python builtins that may be the value of a closure variable that is CALLED: object -> (Lean term, argument sorts, result sort)"""
    import operator
    t = {}
    for nm, f in [("<", operator.lt), ("<=", operator.le), ("==", operator.eq), ("!=", operator.ne), (">", operator.gt), (">=", operator.ge)]:
        t[f] = ("(pyOperatorCmp %s)" % lstr(nm), ("V", "V"), "B")
    for nm, f in [("abs", abs), ("round", round), ("toInt", int), ("toFloat", float), ("floor", math.floor), ("ceil", math.ceil),
                  ("sin", math.sin), ("cos", math.cos), ("tan", math.tan), ("pos", operator.pos), ("neg", operator.neg)]:
        t[f] = ("(pyBuiltin1 .%s)" % nm, ("V",), "V")
    return t


class Block:
    """lines of a `do` block and its final term.
    line kinds: ("bind", name, text) | ("let", name, text) | ("bindif", name, cond, Block, Block)
                | ("bindfun", name, head, lam, Block, tail)      let name ← head (lam do …) tail
    final: ("expr", text) | ("if", cond, Block, Block)"""

    def __init__(self, lines, final):
        self.lines, self.final = lines, final

    def size(self):
        n = 1
        for l in self.lines:
            n += 1
            if l[0] == "bindif":
                n += l[3].size() + l[4].size()
            if l[0] == "bindfun":
                n += l[4].size()
            if l[0] == "bindwhile":
                n += l[4].size() + l[6].size()
        if self.final[0] == "if":
            n += self.final[2].size() + self.final[3].size()
        if self.final[0] == "try":
            n += self.final[1].size() + self.final[3].size()
        return n

    def render(self, ind):
        out = []
        p = " " * ind
        for l in self.lines:
            if l[0] == "bind":
                out.append("%slet %s ← %s" % (p, l[1], l[2]))
            elif l[0] == "let":
                out.append("%slet %s := %s" % (p, l[1], l[2]))
            elif l[0] == "bindif":
                out.append("%slet %s ← (if %s then (do" % (p, l[1], l[2]))
                out += l[3].render(ind + 6)
                out[-1] += ")"
                out.append("%s    else (do" % p)
                out += l[4].render(ind + 6)
                out[-1] += "))"
            elif l[0] == "bindfun":
                out.append("%slet %s ← %s (%s do" % (p, l[1], l[2], l[3]))
                out += l[4].render(ind + 4)
                out[-1] += ")" + ((" " + l[5]) if l[5] else "")
            elif l[0] == "bindwhile":
                # let pat ← pyWhile fuel init (lamC do cond) (lamB do body)
                out.append("%slet %s ← pyWhile fuel %s (%s do" % (p, l[1], l[2], l[3]))
                out += l[4].render(ind + 4)
                out[-1] += ") (%s do" % l[5]
                out += l[6].render(ind + 4)
                out[-1] += ")"
            else:  # pragma: no cover
                raise AssertionError(l)
        f = self.final
        if f[0] == "expr":
            out.append(p + f[1])
        elif f[0] == "try":
            out.append("%spyTry (do" % p)
            out += f[1].render(ind + 4)
            out[-1] += ") %s (do" % f[2]
            out += f[3].render(ind + 4)
            out[-1] += ")"
        else:
            out.append("%sif %s then do" % (p, f[1]))
            out += f[2].render(ind + 2)
            out.append("%selse do" % p)
            out += f[3].render(ind + 2)
        return out


class FnInfo:
    def __init__(self):
        self.func = None
        self.lean = None        # Lean name of the generic definition
        self.cells = []         # [(pyname, leanname, kind, leantype, argsorts)]
        self.params = []        # [(pyname, leanname, sort)]
        self.vararg = None
        self.ret = None
        self.text = None
        self.where = None
        self.fuel = False       # the definition takes a loop bound `fuel : Nat` (it contains a `while`, or calls such a function)


class Translator:
    def __init__(self, F):
        import ka.types as T
        self.F, self.Ty = F, T
        self.memo = {}          # (code, param sorts, ret_force) -> FnInfo | Refuse
        self.order = []         # FnInfo in dependency order
        self.active = set()
        self.names = {}         # lean name -> key (clash detection)
        self.lambda_names = {}  # code -> name given by the registration that owns the lambda

    # ---- naming -----------------------------------------------------------------------------------------------
    def lean_fn_name(self, func):
        code = func.__code__
        if func.__name__ == "<lambda>":
            if code in self.lambda_names:
                return self.lambda_names[code]
            # a lambda that is not itself registered (a closure cell): named after its own text, not its line number
            node, _ = self.fn_node(func)
            words = {"*": "_times_", "/": "_div_", "+": "_plus_", "-": "_minus_", " ": "", ",": "_", "(": "_", ")": "_", ".": "_"}
            t = "".join(words.get(c, c) for c in ast.unparse(node.body))
            if not (t.replace("_", "a").isalnum() and t.isascii() and len(t) <= 40):
                import hashlib
                t = hashlib.sha1(ast.dump(node).encode()).hexdigest()[:8]
            return "lambda_" + t
        q = func.__qualname__.replace(".<locals>.", "__")
        if not q.replace("_", "a").isalnum():
            raise Refuse("function name %r" % func.__qualname__)
        return q

    # ---- source -----------------------------------------------------------------------------------------------
    def fn_node(self, func):
        try:
            src = inspect.getsource(func)
        except (OSError, TypeError) as e:
            raise Refuse("no Python source (%s)" % type(e).__name__)
        src = textwrap.dedent(src)
        if func.__name__ == "<lambda>":
            try:
                tree = ast.parse(src.strip())
            except SyntaxError:
                raise Refuse("lambda source cannot be isolated")
            want = list(func.__code__.co_varnames[:func.__code__.co_argcount])
            lams = [n for n in ast.walk(tree) if isinstance(n, ast.Lambda) and [a.arg for a in n.args.args] == want]
            if len(lams) != 1:
                raise Refuse("lambda source cannot be isolated (%d candidates)" % len(lams))
            return lams[0], src
        tree = ast.parse(src)
        if len(tree.body) != 1 or not isinstance(tree.body[0], ast.FunctionDef):
            raise Refuse("source is not a single function definition")
        return tree.body[0], src

    # ---- one function -----------------------------------------------------------------------------------------
    def function(self, func, param_sorts=None, ret_force=None):
        if not isinstance(func, types.FunctionType):
            raise Refuse("not a Python function (%s)" % type(func).__name__)
        mod = getattr(func, "__module__", "") or ""
        if not (mod == "ka" or mod.startswith("ka.")):
            raise Refuse("function of module %s" % mod)
        code = func.__code__
        nparams = code.co_argcount
        if code.co_kwonlyargcount or (code.co_flags & inspect.CO_VARKEYWORDS):
            raise Refuse("keyword parameters")
        if func.__defaults__:
            raise Refuse("default parameter values")
        has_var = bool(code.co_flags & inspect.CO_VARARGS)
        if param_sorts is None:
            param_sorts = tuple(["V"] * nparams)
        key = (code, tuple(param_sorts), ret_force)
        if key in self.memo:
            r = self.memo[key]
            if isinstance(r, Refuse):
                raise r
            return r
        if key in self.active:
            raise Refuse("recursive function")
        self.active.add(key)
        try:
            info = FnTr(self, func, param_sorts, has_var, ret_force).run()
            self.memo[key] = info
            if self.names.setdefault(info.lean, key) != key:
                raise Refuse("two translations would share the Lean name %s" % info.lean)
            self.order.append(info)
            return info
        except Refuse as e:
            self.memo[key] = e
            raise
        finally:
            self.active.discard(key)

    # ---- instantiation of a function object (closure cells supplied) -> Lean term ------------------------------
    def inst(self, func, param_sorts=None, ret_force=None, want_ret=None, fuel="fuel"):
        info = self.function(func, param_sorts, ret_force)
        if want_ret is not None and info.ret != want_ret:
            raise Refuse("%s returns sort %s where %s is needed" % (info.lean, info.ret, want_ret))
        args = []
        cellvals = dict(zip(func.__code__.co_freevars, [c.cell_contents for c in (func.__closure__ or ())]))
        for (py, ln, kind, typ, argsorts, rsort) in info.cells:
            v = cellvals[py]
            if kind == "S":
                if not isinstance(v, str):
                    raise Refuse("closure variable %s is not a string" % py)
                args.append(lstr(v))
            elif kind == "B":
                if not isinstance(v, bool):
                    raise Refuse("closure variable %s is not a bool" % py)
                args.append("true" if v else "false")
            elif kind == "F":
                B = builtin_funs()
                try:
                    is_b = v in B
                except TypeError:
                    is_b = False
                if is_b:
                    if tuple(B[v][1]) != tuple(argsorts) or B[v][2] != rsort:
                        raise Refuse("closure variable %s = builtin %s does not fit the sorts of the first instance" % (py, getattr(v, "__name__", "?")))
                    args.append(B[v][0])
                else:
                    args.append(self.inst(v, argsorts, None, rsort)[0])
            elif kind == "OF":
                if v is None:
                    args.append("Option.none")
                else:
                    args.append("(some %s)" % self.inst(v, argsorts, None, rsort)[0])
            else:  # pragma: no cover
                raise Refuse("closure variable kind " + kind)
        if info.fuel:
            args = [fuel] + args
        t = info.lean if not args else "(%s %s)" % (info.lean, " ".join(args))
        return t, info


class FnTr:
    """translation of one Python function"""

    def __init__(self, T, func, param_sorts, has_var, ret_force):
        self.T, self.func, self.param_sorts, self.has_var, self.ret_force = T, func, param_sorts, has_var, ret_force
        self.k = 0
        self.rets = []
        self.cells = {}      # pyname -> [leanname, kind, leantype, argsorts]
        self.loop_depth = 0
        self.uses_fuel = False
        self.escaped = set()
        self.freevals = dict(zip(func.__code__.co_freevars, [c.cell_contents for c in (func.__closure__ or ())]))
        self.pynames = set(func.__code__.co_varnames) | set(func.__code__.co_freevars) | set(func.__code__.co_names)

    def refuse(self, node, why):
        raise Refuse("%s (line %d)" % (why, getattr(node, "lineno", 0) + self.func.__code__.co_firstlineno - 1))

    def fresh(self):
        while True:
            self.k += 1
            n = "t%d" % self.k
            if n not in self.pynames:
                return n

    def lname(self, py):
        if not py.replace("_", "a").isalnum() or not py.isascii():
            raise Refuse("identifier %r" % py)
        if py in LEAN_KEYWORDS or py in ("pure", "bind", "Val", "R", "Disp"):
            return py + "'"
        return py

    # ---- static resolution of names ---------------------------------------------------------------------------
    def static(self, n, env):
        """('obj', python object) for a name / attribute chain that is not a local; None otherwise"""
        if isinstance(n, ast.Name):
            if n.id in env:
                return None
            if n.id in self.freevals:
                return ("cell", n.id)
            g = self.func.__globals__
            if n.id in g:
                return ("obj", g[n.id])
            if hasattr(builtins, n.id):
                return ("obj", getattr(builtins, n.id))
            return None
        if isinstance(n, ast.Attribute):
            b = self.static(n.value, env)
            if b and b[0] == "obj" and isinstance(b[1], types.ModuleType) and hasattr(b[1], n.attr):
                return ("obj", getattr(b[1], n.attr))
            if b and b[0] == "obj" and not isinstance(b[1], types.ModuleType):
                return ("method", b[1], n.attr)
        return None

    def cell(self, py, kind, typ=None, argsorts=None, node=None):
        v = self.freevals[py]
        if py in self.cells:
            c = self.cells[py]
            if c[1] != kind or (argsorts is not None and c[3] is not None and tuple(c[3]) != tuple(argsorts)):
                if {c[1], kind} == {"F", "OF"}:
                    c[1] = "OF"
                else:
                    self.refuse(node, "closure variable %s used in two ways" % py)
            if argsorts is not None:
                c[3] = tuple(argsorts)
            return c[0]
        self.cells[py] = [self.lname(py), kind, typ, tuple(argsorts) if argsorts is not None else None, "V"]
        return self.cells[py][0]

    # ---- expressions ------------------------------------------------------------------------------------------
    def toV(self, st, node=None):
        s, t = st
        if s == "V":
            return t
        if s == "N":
            return "(pyInt %s)" % t
        self.refuse(node, "a value of sort %s where a Ka value is needed" % s)

    def expr(self, n, env, out):
        if isinstance(n, ast.Constant):
            v = n.value
            if type(v) is bool:
                return ("B", "true" if v else "false")
            if type(v) is int:
                return ("N", lean_int(v))
            if type(v) is str:
                return ("S", lstr(v))
            self.refuse(n, "constant %r" % (v,))
        if isinstance(n, ast.Name):
            if n.id in env:
                return env[n.id]
            st = self.static(n, env)
            if st and st[0] == "cell":
                v = self.freevals[n.id]
                if isinstance(v, bool):
                    return ("B", self.cell(n.id, "B", node=n))
                if isinstance(v, str):
                    return ("S", self.cell(n.id, "S", node=n))
                self.refuse(n, "closure variable %s used as a value" % n.id)
            self.refuse(n, "name %s used as a value" % n.id)
        if isinstance(n, ast.Attribute):
            st = self.static(n, env)
            if st and st[0] == "obj":
                if isinstance(st[1], float) and st[1] == math.e and n.attr == "e":
                    return ("V", "mathE")
                self.refuse(n, "module attribute %s" % n.attr)
            s, t = self.expr(n.value, env, out)
            if s == "V" and n.attr in ("a", "b", "mag"):
                x = self.fresh()
                out.append(("bind", x, "pyAttr %s %s" % (t, lstr(n.attr))))
                return ("V", x)
            if s == "V" and n.attr == "contents":
                x = self.fresh()
                out.append(("bind", x, "pyContents %s" % t))
                return ("L", x)
            if s == "V" and n.attr == "qv":
                x = self.fresh()
                out.append(("bind", x, "pyQv %s" % t))
                return ("Q", x)
            self.refuse(n, "attribute .%s of a value of sort %s" % (n.attr, s))
        if isinstance(n, (ast.Tuple, ast.List)):
            xs = [self.toV(self.expr(e, env, out), e) for e in n.elts]
            return ("L", "[" + ", ".join(xs) + "]")
        if isinstance(n, ast.Call):
            return self.call(n, env, out)
        if isinstance(n, ast.BinOp):
            l = self.expr(n.left, env, out)
            r = self.expr(n.right, env, out)
            op = type(n.op).__name__
            if l[0] == "N" and r[0] == "N":
                f = {"Add": "(%s + %s)", "Sub": "(%s - %s)", "Mult": "(%s * %s)", "FloorDiv": "(Int.fdiv %s %s)", "Mod": "(Int.fmod %s %s)"}.get(op)
                if f is None or (op in ("FloorDiv", "Mod") and not (isinstance(n.right, ast.Constant) and n.right.value != 0)):
                    self.refuse(n, "operator %s on Python ints" % op)
                return ("N", f % (l[1], r[1]))
            if l[0] == "Q" and r[0] == "Q":
                f = {"Mult": "(qvMul %s %s)", "Div": "(qvDiv %s %s)"}.get(op)
                if f is None:
                    self.refuse(n, "operator %s on quantity vectors" % op)
                return ("Q", f % (l[1], r[1]))
            f = {"Add": "pyAdd", "Sub": "pySub", "Mult": "pyMul", "Pow": "pyPowOp"}.get(op)
            if f is None:
                self.refuse(n, "operator %s" % op)
            x = self.fresh()
            out.append(("bind", x, "%s %s %s" % (f, self.toV(l, n.left), self.toV(r, n.right))))
            return ("V", x)
        if isinstance(n, (ast.BoolOp, ast.UnaryOp)):
            if isinstance(n, ast.UnaryOp) and not isinstance(n.op, ast.Not):
                self.refuse(n, "unary operator %s" % type(n.op).__name__)
            return ("B", self.bool(n, env, out))
        if isinstance(n, ast.Compare):
            if len(n.ops) != 1:
                self.refuse(n, "chained comparison")
            op = type(n.ops[0]).__name__
            if op in ("Is", "IsNot") and isinstance(n.comparators[0], ast.Constant) and n.comparators[0].value is None \
                    and isinstance(n.left, ast.Name) and n.left.id in self.freevals and n.left.id not in env:
                c = self.cell(n.left.id, "OF", node=n)
                return ("B", "%s.isNone" % c if op == "Is" else "%s.isSome" % c)
            l = self.expr(n.left, env, out)
            r = self.expr(n.comparators[0], env, out)
            if l[0] == "N" and r[0] == "N":
                f = {"Eq": "(%s == %s)", "NotEq": "(%s != %s)", "Lt": "(decide (%s < %s))", "LtE": "(decide (%s ≤ %s))",
                     "Gt": "(decide (%s > %s))", "GtE": "(decide (%s ≥ %s))"}.get(op)
                if f is None:
                    self.refuse(n, "comparison %s" % op)
                return ("B", f % (l[1], r[1]))
            if l[0] == "Q" and r[0] == "Q" and op in ("Eq", "NotEq"):
                return ("B", ("(%s == %s)" if op == "Eq" else "(%s != %s)") % (l[1], r[1]))
            if op in ("Eq", "NotEq") and l[0] in "VN" and r[0] in "VN":
                x = self.fresh()
                out.append(("bind", x, "%s %s %s" % ("pyEq" if op == "Eq" else "pyNe", self.toV(l), self.toV(r))))
                return ("B", x)
            self.refuse(n, "comparison %s on sorts %s, %s" % (op, l[0], r[0]))
        if isinstance(n, ast.IfExp):
            c = self.bool(n.test, env, out)
            la, lb = [], []
            a = self.expr(n.body, env, la)
            b = self.expr(n.orelse, env, lb)
            if a[0] != b[0]:
                if {a[0], b[0]} == {"N", "V"}:
                    a, b = ("V", self.toV(a)), ("V", self.toV(b))
                else:
                    self.refuse(n, "conditional expression of sorts %s / %s" % (a[0], b[0]))
            x = self.fresh()
            out.append(("bindif", x, c, Block(la, ("expr", "pure " + a[1])), Block(lb, ("expr", "pure " + b[1]))))
            return (a[0], x)
        if isinstance(n, ast.Subscript):
            s, t = self.expr(n.value, env, out)
            i = self.expr(n.slice, env, out)
            if s == "L" and i[0] == "N":
                x = self.fresh()
                out.append(("bind", x, "pyIndex %s %s" % (t, i[1])))
                return ("V", x)
            self.refuse(n, "subscript of sort %s by sort %s" % (s, i[0]))
        self.refuse(n, "expression %s" % type(n).__name__)

    def bool(self, n, env, out):
        """the truth value of a Python expression in a boolean context"""
        if isinstance(n, ast.UnaryOp) and isinstance(n.op, ast.Not):
            return "(!%s)" % self.bool(n.operand, env, out)
        if isinstance(n, ast.BoolOp):
            is_and = isinstance(n.op, ast.And)
            first = self.bool(n.values[0], env, out)
            cur = first
            for v in n.values[1:]:
                sub = []
                b = self.bool(v, env, sub)
                x = self.fresh()
                if is_and:
                    out.append(("bindif", x, cur, Block(sub, ("expr", "pure " + b)), Block([], ("expr", "pure false"))))
                else:
                    out.append(("bindif", x, cur, Block([], ("expr", "pure true")), Block(sub, ("expr", "pure " + b))))
                cur = x
            return cur
        s, t = self.expr(n, env, out)
        if s == "B":
            return t
        if s == "V":
            x = self.fresh()
            out.append(("bind", x, "pyTruthy " + t))
            return x
        if s == "N":
            return "(%s != 0)" % t
        if s == "L":
            return "(!(%s).isEmpty)" % t
        self.refuse(n, "truth value of sort %s" % s)

    # ---- iteration sources ------------------------------------------------------------------------------------
    def iter_source(self, it, env, out):
        """(element sort, Lean list term)"""
        if isinstance(it, ast.Call):
            st = self.static(it.func, env)
            if st and st[0] == "obj" and st[1] is builtins.range and not it.keywords and len(it.args) in (1, 2):
                a = [self.expr(x, env, out) for x in it.args]
                if all(x[0] == "N" for x in a):
                    lo, hi = ("0", a[0][1]) if len(a) == 1 else (a[0][1], a[1][1])
                    return ("N", "(pyRange %s %s)" % (lo, hi))
                self.refuse(it, "range() over Ka values in a loop")
        s, t = self.expr(it, env, out)
        if s == "L":
            return ("V", t)
        if s == "V":
            x = self.fresh()
            out.append(("bind", x, "pyIter " + t))
            return ("V", x)
        self.refuse(it, "iteration over sort %s" % s)

    def genexp(self, g, env, out, mode):
        if len(g.generators) != 1 or g.generators[0].ifs or g.generators[0].is_async or not isinstance(g.generators[0].target, ast.Name):
            self.refuse(g, "generator expression shape")
        es, xs = self.iter_source(g.generators[0].iter, env, out)
        var = g.generators[0].target.id
        v = self.lname(var)
        env2 = dict(env)
        env2[var] = (es, v)
        sub = []
        if mode == "map":
            r = self.toV(self.expr(g.elt, env2, sub), g.elt)
            head = "pyMapM"
        else:
            r = self.bool(g.elt, env2, sub)
            head = "pyAnyM"
        x = self.fresh()
        out.append(("bindfun", x, head, "fun (%s : %s) =>" % (v, SORT_LEAN[es]), Block(sub, ("expr", "pure " + r)), xs))
        return x

    # ---- calls ------------------------------------------------------------------------------------------------
    def call(self, n, env, out):
        if n.keywords:
            self.refuse(n, "keyword arguments in a call")
        if any(isinstance(a, ast.Starred) for a in n.args):
            self.refuse(n, "starred argument")
        st = self.static(n.func, env)
        F, Ty = self.T.F, self.T.Ty
        if st is None:
            if isinstance(n.func, ast.Attribute):
                self.refuse(n, "method call .%s()" % n.func.attr)
            self.refuse(n, "call of a computed function")
        if st[0] == "method":
            import ka.units as U
            if st[1] is U.QSPACE and st[2] == "get_zero" and not n.args:
                return ("Q", "zeroDim")
            self.refuse(n, "method call .%s()" % st[2])
        if st[0] == "cell":
            py = st[1]
            args = [self.expr(a, env, out) for a in n.args]
            sorts = tuple(a[0] for a in args)
            if any(s not in "VQ" for s in sorts):
                args = [("V", self.toV(a)) if a[0] == "N" else a for a in args]
                sorts = tuple(a[0] for a in args)
            v = self.freevals[py]
            B = builtin_funs()
            try:
                is_b = v in B
            except TypeError:
                is_b = False
            if is_b:
                if tuple(B[v][1]) != tuple(sorts):
                    self.refuse(n, "builtin %s called on sorts %s" % (getattr(v, "__name__", "?"), ",".join(sorts)))
                rs = B[v][2]
            elif isinstance(v, types.FunctionType):
                try:
                    rs = self.T.function(v, sorts).ret
                except Refuse as e:
                    raise Refuse("calls the closure variable %s = %s, which is not translated: %s" % (py, getattr(v, "__name__", "?"), e))
            elif v is None:
                rs = "Q" if sorts and all(s == "Q" for s in sorts) else "V"
            else:
                self.refuse(n, "call of closure variable %s (%s %s)" % (py, type(v).__name__, getattr(v, "__name__", "")))
            typ = "Disp → " + " → ".join(SORT_LEAN[s] for s in sorts) + " → R (%s)" % SORT_LEAN[rs]
            c = self.cell(py, "F", typ, sorts, n)
            self.cells[py][2] = typ
            self.cells[py][4] = rs
            x = self.fresh()
            if self.cells[py][1] == "OF":
                out.append(("bind", x, "(match %s with | some f => f rec %s | Option.none => pyExn \"TypeError\")" % (c, " ".join(a[1] for a in args))))
            else:
                out.append(("bind", x, "%s rec %s" % (c, " ".join(a[1] for a in args))))
            return (rs, x)
        obj = st[1]
        if obj is F.dispatch:
            if len(n.args) != 2:
                self.refuse(n, "dispatch() with keyword-argument dictionary")
            nm = self.expr(n.args[0], env, out)
            if nm[0] != "S":
                self.refuse(n, "dispatch() name is not a string")
            a = self.expr(n.args[1], env, out)
            if a[0] != "L":
                self.refuse(n, "dispatch() arguments are not a tuple")
            x = self.fresh()
            out.append(("bind", x, "rec %s %s" % (nm[1], a[1])))
            return ("V", x)
        if obj is builtins.len and len(n.args) == 1:
            a = self.expr(n.args[0], env, out)
            if a[0] == "L":
                return ("N", "(pyLen %s)" % a[1])
            self.refuse(n, "len() of sort %s" % a[0])
        if obj in (builtins.tuple, builtins.list) and len(n.args) == 1:
            a0 = n.args[0]
            if isinstance(a0, ast.GeneratorExp):
                return ("L", self.genexp(a0, env, out, "map"))
            if isinstance(a0, ast.Call):
                st2 = self.static(a0.func, env)
                if st2 and st2[0] == "obj" and st2[1] is builtins.range and len(a0.args) == 2 and not a0.keywords:
                    lo = self.toV(self.expr(a0.args[0], env, out), a0)
                    hi = self.toV(self.expr(a0.args[1], env, out), a0)
                    x = self.fresh()
                    out.append(("bind", x, "pyRangeVals %s %s" % (lo, hi)))
                    return ("L", x)
            a = self.expr(a0, env, out)
            if a[0] == "L":
                return a
            self.refuse(n, "tuple()/list() of sort %s" % a[0])
        if obj is builtins.any and len(n.args) == 1 and isinstance(n.args[0], ast.GeneratorExp):
            return ("B", self.genexp(n.args[0], env, out, "any"))
        if obj in (builtins.max, builtins.min) and len(n.args) == 1:
            a = self.expr(n.args[0], env, out)
            if a[0] != "L":
                self.refuse(n, "max()/min() of sort %s" % a[0])
            x = self.fresh()
            out.append(("bind", x, "%s %s" % ("pyMaxOf" if obj is builtins.max else "pyMinOf", a[1])))
            return ("V", x)
        if obj is math.log and len(n.args) == 2:
            a = [self.toV(self.expr(x, env, out), x) for x in n.args]
            x = self.fresh()
            out.append(("bind", x, "mathLog2 %s %s" % (a[0], a[1])))
            return ("V", x)
        if obj is math.sqrt and len(n.args) == 1:
            a = self.toV(self.expr(n.args[0], env, out), n)
            x = self.fresh()
            out.append(("bind", x, "mathSqrt %s" % a))
            return ("V", x)
        if obj is Ty.Interval and len(n.args) == 2:
            a = [self.toV(self.expr(x, env, out), x) for x in n.args]
            x = self.fresh()
            out.append(("bind", x, "mkInterval %s %s" % (a[0], a[1])))
            return ("V", x)
        if obj is Ty.Array and len(n.args) == 1:
            a = self.expr(n.args[0], env, out)
            if a[0] != "L":
                self.refuse(n, "Array() of sort %s" % a[0])
            if isinstance(n.args[0], ast.Name):
                self.escaped.add(n.args[0].id)
            return ("V", "(Val.arr %s)" % a[1])
        if obj is Ty.Quantity and len(n.args) == 2:
            m = self.expr(n.args[0], env, out)
            q = self.expr(n.args[1], env, out)
            if q[0] != "Q":
                self.refuse(n, "Quantity() with a vector of sort %s" % q[0])
            x = self.fresh()
            out.append(("bind", x, "mkQuantity %s %s" % (self.toV(m, n), q[1])))
            return ("V", x)
        if isinstance(obj, types.FunctionType):
            args = [self.expr(a, env, out) for a in n.args]
            for a, an in zip(args, n.args):
                if isinstance(an, ast.Name) and a[0] == "L":
                    self.escaped.add(an.id)
            code = obj.__code__
            if code.co_flags & inspect.CO_VARARGS:
                self.refuse(n, "call of a variadic helper")
            if code.co_argcount != len(args):
                self.refuse(n, "helper called with %d arguments, takes %d" % (len(args), code.co_argcount))
            sorts = tuple("V" if a[0] == "N" else a[0] for a in args)
            try:
                term, info = self.T.inst(obj, sorts)
            except Refuse as e:
                raise Refuse("calls %s, which is not translated: %s" % (obj.__name__, e))
            if info.fuel:
                self.uses_fuel = True
            x = self.fresh()
            out.append(("bind", x, "%s rec %s" % (term, " ".join(self.toV(a) if a[0] == "N" else a[1] for a in args))))
            return (info.ret, x)
        name = getattr(obj, "__name__", type(obj).__name__)
        self.refuse(n, "call of %s.%s" % (getattr(obj, "__module__", "?"), name))

    # ---- statements -------------------------------------------------------------------------------------------
    def ret_final(self, st, lines, node):
        s, t = st
        want = self.ret_force
        if want is not None and s != want:
            if want == "V" and s == "N":
                s, t = "V", self.toV(st)
            else:
                self.refuse(node, "returns sort %s where %s is required" % (s, want))
        self.rets.append(s)
        # `let t ← E; pure t`  ==>  `E`
        if lines and lines[-1][0] == "bind" and lines[-1][1] == t:
            e = lines.pop()[2]
            return ("expr", e)
        return ("expr", "pure " + t)

    def assigned(self, ss):
        out = []
        for s in ss:
            for x in ast.walk(s):
                if isinstance(x, ast.Assign):
                    for t in x.targets:
                        if isinstance(t, ast.Name) and t.id not in out:
                            out.append(t.id)
                if isinstance(x, ast.Expr) and isinstance(x.value, ast.Call) and isinstance(x.value.func, ast.Attribute) \
                        and x.value.func.attr == "append" and isinstance(x.value.func.value, ast.Name):
                    if x.value.func.value.id not in out:
                        out.append(x.value.func.value.id)
        return out

    def stmts(self, ss, env, k):
        lines = []
        env = dict(env)
        for i, s in enumerate(ss):
            rest = ss[i + 1:]
            if isinstance(s, ast.Expr) and isinstance(s.value, ast.Constant) and isinstance(s.value.value, str):
                continue
            if isinstance(s, ast.Pass):
                continue
            if isinstance(s, ast.Assign):
                if len(s.targets) != 1 or not isinstance(s.targets[0], ast.Name):
                    self.refuse(s, "assignment target")
                tgt = s.targets[0].id
                if isinstance(s.value, ast.Name) and s.value.id in env and env[s.value.id][0] == "L":
                    self.escaped.add(s.value.id)
                    self.escaped.add(tgt)
                st = self.expr(s.value, env, lines)
                if tgt in env and env[tgt][0] != st[0]:
                    if env[tgt][0] == "V" and st[0] == "N":
                        st = ("V", self.toV(st))
                    elif env[tgt][0] == "N" and st[0] == "V" and self.loop_depth > 0:
                        raise SortChange(tgt, "variable %s changes sort (N to V) inside a loop" % tgt)
                    elif not (env[tgt][0] == "N" and st[0] == "V"):
                        self.refuse(s, "variable %s changes sort (%s to %s)" % (tgt, env[tgt][0], st[0]))
                nm = self.lname(tgt)
                if lines and lines[-1][0] in ("bind", "bindif", "bindfun") and lines[-1][1] == st[1] and st[1].startswith("t") and st[1][1:].isdigit():
                    l = list(lines[-1]); l[1] = nm; lines[-1] = tuple(l)
                else:
                    lines.append(("let", "%s : %s" % (nm, SORT_LEAN[st[0]]), st[1]))
                env[tgt] = (st[0], nm)
                continue
            if isinstance(s, ast.Return):
                if self.loop_depth:
                    self.refuse(s, "return inside a loop")
                if s.value is None:
                    self.refuse(s, "returns None")
                st = self.expr(s.value, env, lines)
                return Block(lines, self.ret_final(st, lines, s))
            if isinstance(s, ast.Raise):
                return Block(lines, ("expr", "pyRaise " + self.exc_class(s, env)))
            if isinstance(s, ast.If):
                c = self.bool(s.test, env, lines)
                kk = (lambda e2, rest=rest: self.stmts(rest, e2, k))
                A = self.stmts(s.body, env, kk)
                B = self.stmts(s.orelse, env, kk)
                return Block(lines, ("if", c, A, B))
            if isinstance(s, ast.For):
                if s.orelse or not isinstance(s.target, ast.Name):
                    self.refuse(s, "for loop shape")
                for x in ast.walk(s):
                    if isinstance(x, (ast.Break, ast.Continue, ast.Return)):
                        self.refuse(x, "%s inside a loop" % type(x).__name__.lower())
                es, xs = self.iter_source(s.iter, env, lines)
                var = s.target.id
                asg = [a for a in self.assigned(s.body) if a != var]
                carried = [a for a in asg if a in env]
                later = {x.id for r in rest for x in ast.walk(r) if isinstance(x, ast.Name)}
                for a in asg + [var]:
                    if a not in env and a in later:
                        self.refuse(s, "variable %s of a loop body is used after the loop" % a)
                if not carried or len(carried) > 2:
                    self.refuse(s, "loop with %d loop-carried variables" % len(carried))
                env2 = dict(env)
                env2[var] = (es, self.lname(var))
                for a in carried:
                    env2[a] = (env[a][0], self.lname(a))

                def kend(e2, carried=carried, env=env, s=s):
                    for a in carried:
                        if e2[a][0] != env[a][0]:
                            self.refuse(s, "loop-carried variable %s changes sort" % a)
                    ts = [e2[a][1] for a in carried]
                    return Block([], ("expr", "pure " + (ts[0] if len(ts) == 1 else "(" + ", ".join(ts) + ")")))
                self.loop_depth += 1
                try:
                    try:
                        body = self.stmts(s.body, env2, kend)
                    except SortChange as e:
                        # `result = 1` before the loop, `result = dispatch(…)` inside: the int is a Ka value from the start
                        if e.var not in carried or env[e.var][0] != "N":
                            raise
                        lines.append(("let", self.lname(e.var), "(pyInt %s)" % env[e.var][1]))
                        env[e.var] = ("V", self.lname(e.var))
                        env2[e.var] = env[e.var]
                        body = self.stmts(s.body, env2, kend)
                finally:
                    self.loop_depth -= 1
                names = [self.lname(a) for a in carried]
                inits = [env[a][1] for a in carried]
                v = self.lname(var)
                if len(carried) == 1:
                    lam = "fun (%s : %s) (%s : %s) =>" % (names[0], SORT_LEAN[env[carried[0]][0]], v, SORT_LEAN[es])
                    lines.append(("bindfun", names[0], "pyForM %s %s" % (xs, inits[0]), lam, body, ""))
                else:
                    ty = " × ".join(SORT_LEAN[env[a][0]] for a in carried)
                    lam = "fun (st : %s) (%s : %s) =>" % (ty, v, SORT_LEAN[es])
                    body.lines.insert(0, ("let", "(%s)" % ", ".join(names), "st"))
                    lines.append(("bindfun", "(%s)" % ", ".join(names), "pyForM %s (%s)" % (xs, ", ".join(inits)), lam, body, ""))
                for a, nm in zip(carried, names):
                    env[a] = (env[a][0], nm)
                continue
            if isinstance(s, ast.Try):
                # try: <block that returns or raises>  except <builtin exception class>: <block that returns or raises>
                if s.orelse or s.finalbody or len(s.handlers) != 1 or s.handlers[0].name is not None or s.handlers[0].type is None:
                    self.refuse(s, "try statement shape")
                if self.loop_depth:
                    self.refuse(s, "try inside a loop")
                st = self.static(s.handlers[0].type, env)
                if not st or st[0] != "obj" or st[1] is not ValueError:
                    self.refuse(s, "except clause for something other than ValueError")

                def kfall(e2, s=s):
                    self.refuse(s, "a path through the try statement falls through")
                A = self.stmts(s.body, env, kfall)
                Hd = self.stmts(s.handlers[0].body, env, kfall)
                return Block(lines, ("try", A, lstr("ValueError"), Hd))
            if isinstance(s, ast.While):
                # `while c: body` — a loop over the loop-carried variables, bounded by the definition's `fuel` parameter
                # (Python's loop may not terminate; running out of fuel is the model-bound error `.fuel`)
                if s.orelse:
                    self.refuse(s, "while … else")
                for x in ast.walk(s):
                    if isinstance(x, (ast.Break, ast.Continue, ast.Return)):
                        self.refuse(x, "%s inside a loop" % type(x).__name__.lower())
                asg = self.assigned(s.body)
                carried = [a for a in asg if a in env]
                later = {x.id for r in rest for x in ast.walk(r) if isinstance(x, ast.Name)}
                for a in asg:
                    if a not in env and a in later:
                        self.refuse(s, "variable %s of a loop body is used after the loop" % a)
                if not carried or len(carried) > 2:
                    self.refuse(s, "loop with %d loop-carried variables" % len(carried))
                for a in carried:
                    if env[a][0] == "L" and a in self.escaped:
                        self.refuse(s, "a list that may be shared is changed in a loop")
                env2 = dict(env)
                for a in carried:
                    env2[a] = (env[a][0], self.lname(a))

                def kend(e2, carried=carried, env=env, s=s):
                    for a in carried:
                        if e2[a][0] != env[a][0]:
                            self.refuse(s, "loop-carried variable %s changes sort" % a)
                    ts = [e2[a][1] for a in carried]
                    return Block([], ("expr", "pure " + (ts[0] if len(ts) == 1 else "(" + ", ".join(ts) + ")")))
                self.loop_depth += 1
                try:
                    cl = []
                    c = self.bool(s.test, env2, cl)
                    cond = Block(cl, ("expr", "pure " + c))
                    body = self.stmts(s.body, env2, kend)
                finally:
                    self.loop_depth -= 1
                names = [self.lname(a) for a in carried]
                inits = [env[a][1] for a in carried]
                ty = " × ".join(SORT_LEAN[env[a][0]] for a in carried)
                if len(carried) == 1:
                    lam = "fun (%s : %s) =>" % (names[0], ty)
                    pat, init = names[0], inits[0]
                else:
                    lam = "fun (st : %s) =>" % ty
                    pat, init = "(%s)" % ", ".join(names), "(%s)" % ", ".join(inits)
                    cond.lines.insert(0, ("let", pat, "st"))
                    body.lines.insert(0, ("let", pat, "st"))
                lines.append(("bindwhile", pat, init, lam, cond, lam, body))
                self.uses_fuel = True
                for a, nm in zip(carried, names):
                    env[a] = (env[a][0], nm)
                continue
            if isinstance(s, ast.Expr) and isinstance(s.value, ast.Call) and isinstance(s.value.func, ast.Attribute) \
                    and s.value.func.attr == "append" and isinstance(s.value.func.value, ast.Name) and len(s.value.args) == 1 \
                    and not s.value.keywords:
                tgt = s.value.func.value.id
                if tgt not in env or env[tgt][0] != "L":
                    self.refuse(s, ".append() on something that is not a local list")
                if tgt in self.escaped or tgt in [p[0] for p in self.params_py]:
                    self.refuse(s, ".append() on a list that may be shared")
                v = self.toV(self.expr(s.value.args[0], env, lines), s)
                nm = self.lname(tgt)
                lines.append(("let", nm, "(%s ++ [%s])" % (env[tgt][1], v)))
                env[tgt] = ("L", nm)
                continue
            self.refuse(s, "statement %s" % type(s).__name__)
        tail = k(env)
        return Block(lines + tail.lines, tail.final)

    def exc_class(self, s, env):
        e = s.exc
        if e is None or s.cause is not None:
            self.refuse(s, "re-raise / raise from")
        f = e.func if isinstance(e, ast.Call) else e
        st = self.static(f, env)
        if not st or st[0] != "obj" or not isinstance(st[1], type) or not issubclass(st[1], BaseException):
            self.refuse(s, "raise of something that is not an exception class")
        c = ERR_CLASSES.get(st[1].__name__)
        if c is None:
            self.refuse(s, "raise %s" % st[1].__name__)
        return c

    # ---- the function -----------------------------------------------------------------------------------------
    def run(self):
        func = self.func
        node, src = self.T.fn_node(func)
        info = FnInfo()
        info.func = func
        info.lean = self.T.lean_fn_name(func)
        code = func.__code__
        a = node.args
        if a.kwonlyargs or a.kwarg or a.defaults or a.posonlyargs:
            raise Refuse("parameter list shape")
        env = {}
        self.params_py = []
        for p, s in zip([x.arg for x in a.args], self.param_sorts):
            ln = self.lname(p)
            env[p] = (s, ln)
            info.params.append((p, ln, s))
            self.params_py.append((p, s))
        if a.vararg is not None:
            ln = self.lname(a.vararg.arg)
            env[a.vararg.arg] = ("L", ln)
            info.vararg = (a.vararg.arg, ln)
            self.params_py.append((a.vararg.arg, "L"))
        if isinstance(node, ast.Lambda):
            lines = []
            st = self.expr(node.body, env, lines)
            block = Block(lines, self.ret_final(st, lines, node))
        else:
            def kfall(e2):
                raise Refuse("a path through the function returns None")
            block = self.stmts(node.body, env, kfall)
        kinds = set(self.rets)
        if len(kinds) > 1:
            if kinds == {"N", "V"} and self.ret_force is None:
                return FnTr(self.T, func, self.param_sorts, self.has_var, "V").run()
            raise Refuse("returns values of different sorts (%s)" % ", ".join(sorted(kinds)))
        if not kinds:
            raise Refuse("never returns a value")
        info.ret = kinds.pop()
        if block.size() > MAX_LINES:
            raise Refuse("translation too large (%d lines)" % block.size())
        for py, c in self.cells.items():
            if c[1] in ("F", "OF") and c[2] is None:
                raise Refuse("closure variable %s is tested but never called" % py)
            info.cells.append((py, c[0], c[1], c[2] if c[1] in ("F", "OF") else {"S": "String", "B": "Bool"}[c[1]], c[3], c[4]))
        info.cells.sort(key=lambda c: list(code.co_freevars).index(c[0]))
        sig = "".join(" (%s : %s)" % (c[1], c[3] if c[2] == "F" else ("Option (%s)" % c[3] if c[2] == "OF" else c[3])) for c in info.cells)
        info.fuel = self.uses_fuel
        if info.fuel:
            sig = " (fuel : Nat)" + sig
        sig += " (rec : Disp)"
        sig += "".join(" (%s : %s)" % (ln, SORT_LEAN[s]) for _, ln, s in info.params)
        if info.vararg:
            sig += " (%s : List Val)" % info.vararg[1]
        where = "%s:%d" % (func.__module__.replace(".", "/") + ".py", code.co_firstlineno)
        info.where = where
        doc = "/-- `%s` (%s)\n```\n%s\n``` -/" % (func.__qualname__, where, src.rstrip().replace("-/", "- /").replace("/-", "/ -"))
        info.text = "%s\ndef %s%s : R (%s) := do\n%s" % (doc, info.lean, sig, SORT_LEAN[info.ret], "\n".join(block.render(2)))
        return info


# ---------------------------------------------------------------------------------------------------------------
OPNAMES = {"+": "plus", "-": "minus", "*": "times", "/": "div", "%": "mod", "^": "pow", "<": "lt", "<=": "le", "==": "eq", "!=": "ne",
           ">": "gt", ">=": "ge", "!": "fact", "±": "plusminus"}


def _shape(t, Ty):
    u = t.actual_type if isinstance(t, Ty.TypeAlias) else t
    if u is numbers.Number:
        return ".num"
    if u is numbers.Integral:
        return ".int"
    if u is Ty.Interval:
        return ".intv"
    if u is Ty.Array:
        return ".arr"
    if u is Ty.Quantity:
        return ".qty"
    if u is object:
        return ".any"
    return None


def gen_bodies():
    import ka.functions as F
    import ka.types as Ty
    T = Translator(F)
    entries = []
    for name in F.FUNCTIONS:
        for h in F.FUNCTIONS[name]:
            sigtext = str(h.sig)
            desc = "%s|%s|%s" % (name, sigtext, canonical_desc(name, sigtext, h.f))
            entries.append((desc, name, h))
    entries.sort(key=lambda e: e[0])
    table, refused, seen = [], [], set()
    for desc, name, h in entries:
        if desc in seen:
            continue
        seen.add(desc)
        f = h.f
        sigtext = str(h.sig)
        try:
            if not isinstance(f, types.FunctionType):
                raise Refuse("not a Python function (%s %s)" % (type(f).__name__, getattr(f, "__name__", "?")))
            if h.sig.kw_args:
                raise Refuse("keyword parameters")
            shapes = [_shape(t, Ty) for t in h.sig.args]
            vshape = None if h.sig.vararg is None else _shape(h.sig.vararg, Ty)
            if any(s is None for s in shapes) or (h.sig.vararg is not None and vshape is None):
                raise Refuse("a parameter type of the signature %s is outside the model's shapes" % sigtext)
            if f.__name__ == "<lambda>":
                tn = "_".join(Ty.get_type_as_string(t) for t in h.sig.args)
                T.lambda_names.setdefault(f.__code__, "lambda_%s_%s" % (OPNAMES.get(name, name if name.isalnum() else "op"), tn))
            term, info = T.inst(f, None, None, fuel="pyLoopFuel")
            if info.ret not in ("V", "N"):
                raise Refuse("returns a Python value of sort %s" % info.ret)
            if info.vararg is not None:
                if info.params or h.sig.args:
                    raise Refuse("positional and variadic parameters together")
                wrapped = term if info.ret == "V" else "(fun rec args => do let n ← %s rec args; pure (pyInt n))" % term
            else:
                n = len(info.params)
                if n != len(h.sig.args) or h.sig.vararg is not None:
                    raise Refuse("the function takes %d parameters, the signature declares %s" % (n, sigtext))
                if n not in (1, 2, 3):
                    raise Refuse("%d parameters" % n)
                if info.ret == "N":
                    xs = " ".join("x%d" % i for i in range(n))
                    term = "(fun rec %s => do let n ← %s rec %s; pure (pyInt n))" % (xs, term, xs)
                wrapped = "arity%d %s" % (n, term)
            table.append((desc, wrapped, shapes, vshape, info.lean))
        except Refuse as e:
            refused.append((desc, str(e)))
        except RecursionError:
            refused.append((desc, "translator gave up (recursion depth)"))
    L = [HEADER, "import KaVerif.Model.PyRt",
         "/-\n  The registered function bodies of src/ka/functions.py, TRANSLATED from their Python source by translate/gen_bodies.py\n"
         "  (shallow embedding over `Eval.Val`; Python runtime: Model/PyRt.lean).  `bodiesTable` is keyed by the implementation\n"
         "  descriptors of Gen/Registry (`implNames`); `untranslated` lists what the translator refused, and why.\n-/",
         "set_option linter.unusedVariables false",
         "namespace KaVerif.Gen.Bodies\nopen KaVerif KaVerif.Eval KaVerif.PyRt\n"]
    for info in T.order:
        L.append(info.text + "\n")
    L.append("/-- implementation descriptor ↦ translated body -/")
    L.append("def bodiesTable : List (String × Body) := [\n  " + ",\n  ".join("(%s, %s)" % (lstr(d), w) for d, w, _, _, _ in table) + "]\n")
    L.append("/-- implementation descriptor ↦ the argument shapes its registered signature admits -/")
    L.append("def bodiesShapes : List (String × List Shape × Option Shape) := [\n  " + ",\n  ".join(
        "(%s, %s, %s)" % (lstr(d), llist(sh), "Option.none" if vs is None else "some " + vs) for d, _, sh, vs, _ in table) + "]\n")
    L.append("/-- implementation descriptor ↦ name of the generated definition -/")
    L.append("def bodiesNames : List (String × String) := [\n  " + ",\n  ".join("(%s, %s)" % (lstr(d), lstr(n)) for d, _, _, _, n in table) + "]\n")
    L.append("/-- what the translator refused (descriptor, reason) -/")
    L.append("def untranslated : List (String × String) := [\n  " + ",\n  ".join("(%s, %s)" % (lstr(d), lstr(r)) for d, r in refused) + "]\n")
    L.append("end KaVerif.Gen.Bodies\n")
    write_if_changed("Bodies", "\n".join(L))
    print("gen: Bodies: %d translated, %d refused, %d definitions" % (len(table), len(refused), len(T.order)))


MODULES = {"Bodies": gen_bodies}
