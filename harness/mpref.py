#!/usr/bin/env python3-vt
"""High-precision reference values (mpmath, 60 digits) for C16's accuracy clause.
stdin: JSON list of [fn, [arg as "n/d" strings...]] ; stdout: JSON list of results:
   ["ok", "<n>/<d>"]  (a rational within 1e-40 relative of the true value) | ["undef"] """
import sys, json
from fractions import Fraction
import mpmath
mpmath.mp.dps = 60


def mp(s):
    q = Fraction(s)
    return mpmath.mpf(q.numerator) / mpmath.mpf(q.denominator)


def to_frac(x):
    if not mpmath.isfinite(x):
        return ["undef"]
    m, e = mpmath.frexp(x)
    # exact rational of the mpf
    man, exp = x.man_exp if hasattr(x, "man_exp") else (None, None)
    s = mpmath.nstr(x, 55, strip_zeros=False)
    return ["ok", str(Fraction(s))]


def main():
    reqs = json.load(sys.stdin)
    out = []
    for fn, args in reqs:
        try:
            a = [mp(s) for s in args]
            if fn == "sin": r = mpmath.sin(a[0])
            elif fn == "cos": r = mpmath.cos(a[0])
            elif fn == "tan": r = mpmath.tan(a[0])
            elif fn == "sqrt": r = mpmath.sqrt(a[0])
            elif fn == "ln": r = mpmath.log(a[0])
            elif fn == "log2": r = mpmath.log(a[0]) / mpmath.log(2)
            elif fn == "log10": r = mpmath.log(a[0]) / mpmath.log(10)
            elif fn == "log": r = mpmath.log(a[0]) / mpmath.log(a[1])
            elif fn == "pow": r = mpmath.power(a[0], a[1])
            else:
                out.append(["undef"]); continue
            if isinstance(r, mpmath.mpc):
                out.append(["undef"]); continue
            out.append(to_frac(r))
        except Exception as e:  # noqa
            out.append(["undef"])
    json.dump(out, sys.stdout)


if __name__ == "__main__":
    main()
