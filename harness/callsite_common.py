"""Shared oracle: an operator written ONCE and evaluated MANY times (the body or a condition of a comprehension) gives,
for each element, what the same operator gives when the expression is written out for that element alone.

Which implementation of an operator runs depends only on the kinds of its operands at that evaluation — not on the
operands the same call site saw before.  A per-call-site or per-name cache of the chosen overload is right for
homogeneous arrays and wrong as soon as the element kinds vary, so the element lists here mix kinds on purpose."""
import alias_common

MIXED = ['"a"', "2", "2.0", "1/2", "{1}", "[1, 3]", "2 m", "200 cm", "#2020-01-01#", "3!", "0*3!", "5!*-2", "0.5", "4/2", "-1", "0"]


def run(ctx, templates, others, prefix="callsite", n=200, elems=None):
    """templates: strings with `x` and `y` (e.g. "x == y"); others: operand texts substituted for y"""
    R, rng = ctx.real, ctx.rng
    T = R.types
    pool = list(elems or MIXED)
    for _ in range(n):
        tpl = rng.choice(templates)
        y = rng.choice(others)
        es = [rng.choice(pool) for _ in range(rng.randrange(2, 5))]
        alone = []
        for e in es:
            k, v = R.value(tpl.replace("x", "(" + e + ")").replace("y", "(" + y + ")"))
            alone.append((k, v))
        text = "{%s : x in {%s}}" % (tpl.replace("y", "(" + y + ")"), ", ".join(es))
        k, v = R.value(text)
        ctx.count("%s:%s" % (prefix, text), bucket=prefix + ("/all-ok" if all(a[0] == "ok" for a in alone) else "/some-rejected"))
        how = "execute(%r) against the same expression written out per element" % text
        if all(a[0] == "ok" for a in alone):
            want = "{" + ",".join(alias_common.deep_canon(a[1], T) for a in alone) + "}"
            got = alias_common.deep_canon(v, T) if k == "ok" else "err " + str(v)
            if got != want:
                ctx.violation("%s:%s" % (prefix, text), text, want, got, how)
        elif k == "ok":
            ctx.violation("%s:%s" % (prefix, text), text, "an error (element %s alone is rejected)" % es[[a[0] for a in alone].index("err")],
                          alias_common.deep_canon(v, T), how)
