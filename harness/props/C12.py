"""C12 — ranges, comprehensions and array aggregates follow their stated semantics."""
import math, statistics
from fractions import Fraction
import core
from core import num_canon
import pipeline

ID = "C12"
LEAN_MODULES = ["KaVerif.Props.C12"] + pipeline.LEAN_MODULES
GEN = ["Registry", "Units", "Tokens"]
THEOREMS = ["KaVerif.C12_range_mem", "KaVerif.C12_range_sorted", "KaVerif.C12_range_step", "KaVerif.C12_range_step_reject",
            "KaVerif.C12_sum_prod_size_in", "KaVerif.C12_mean", "KaVerif.C12_min_max", "KaVerif.C12_median",
            "KaVerif.C12_comprehension_lockstep", "KaVerif.C12_conditions", "KaVerif.C12_condition_not_bool",
            "KaVerif.C12_comprehension", "KaVerif.C12_comprehension_error",
            "KaVerif.PIPE_array_sum", "KaVerif.PIPE_statements"]
RULE = ("ranges lo..hi over bounds in [-12,12] plus huge/negative/reversed; range(lo,hi,step) with integer, fractional and float "
        "steps incl. zero/negative, and float steps next to 2^51..2^54 / 1e15..2e16 that are rounded or absorbed (operands by "
        "construction, independent reference loop; a round without progress must be FunctionArgError); arrays of 0-12 elements of every kind (ints, fractions, floats, lazy combinatorics, quantities in "
        "mixed units of one dimension, mixed-dimension for the error path, nested arrays); comprehensions with 1-3 generators of "
        "unequal lengths and 0-3 conditions incl. non-boolean ones; all as Ka text through the real pipeline; non-trivial = non-empty "
        "operand; distinct = distinct Ka text")
ASSUMPTIONS = ["Python's range(), list slicing and sorted() behave as documented (the model's sort is any stable sort by exact value)"]
LEVEL_TEXT = ("Machine-checked proof (Lean 4) over the model of the code's folds: lo..hi is exactly the ascending integers lo<=k<=hi; "
              "range(lo,hi,step) with positive step is lo+k*step for k<=floor((hi-lo)/step) and terminates (non-positive step rejected); "
              "sum/prod/size/in/mean/min/max/median of arrays of exact numbers equal the exact mathematical aggregates in canonical form "
              "(induction over the array; empty-array cases); a comprehension walks its generators in lock-step to the shortest, "
              "evaluates every condition, rejects non-0/1 conditions and generator-less clause lists, and lists kept body values in order. "
              "Tied to the code by correspondence on generated arrays/ranges/comprehensions and an independent Fraction/statistics oracle.")
LEVEL_NOTE = ("Aggregate theorems are for exact kinds (ints, fractions); floats, lazy values and quantities are checked by the oracle on "
              "the real code (quantities through base-unit magnitudes). Body and conditions of a comprehension are abstract functions of "
              "the environment in the theorem; the driver instantiates them with a small integer expression language.")
TECHNIQUE = "Lean 4 induction over arrays / loop invariants for range and comprehension + correspondence + Fraction oracle"

AGGS = ["sum", "prod", "mean", "median", "min", "max", "size"]


def gen_num_text(rng, kind):
    if kind == "int":
        return str(rng.randrange(-20, 40))
    if kind == "frac":
        return "(%d/%d)" % (rng.randrange(-30, 30), rng.randrange(1, 9))
    if kind == "float":
        return repr(round(rng.uniform(-20, 20), rng.randrange(0, 3)))
    if kind == "lazy":
        return rng.choice(["3!", "4!", "C(5,2)", "0!", "C(6,3)", "5!/3!"])
    raise ValueError


def key_of(v, T):
    """exact value (Fraction) and dimension of an evaluated element"""
    if isinstance(v, T.Quantity):
        return Fraction(v.mag), tuple(v.qv.v.xs)
    if isinstance(v, T.Combinatoric):
        return Fraction(v.resolve()), None
    if isinstance(v, bool) or not isinstance(v, (int, Fraction, float)):
        return None, None
    return Fraction(v), None


def check(ctx):
    R = ctx.real
    T = R.types
    rng = ctx.rng
    cases = []

    def real_ans(k, v):
        if k != "ok":
            return "err " + v
        if isinstance(v, T.Array):
            parts = [num_canon(x) for x in v.contents]
            if any(p is None for p in parts):
                return "ok other"
            return "ok {" + " ".join(parts) + "}"
        c = num_canon(v)
        return "ok " + c if c else "ok other"

    # ------------------------------------------------------------ ranges
    bounds = [(lo, hi) for lo in (-3, 0, 1, 5) for hi in (-4, 0, 1, 4, 9)] + [(10**20, 10**20 + 3), (-2, -2), (7, 3)]
    for _ in range(ctx.n(30, 300)):
        bounds.append((rng.randrange(-12, 12), rng.randrange(-12, 14)))
    for lo, hi in bounds:
        text = "(%s)..(%s)" % (("0-%d" % -lo) if lo < 0 else lo, ("0-%d" % -hi) if hi < 0 else hi)
        k, v = R.value(text)
        ctx.count(text, nontrivial=lo <= hi, bucket="range")
        want = list(range(lo, hi + 1))
        if k != "ok" or not isinstance(v, T.Array) or v.contents != want or any(type(x) is not int for x in v.contents):
            ctx.violation("range:" + text, text, str(want)[:200], real_ans(k, v)[:200], "execute(%r)" % text)
        cases.append(("arr range %d %d" % (lo, hi), real_ans(k, v), text))
    steps = ["1", "2", "1/2", "1/3", "3/2", "7", "0.25", "0.1", "0", "0-1", "0-1/2", "5/2", "100"]
    big = [("0", "10^17-1", "10^16"), ("1", "10^18", "10^18"), ("7", "3*10^20+6", "10^20"), ("0", "2^60-1", "2^58"),
           ("0-10^18", "10^18-1", "10^18"), ("0", "10^30", "10^29"), ("10^20", "10^20+5", "2"), ("0", "2^53+1", "2^52"),
           ("1/3", "10^18", "10^17"), ("0", "10^17", "10^16+1")]
    for i in range(ctx.n(60, 600) + len(big)):
        lo = rng.choice(["0", "1", "0-2", "1/2", "3", "0-5/2"])
        hi = rng.choice(["0", "1", "2", "5", "7/2", "0-1", "10", "3"])
        st = rng.choice(steps)
        if i < len(big):
            lo, hi, st = big[i]
        text = "range(%s, %s, %s)" % (lo, hi, st)
        k, v = R.value(text)
        ctx.count(text, bucket="range-step")
        qlo, qhi, qst = [Fraction(eval(x.replace("^", "**").replace("/", "*Fraction(1,1)/") if "." not in x else x, {"Fraction": Fraction})) if "." not in x
                         else Fraction(float(x)) for x in (lo, hi, st)]
        exact = "." not in st
        if qst <= 0 or qlo > qhi:
            if k == "ok":
                ctx.violation("range-step:" + text, text, "an error (non-positive step or lo > hi)", real_ans(k, v)[:200], "execute(%r)" % text)
            elif v not in ("funarg",):
                ctx.violation("range-step-escape:" + text, text, "a diagnosed argument error", v, "execute(%r)" % text)
        else:
            n = math.floor((qhi - qlo) / qst)
            want = [qlo + i * qst for i in range(n + 1)]
            if k != "ok" or not isinstance(v, T.Array):
                ctx.violation("range-step:" + text, text, str(want)[:200], real_ans(k, v)[:200], "execute(%r)" % text)
            elif exact and [Fraction(x) for x in v.contents] != want:
                ctx.violation("range-step:" + text, text, str(want)[:200], real_ans(k, v)[:200], "execute(%r)" % text)
            elif exact and any(isinstance(x, bool) or isinstance(x, float) or (isinstance(x, Fraction) and x.denominator == 1) for x in v.contents):
                # every value Ka delivers is canonical (an integral value IS an int): an element that is Fraction(2, 1) is refused
                # by `!`, `C`, `..` although it is the integer 2
                bad_ = next(x for x in v.contents if isinstance(x, (bool, float)) or (isinstance(x, Fraction) and x.denominator == 1))
                ctx.violation("range-step-kind:" + text, text, "integral elements delivered as integers", "element %r" % (bad_,), "execute(%r)" % text)
            elif not exact and (abs(len(v.contents) - len(want)) > 1 or any(abs(float(a) - float(b)) > 1e-9 for a, b in zip(v.contents, want))):
                ctx.violation("range-step:" + text, text, str(want)[:200], real_ans(k, v)[:200], "execute(%r)" % text)
        if exact:
            cases.append(("arr rangestep %s %s %s" % (num_canon(qlo.numerator if qlo.denominator == 1 else qlo),
                                                       num_canon(qhi.numerator if qhi.denominator == 1 else qhi),
                                                       num_canon(qst.numerator if qst.denominator == 1 else qst)), real_ans(k, v), text))
    # ------------------------------------------------------------ range(lo, hi, step) where float rounding decides
    # (fix efcc27a: a round that makes no progress is FunctionArgError).  Operands by construction, an independent reference
    # loop on Python numbers (pipeline.reference_range); the texts go through both whole-program models below.
    float_texts = []
    fixed_fr = [("2251799813685248.5", "2251799813685268.5", "0.7", 2251799813685248.5, 2251799813685268.5, 0.7),
                ("1e16", "1e16+4", "0.5", 10 ** 16, 10 ** 16 + 4, 0.5), ("10^16", "10^16+4", "0.5", 10 ** 16, 10 ** 16 + 4, 0.5),
                ("9007199254740992", "9007199254740996", "0.5", 2 ** 53, 2 ** 53 + 4, 0.5),
                ("4503599627370496.0", "4503599627370500.0", "0.5000001", 2 ** 52, 2 ** 52 + 4, 0.5000001),
                ("0.5", "3", "0.1", 0.5, 3, 0.1), ("0", "1", "0.1", 0, 1, 0.1)]
    for i in range(ctx.n(120, 1500) + len(fixed_fr)):
        lo_t, hi_t, st_t, lo, hi, st = fixed_fr[i] if i < len(fixed_fr) else pipeline.float_range_case(rng)
        text = "range(%s, %s, %s)" % (lo_t, hi_t, st_t)
        want = pipeline.reference_range(lo, hi, st)
        k, v = R.value(text)
        ctx.count(text, nontrivial=True, bucket="range-step-float/" + ("stuck" if want == "funarg" else "list"))
        if want == "funarg":
            if k == "ok" or v != "funarg":
                ctx.violation("range-float:" + text, text, "FunctionArgError (a step too small to advance)", real_ans(k, v)[:200], "execute(%r)" % text)
        elif want is not None:
            got = [(type(x).__name__, Fraction(x)) for x in v.contents] if k == "ok" and isinstance(v, T.Array) else None
            if got != [(type(x).__name__, Fraction(x)) for x in want]:
                ctx.violation("range-float:" + text, text, str(want)[:200], real_ans(k, v)[:200],
                              "execute(%r); expected: lo, then curr + step as Python adds the kinds, while <= hi" % text)
        float_texts += [text, "size(%s)" % text, "{x - (%s) : x in %s}" % (lo_t, text)]
    # ------------------------------------------------------------ aggregates
    qpool = {"len": ["1 m", "100 cm", "2 km", "3 in", "1/2 m", "2.5 m", "1 mi"], "time": ["3 s", "1 min", "2 h", "1/3 s", "0.5 s"],
             "dimless": ["2 rad", "1 dozen", "90 deg"]}
    fixed_arrays = [["0.5", "0.5", "(1/3)"], ["1.5", "2.5", "(10^17+1)"], ["0.1", "0.2", "0.3"], ["2.5", "2.5", "(1/7)"], ["0.25", "0.75", "(2/3)", "1.5"],
                    ["1e17", "1.5", "(1/2)"], ["(1/3)", "0.5", "0.5"], ["3", "0.5", "(7/2)"], ["2^53", "1.0", "1.0"], ["0.5", "(1/2)"], ["4.0", "(1/4)"]]
    for it in range(ctx.n(260, 4000) + 3 * len(fixed_arrays)):
        r = rng.random()
        n = rng.choice([0, 0, 1, 1, 2, 2, 3, 4, 5, 6, 8, 12])
        if r < 0.45:
            kinds = [rng.choice(["int", "int", "frac"]) for _ in range(n)]
            elems = [gen_num_text(rng, k) for k in kinds]
            cls = "exact"
        elif r < 0.65:
            elems = [gen_num_text(rng, rng.choice(["int", "frac", "float", "lazy"])) for _ in range(n)]
            cls = "mixed"
        elif r < 0.9:
            dim = rng.choice(list(qpool))
            elems = [rng.choice(qpool[dim]) for _ in range(n)]
            cls = "qty"
        elif r < 0.95:
            elems = [rng.choice(qpool[rng.choice(list(qpool))]) for _ in range(max(n, 2))]
            cls = "qty-mixed-dim"
        else:
            elems = ["{1, 2}", "3", "{4}"][: max(1, n % 4)]
            cls = "nested"
        forced = None
        if it < 3 * len(fixed_arrays):
            elems, cls, forced = list(fixed_arrays[it // 3]), "mixed", ("sum", "mean", "prod")[it % 3]
        arr = "{" + ", ".join(elems) + "}"
        ka, va = R.value(arr)
        if ka != "ok":
            continue
        keys = [key_of(x, T) for x in va.contents]
        fn = forced or rng.choice(AGGS)
        text = "%s(%s)" % (fn, arr)
        k, v = R.value(text)
        ctx.count(text, nontrivial=n > 0, bucket="agg/" + cls)
        how = "execute(%r)" % text
        if k != "ok" and (v.startswith("py:") or v == "diverges"):
            ctx.violation("agg-escape:" + text, text, "a value or a diagnosed error", v, how)
            continue
        good = all(q is not None for q, _ in keys) and len(set(d for _, d in keys)) <= 1
        if cls in ("exact", "mixed", "qty") and good:
            qs = [q for q, _ in keys]
            dim = keys[0][1] if keys else None
            isfloat = any(isinstance(x, float) or (isinstance(x, T.Quantity) and isinstance(x.mag, float)) for x in va.contents)
            want = None
            if fn == "size":
                want = Fraction(len(qs)); wdim = None
            elif fn == "sum":
                want = sum(qs, Fraction(0)); wdim = dim if qs else None
            elif fn == "prod":
                want = math.prod(qs, start=Fraction(1)); wdim = None if dim is None else tuple(len(qs) * x for x in dim)
            elif not qs:
                want = "error"; wdim = None
            elif fn == "mean":
                want = sum(qs, Fraction(0)) / len(qs); wdim = dim
            elif fn == "median":
                want = statistics.median(qs); wdim = dim
            elif fn == "min":
                want = min(qs); wdim = dim
            else:
                want = max(qs); wdim = dim
            if want == "error":
                if k == "ok":
                    ctx.violation("agg-empty:" + text, text, "an error (empty array)", real_ans(k, v), how)
            elif k != "ok":
                ctx.violation("agg:" + text, text, str(want), "err " + v, how)
            else:
                got, gdim = key_of(v, T)
                if wdim is not None and not any(wdim):
                    wdim = None if gdim is None else wdim
                tol = Fraction(0) if not isfloat else Fraction(1, 10**9) * max(1, abs(want))
                if got is None or abs(got - want) > tol or (gdim or None) != (wdim or None) and not (gdim is not None and not any(gdim) and wdim is None):
                    ctx.violation("agg:" + text, text, "%s dim=%s" % (want, wdim), "%s dim=%s" % (got, gdim), how)
                elif not isfloat and cls == "exact":
                    # canonical delivery: int when integral, else reduced fraction
                    if (want.denominator == 1) != (type(v) is int):
                        ctx.violation("agg-canon:" + text, text, "canonical form of %s" % want, repr(v), how)
        if cls in ("exact", "mixed") and elems and fn in ("sum", "prod", "mean"):
            # the aggregate is the language's own operator folded over the elements: same value AND same kind
            opc = "+" if fn in ("sum", "mean") else "*"
            ftext = "(" * (len(elems) - 1) + elems[0] + "".join(" %s %s)" % (opc, e) for e in elems[1:])
            if fn == "mean":
                ftext = "(%s) / %d" % (ftext, len(elems))
            kf, vf = R.value(ftext)
            ctx.count("fold:" + text, bucket="fold-consistency")
            same = (kf == k) and (kf != "ok" or (num_canon(vf) == num_canon(v)) or
                                  (isinstance(v, float) and isinstance(vf, float) and abs(v - vf) <= 1e-12 * max(1.0, abs(v)) and fn == "prod"))
            if not same:
                ctx.violation("agg-fold:" + text, text, "%s = %s" % (ftext, real_ans(kf, vf)), real_ans(k, v), how)
        if cls == "exact":
            cases.append(("arr agg %s %s" % (fn, " ".join(num_canon(x) for x in va.contents)), real_ans(k, v), text))
            if len(ctx.cov["samples"]) < 6:
                ctx.sample(dict(text=text, real=real_ans(k, v)))
            # membership
            x = rng.choice(elems) if elems and rng.random() < 0.6 else gen_num_text(rng, "int")
            t2 = "(%s) in %s" % (x, arr)
            k2, v2 = R.value(t2)
            kx, vx = R.value(x)
            want2 = 1 if any(Fraction(vx) == q for q, _ in keys) else 0
            ctx.count(t2, bucket="in")
            if k2 != "ok" or type(v2) is not int or v2 != want2:
                ctx.violation("in:" + t2, t2, str(want2), real_ans(k2, v2), "execute(%r)" % t2)
            cases.append(("arr in %s %s" % (num_canon(vx), " ".join(num_canon(y) for y in va.contents)), real_ans(k2, v2), t2))
    # ------------------------------------------------------------ `in` over numbers and quantities in DIMENSIONLESS units (same dimension:
    # 3 dozen == 36), in both directions, and as a condition
    for text, want_txt in [("36 in {3 dozen}", "1"), ("3 dozen in {36, 5}", "1"), ("3 in {3 rad}", "1"), ("37 in {3 dozen}", "0"), ("2 hundred in {200}", "1"),
                           ("16 b in {2 B}", "1"), ("8 in {1 B}", "1"), ("1 B in {8, 9}", "1"), ("{x : x in 30..40, (x) in {3 dozen, 1 hundred}}", "{36}"),
                           ("36 in {5 dozen, 3 dozen}", "1"), ("1 thousand in {999, 1000}", "1"), ("1000 in {1 thousand, 2}", "1"), ("3 dozen in {35, 37}", "0"),
                           ("1 m in {100 cm, 2 m}", "1"), ("1 km in {999 m, 1001 m}", "0")]:
        r = R.execute(text)
        w = R.execute(want_txt)
        ctx.count(text, bucket="in/dimensionless")
        if r["escaped"] or r["status"] != 0 or r["out"] != w["out"]:
            ctx.violation("in:" + text, text, want_txt, r["out"].strip() or "status %s %s %s" % (r["status"], r["escaped"] or "", r["err"].strip()[:100]), "execute(%r)" % text)
    # ------------------------------------------------------------ conditions whose value is 0 or 1 of ANOTHER numeric kind
    # (a lazy combinatoric, a quotient of lazies, a product with a lazy zero, a variable holding one): "keeps the positions where
    # every condition is 1"; a lazy 3 is "not 0 or 1" and an error
    lazy_conds = [("{n : n in 0..5, C(n,n)}", "{0, 1, 2, 3, 4, 5}"), ("{k : k in 0..4, C(1,k)}", "{0, 1}"), ("{x : x in 2..5, x!/x!}", "{2, 3, 4, 5}"),
                  ("{x : x in 2..5, 0*x!}", "{}"), ("{x+y : x in 2..6, y in {10,20,30}, x >= 3, C(y,y)}", "{23, 34}"),
                  ("sum({n : n in 0..5, C(n,n)})", "15"), ("one = C(4,4); {x : x in 1..3, one}", "{1, 2, 3}"), ("{x : x in 1..3, C(x,2)}", None),
                  ("{x : x in 1..3, 3!/6}", "{1, 2, 3}"), ("{x : x in 1..3, 2/2}", "{1, 2, 3}"), ("{x : x in 1..4, C(2,x)/2}", None),
                  ("{x : x in 1..3, C(3,3), C(x,x), x < 3}", "{1, 2}"), ("size({x : x in 1..6, C(1, x - 3)})", "2"), ("{x : x in 3..4, 3!}", None)]
    for text, want_txt in lazy_conds:
        r = R.execute(text)
        ctx.count(text, bucket="compr/lazy-condition")
        if want_txt is None:
            if r["status"] == 0 or r["escaped"]:
                ctx.violation("compr:" + text, text, "an error (a condition that is not 0 or 1)", r["out"].strip() or str(r["escaped"]), "execute(%r)" % text)
        else:
            w = R.execute(want_txt)
            if r["escaped"] or r["status"] != 0 or r["out"] != w["out"]:
                ctx.violation("compr:" + text, text, want_txt, r["out"].strip() or "status %s %s %s" % (r["status"], r["escaped"] or "", r["err"].strip()[:100]),
                              "execute(%r)" % text)
    # ------------------------------------------------------------ comprehensions
    names_pool = ["x", "y", "z"]
    for _ in range(ctx.n(300, 4000)):
        ng = rng.choice([1, 1, 2, 2, 3, 0])
        names = names_pool[:ng]
        arrays = [[rng.randrange(-3, 6) for _ in range(rng.choice([0, 1, 2, 3, 4, 6]))] for _ in names]
        conds = []
        for _ in range(rng.choice([0, 0, 1, 1, 2, 3])):
            if not names:
                conds.append(("eq", ("lit", 1), ("lit", 1)))
            elif rng.random() < 0.2:
                conds.append(("raw", ("var", rng.choice(names))))
            else:
                conds.append((rng.choice(["lt", "le", "eq", "ne"]), ("var", rng.choice(names)),
                              ("lit", rng.randrange(-2, 5)) if rng.random() < 0.7 else ("var", rng.choice(names))))
        body = rng.choice([("var", names[0]) if names else ("lit", 1),
                           ("mul", ("var", names[0]) if names else ("lit", 2), ("lit", 10)),
                           ("add", ("var", names[0]) if names else ("lit", 2), ("var", names[-1]) if names else ("lit", 3))])

        def tx(e):
            if e[0] == "lit":
                return str(e[1]) if e[1] >= 0 else "(0-%d)" % -e[1]
            if e[0] == "var":
                return e[1]
            return "(%s %s %s)" % (tx(e[1]), "+" if e[0] == "add" else "*", tx(e[2]))

        def sx(e):
            if e[0] == "lit":
                return "(lit %d)" % e[1]
            if e[0] == "var":
                return "(var %s)" % e[1]
            return "(%s %s %s)" % (e[0], sx(e[1]), sx(e[2]))
        OPT = {"lt": "<", "le": "<=", "eq": "==", "ne": "!="}
        clauses = ["%s in {%s}" % (nm, ", ".join(tx(("lit", a)) for a in arr)) for nm, arr in zip(names, arrays)]
        ctexts = [tx(c[1]) if c[0] == "raw" else "%s %s %s" % (tx(c[1]), OPT[c[0]], tx(c[2])) for c in conds]
        # interleave clauses and conditions in random order (the parser splits them)
        allc = clauses + ctexts
        if not allc:
            continue
        order = list(range(len(allc)))
        if rng.random() < 0.5:
            # keep generators before the conditions that use them most of the time; sometimes shuffle fully
            rng.shuffle(order)
        text = "{%s : %s}" % (tx(body), ", ".join(allc[i] for i in order))
        env = R.new_env()
        k, v = R.value(text, env=env)
        ctx.count(text, nontrivial=bool(names), bucket="compr/gens=%d" % ng)
        how = "execute(%r)" % text
        # independent reference
        def ev(e, b):
            if e[0] == "lit": return e[1]
            if e[0] == "var": return b[e[1]]
            return ev(e[1], b) + ev(e[2], b) if e[0] == "add" else ev(e[1], b) * ev(e[2], b)
        want, err = [], False
        if not names:
            err = True
        else:
            for i in range(min(len(a) for a in arrays)):
                b = {nm: arr[i] for nm, arr in zip(names, arrays)}
                keep = True
                for c in conds:
                    if c[0] == "raw":
                        val = ev(c[1], b)
                        if val not in (0, 1):
                            err = True
                        elif val == 0:
                            keep = False
                    else:
                        p, q = ev(c[1], b), ev(c[2], b)
                        if not {"lt": p < q, "le": p <= q, "eq": p == q, "ne": p != q}[c[0]]:
                            keep = False
                if err:
                    break
                if keep:
                    want.append(ev(body, b))
        if err:
            if k == "ok":
                ctx.violation("compr:" + text, text, "an error", real_ans(k, v), how)
            elif v.startswith("py:"):
                ctx.violation("compr-escape:" + text, text, "a diagnosed error", v, how)
        elif k != "ok" or not isinstance(v, T.Array) or v.contents != want:
            ctx.violation("compr:" + text, text, str(want), real_ans(k, v), how)
        leaked = [nm for nm in names if core.env_bound(env, nm)]
        if leaked:
            ctx.violation("compr-leak:" + text, text, "generator variables local to the comprehension", "bound afterwards: %s" % leaked, how)
        cases.append(("arr compr (names %s) (arrays %s) (conds %s) (body %s)" % (
            " ".join(names), " ".join("(" + " ".join(map(str, a)) + ")" for a in arrays),
            " ".join("(%s %s)" % (c[0], sx(c[1])) if c[0] == "raw" else "(%s %s %s)" % (c[0], sx(c[1]), sx(c[2])) for c in conds),
            sx(body)), real_ans(k, v), text))
    # ---- generator variables are LOCAL and shadowing is undone exactly: an outer binding of the same name — whatever its value,
    # also 0, an empty array, a string — is back afterwards; nested comprehensions reusing a name see the right value at each level
    shadow = [
        ("x = 0; {x*x : x in 1..3}; x", "0"), ("x = {}; {x : x in 1..2}; size(x)", "0"), ("x = 7; {x : x in 1..2}; x", "7"),
        ("n = 0; {n*n : n in 1..3}; sum({k + n : k in 1..3})", "6"), ("n = 7; {n*n : n in 1..3}; sum({k + n : k in 1..3})", "27"),
        ("{sum({x : x in 1..2}) + x : x in 0..2}", "{3, 4, 5}"), ("{sum({x : x in 1..2}) + x : x in 1..3}", "{4, 5, 6}"),
        ("{x : x in -1..1, size({x : x in 1..3}) == 3, x <= 0}", "{-1, 0}"),
        ("{size({a : a in 1..2}) + size(a) : a in {{1}, {}, {1, 2}}}", "{3, 2, 4}"),
        ("x = 0; y = {}; {x + y : x in 1..2, y in 3..4}; {x, size(y)}", "{0, 0}"),
        ("x = 3; {{x : x in 1..y} : y in 1..2}; x", "3"), ("s = \"\"; {s : s in 1..2}; s", ""),
        ("t = 0*3!; {t : t in {5}}; t + 1", "1"), ("x = 0; {x : x in {}}; x", "0"),
    ]
    for text, want_out in shadow:
        r = R.execute(text)
        ctx.count(text, bucket="compr/shadowing")
        got = r["out"].strip().split("\n")[-1] if r["status"] == 0 and not r["escaped"] else "status %s %s %s" % (r["status"], r["escaped"] or "", r["err"].strip()[:80])
        if got != want_out:
            ctx.violation("compr-shadow:" + text, text, want_out, got, "execute(%r)" % text)
    for _ in range(ctx.n(150, 2500)):
        # random: bind some names to values of several kinds, run a comprehension that reuses some of them, compare all bindings
        env = R.new_env()
        nm = rng.sample(["x", "y", "k", "n"], rng.randrange(1, 4))
        binds = {v_: rng.choice(["0", "{}", "7", "1/2", "0.0", "{0}", "\"\"", "3 m", "0 m"]) for v_ in nm}
        for v_, t_ in binds.items():
            R.execute("%s = %s" % (v_, t_), env=env)
        before = {v_: repr(R.value(v_, env=env)) for v_ in nm}
        gens = rng.sample(["x", "y", "k", "n"], rng.randrange(1, 3))
        inner = rng.choice(["", "", " + size({%s : %s in 1..2})" % (gens[0], gens[0])])
        text = "{%s%s : %s}" % (" + ".join(gens), inner, ", ".join("%s in %d..%d" % (g_, rng.randrange(0, 2), rng.randrange(1, 4)) for g_ in gens))
        r = R.execute(text, env=env)
        ctx.count("shadow:" + text + str(sorted(binds.items())), bucket="compr/shadowing-random")
        after = {v_: repr(R.value(v_, env=env)) for v_ in nm}
        stray = [g_ for g_ in gens if g_ not in nm and core.env_bound(env, g_)]
        if after != before or stray or r["escaped"] or r["status"] != 0:
            ctx.violation("compr-shadow:" + "; ".join("%s = %s" % kv for kv in sorted(binds.items())) + "; " + text,
                          "; ".join("%s = %s" % kv for kv in sorted(binds.items())) + "; " + text,
                          "status 0, every outer binding unchanged, no generator name left bound",
                          "status %s %s; changed: %s; left bound: %s" % (r["status"], r["escaped"] or r["err"].strip()[:60],
                                                                       [v_ for v_ in nm if after[v_] != before[v_]], stray),
                          "one EvalEnvironment: the assignments, then execute(%r), then read the variables" % text)
    # nested comprehensions re-using names (lexical scoping, sources evaluated in the enclosing scope, conditions per position),
    # against a reference interpreter; and: no aggregate / comprehension changes an array a variable is bound to
    import nested_common, alias_common
    nested_common.run(ctx, ctx.n(600, 8000), "nested")
    alias_common.run(ctx, "alias")
    # a generator whose value is not an array
    for text in ("{x : x in 5}", "{x : x in 1..3, y in 2}", "{1 : 2 > 1}"):
        k, v = R.value(text)
        ctx.count(text, bucket="compr/bad-generator")
        if k == "ok" or v.startswith("py:"):
            ctx.violation("compr-badgen:" + text, text, "a diagnosed error", real_ans(k, v), "execute(%r)" % text)

    def agree(real, model, info):
        if real == model:
            return True
        # error classes inside comprehensions: the model's small expression language reports `eval` for an unbound name
        return real.startswith("err") and model.startswith("err") and {real, model} <= {"err eval", "err nomatch"}
    ctx.correspond("arr", cases, agree=agree)
    # the same array programs as text through the unified pipeline model (status + exact display)
    texts = float_texts + [c[2] for c in cases if isinstance(c[2], str)]
    pipeline.run(ctx, [t for t in texts[: ctx.n(2500, 25000)] if len(t) < 3000], label="run-c12", min_modelled=0.0, bodies=True)


# ---- refinement lemmas of the unified pipeline model for this property (Props/Pipeline2.lean): the fragment this check's
# theorems are about IS what the whole-program model computes on the fragment's sub-language
import pipeline as _pl
LEAN_MODULES = LEAN_MODULES + [m for m in _pl.LEAN_MODULES2 if m not in LEAN_MODULES]
THEOREMS = THEOREMS + [t for t in _pl.THEOREMS2.get(ID, []) if t not in THEOREMS]
GEN = GEN + [g for g in _pl.GEN if g not in GEN]
# Props/PipelineArr.lean: comprehensions, median, range on every numeric kind, quantity aggregates
LEAN_MODULES = LEAN_MODULES + [m for m in _pl.LEAN_MODULES3 if m not in LEAN_MODULES]
THEOREMS = THEOREMS + [t for t in _pl.THEOREMS3.get(ID, []) if t not in THEOREMS]

# ---- the array / range function bodies TRANSLATED from the source (Gen/Bodies.lean) are proved equal to the hand-written model
# bodies (Props/Bodies.lean); the array programs above also run through the translated bodies (stream runG)
LEAN_MODULES = LEAN_MODULES + [m for m in _pl.BODIES_MODULES if m not in LEAN_MODULES]
THEOREMS = THEOREMS + [t for t in _pl.bodies_theorems(("Array", "BODIES_range_", "_varNumber")) if t not in THEOREMS]
GEN = GEN + [g for g in _pl.BODIES_GEN if g not in GEN]
