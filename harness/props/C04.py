"""C04 — magnitudes under units: linear/affine conversion, operand order respected."""
from fractions import Fraction
import qty_common
from core import num_canon

ID = "C04"
LEAN_MODULES = ["KaVerif.Props.C04", "KaVerif.Props.C04Table"]
GEN = ["Units"]
THEOREMS = ["KaVerif.C04_make", "KaVerif.C04_to", "KaVerif.C04_to_self", "KaVerif.C04_roundtrip", "KaVerif.C04_operand_order",
            "KaVerif.C04_halves", "KaVerif.C04_linear", "KaVerif.C04_distributes", "KaVerif.C04_table_canonical"]
RULE = ("the C03 tree generator (all units, spellings, prefixes, compound signatures, all operators and `to`) with the magnitude "
        "oracle: exact Fraction arithmetic over the registered factors/offsets in written operand order; exact comparison (value and "
        "kind) when every unit is rational with positive exponent and no float literal occurs, 1e-9 relative otherwise; plus the "
        "dedicated streams x U to U, (x U to V) V to U for same-dimension pairs, q/2, q-n, n-q, q/n, n/q; distinct = distinct Ka text")
ASSUMPTIONS = ["IEEE rounding of float factors is modelled, not verified (1e-9 tolerance)"]
LEVEL_TEXT = ("Machine-checked proof (Lean 4), exact regime, for every unit table and all rationals: x U has base magnitude "
              "factor*x+offset delivered canonically (never a float); q to V is (mag-offset)/factor, rejected across dimensions; "
              "x U to U = x and (x U to V) V to U = x exactly, affine units included; subtraction and division keep the written "
              "operand order for quantity-quantity and number on either side; q/2 halves q; conversion is linear for offset-free "
              "units. Which registered units are exact (int / reduced Fraction) is a kernel-checked fact of the generated table. "
              "Tied to the code by correspondence on random trees; magnitudes checked by an independent Fraction oracle.")
LEVEL_NOTE = "Float regime (float literals, float unit factors such as deg/acre/eV, int**negative in compose_units) is corresponded within 1e-9, not proved."
TECHNIQUE = "Lean 4 algebra over Q on the model of make/convert/operator wrapper + generated-table fact + correspondence + Fraction oracle"


def _check_main(ctx):
    g = qty_common.run(ctx, "C04")
    R, rng = ctx.real, ctx.rng
    T = R.types
    # ---- dedicated streams
    phys = [u for u in g.U["units"] if not u["cash"]]
    for u in phys:
        for x in ("3", "(7/2)", "2.5", "0"):
            name = u["singular"]
            text = "(%s %s) to %s" % (x, name, name)
            k, v = R.value(text)
            want = Fraction(eval(x.strip("()").replace("/", "*Fraction(1)/"), {"Fraction": Fraction})) if "." not in x else Fraction(float(x))
            ctx.count(text, bucket="to-self")
            exact = u["multiple"][2] != "float" and "." not in x
            ok = k == "ok" and not isinstance(v, T.Quantity) and (Fraction(v) == want if exact else abs(Fraction(v) - want) <= Fraction(1, 10**9) * max(1, abs(want)))
            if ok and exact and ((want.denominator == 1) != (type(v) is int) or isinstance(v, float)):
                ok = False
            if not ok:
                ctx.violation("to-self:" + text, text, str(want), repr((k, v)), "execute(%r)" % text)
    # a leading sign binds tighter than unit attachment: `-x U` is (-x) U — it matters for the affine units
    for u in phys:
        if Fraction(u["offset"][0], u["offset"][1]) == 0 and rng.random() < 0.8:
            continue
        f, o = Fraction(u["multiple"][0], u["multiple"][1]), Fraction(u["offset"][0], u["offset"][1])
        for x in (40, 273, 5, 100):
            for text, want in (("-%d %s" % (x, u["singular"]), f * -x + o), ("-%d %s to %s" % (x, u["singular"], u["singular"]), Fraction(-x)),
                               ("+%d %s" % (x, u["singular"]), f * x + o), ("0 %s - -%d %s" % (u["singular"], x, u["singular"]), (o) - (f * -x + o))):
                k, v = R.value(text)
                ctx.count(text, bucket="signed-literal")
                got = Fraction(v.mag) if (k == "ok" and isinstance(v, T.Quantity)) else (Fraction(v) if k == "ok" else None)
                exact = u["multiple"][2] != "float"
                if got is None or (got != want if exact else abs(got - want) > Fraction(1, 10**9) * max(1, abs(want))):
                    ctx.violation("signed-literal:" + text, text, str(want), repr((k, v)), "execute(%r)" % text)
    # a float LITERAL with an integral value is an exact integer however large (1.5e20 is 150000000000000000000): under a unit with
    # a rational factor the magnitude is exact, `x U to U` is x, the round trip is x, q/3 divides exactly
    for lit, val in [("1.5e20", 15 * 10**19), ("2.5e22", 25 * 10**21), ("6.02214076e23", 602214076 * 10**15), ("1.25e17", 125 * 10**15), ("9007199254740993.0", 9007199254740993)]:
        val = int(float(lit))          # the literal denotes the nearest double — an integer here —, and that integer is kept exactly
        for un, f in [("km", 1000), ("week", 604800), ("min", 60), ("t", 1000), ("KiB", 8192), ("h", 3600)]:
            for text, want in [("%s %s" % (lit, un), Fraction(val) * f), ("%s %s to %s" % (lit, un, un), Fraction(val)),
                               ("(%s %s) / 3" % (lit, un), Fraction(val) * f / 3), ("(%s %s to %s) %s to %s" % (lit, un, un, un, un), Fraction(val))]:
                k, v = R.value(text)
                ctx.count(text, bucket="float-literal-beyond-2^53")
                got = Fraction(v.mag) if (k == "ok" and isinstance(v, T.Quantity)) else (Fraction(v) if k == "ok" and not isinstance(v, bool) else None)
                isf = isinstance(v.mag if (k == "ok" and isinstance(v, T.Quantity)) else v, float)
                if got != want or isf:
                    ctx.violation("qty-mag-exact:" + text, text, str(want), repr((k, v))[:200], "execute(%r)" % text)
    # the magnitude that CANCELS the offset (absolute zero: -273.15 degC, -459.67 degF), as a float and as an exact fraction: the
    # base value is 0 (0 K) — a value, like every other one — and `x U to U` is x
    for u in phys:
        f, o = Fraction(u["multiple"][0], u["multiple"][1]), Fraction(u["offset"][0], u["offset"][1])
        if o == 0 or f == 0:
            continue
        x0 = -o / f
        for xt, xv, exact in [(repr(float(x0)), Fraction(float(x0)), False), ("(%d/%d)" % (x0.numerator, x0.denominator), x0, True),
                              (repr(float(x0) + 1.0), Fraction(float(x0) + 1.0), False)]:
            xt = xt if not xt.startswith("-") else "(0%s)" % xt
            for text, want, tol in [("%s %s" % (xt, u["singular"]), f * xv + o, Fraction(1, 10**9)),
                                    ("%s %s to %s" % (xt, u["singular"], u["singular"]), xv, Fraction(1, 10**9) * max(1, abs(xv))),
                                    ("(%s %s) + 10 K" % (xt, u["singular"]), f * xv + o + 10, Fraction(1, 10**9) * 10),
                                    ("x_ = %s; x_ %s to %s" % (xt, u["singular"], u["singular"]), xv, Fraction(1, 10**9) * max(1, abs(xv)))]:
                k, v = R.value(text)
                ctx.count(text, bucket="offset-cancelled")
                got = Fraction(v.mag) if (k == "ok" and isinstance(v, T.Quantity)) else (Fraction(v) if k == "ok" else None)
                if got is None or (got != want if (exact and u["multiple"][2] != "float") else abs(got - want) > tol):
                    ctx.violation("offset-cancelled:" + text, text, str(float(want)) if not exact else str(want), repr((k, v)), "execute(%r)" % text)
    pairs = []
    for d, us in g.by_dim.items():
        for a in us:
            for b in us:
                if a is not b:
                    pairs.append((a, b))
    rng.shuffle(pairs)
    for a, b in pairs[: ctx.n(250, 100000)]:
        x = rng.choice(["3", "(7/2)", "12", "1"])
        text = "((%s %s to %s) %s) to %s" % (x, a["singular"], b["singular"], b["singular"], a["singular"])
        k, v = R.value(text)
        want = Fraction(eval(x.strip("()").replace("/", "*Fraction(1)/"), {"Fraction": Fraction}))
        ctx.count(text, bucket="round-trip")
        exact = a["multiple"][2] != "float" and b["multiple"][2] != "float"
        try:
            ok = k == "ok" and (Fraction(v) == want if exact else abs(Fraction(v) - want) <= Fraction(1, 10**9) * abs(want))
        except Exception:
            ok = False
        if not ok:
            ctx.violation("round-trip:" + text, text, str(want), repr((k, v)), "execute(%r)" % text)
    for q, qm, dimless in (("6 m", 6, False), ("(7/2) s", Fraction(7, 2), False), ("90 deg", None, True), ("3 dozen", 36, True),
                           ("(6 m / 1 m)", 6, True), ("10 rad", 10, True), ("5 kg", 5, False)):
        for n in ("2", "(1/3)", "4"):
            nq = Fraction(eval(n.strip("()").replace("/", "*Fraction(1)/"), {"Fraction": Fraction}))
            forms = [("(%s) / %s" % (q, n), lambda a, b: a / b), ("%s / (%s)" % (n, q), lambda a, b: b / a),
                     ("(%s) * %s" % (q, n), lambda a, b: a * b)]
            if dimless:
                forms += [("(%s) - %s" % (q, n), lambda a, b: a - b), ("%s - (%s)" % (n, q), lambda a, b: b - a),
                          ("(%s) + %s" % (q, n), lambda a, b: a + b)]
            for text, f in forms:
                if qm is None:
                    continue
                k, v = R.value(text)
                ctx.count(text, bucket="operand-order")
                want = f(Fraction(qm), nq)
                got = Fraction(v.mag) if (k == "ok" and isinstance(v, T.Quantity)) else (Fraction(v) if k == "ok" else None)
                if got != want:
                    ctx.violation("operand-order:" + text, text, str(want), repr((k, v)), "execute(%r)" % text)



def check(ctx):
    _check_main(ctx)
    # shared oracle: operators return new values, operands bound to variables are never updated in place
    import alias_common
    alias_common.run(ctx, prefix="alias")
    # units keep their factor in a session whose variables are named like them (also like PREFIXED spellings)
    import namespace_common
    namespace_common.run(ctx, "ns")


# ---- refinement lemmas of the unified pipeline model for this property (Props/Pipeline2.lean): the fragment this check's
# theorems are about IS what the whole-program model computes on the fragment's sub-language
import pipeline as _pl
LEAN_MODULES = LEAN_MODULES + [m for m in _pl.LEAN_MODULES2 if m not in LEAN_MODULES]
THEOREMS = THEOREMS + [t for t in _pl.THEOREMS2.get(ID, []) if t not in THEOREMS]
GEN = GEN + [g for g in _pl.GEN if g not in GEN]
