"""C06 — every input ends in a value or a diagnosed error — never a crash or a hang."""
import io, itertools, json, os, re, subprocess, sys
import core
import pipeline

ID = "C06"
LEAN_MODULES = ["KaVerif.Props.C06", "KaVerif.Props.C06Raises"] + pipeline.LEAN_MODULES
GEN = ["Exec", "Raises", "Registry", "Units", "Tokens"]
THEOREMS = ["KaVerif.C06_escape_iff", "KaVerif.C06_stream_discipline", "KaVerif.C06_tables", "KaVerif.C06_no_escape_current",
            "KaVerif.C06_caret", "KaVerif.C06_commands", "KaVerif.C06_raise_sites_covered", "KaVerif.C06_no_unargued_leak",
            "KaVerif.C06_argued_exist"] + pipeline.THEOREMS
RULE = ("(i) every registered function name x every tuple of value kinds up to arity 2 (arity 3 sampled) and every operator x every "
        "pair of kinds (12 kinds: int, fraction, float, lazy, quantity, array, interval, instant, string, random variable, event, "
        "plot; representative values incl. 0, negatives, empty array, month ends); (ii) token soups; (iii) arbitrary character "
        "sequences over ASCII + currency/± /μ; (iv) well-formed random programs; (v) every % command with 0-3 arguments; "
        "(iv') whole programs and sessions through the unified pipeline model (lexer->parser->evaluator->display) vs execute(); "
        "(vi) a sample through `python -m ka.cli`; each through the real execute() with captured streams under a watchdog; "
        "non-trivial = input lexes; distinct = distinct input text")
ASSUMPTIONS = ["'promptly' is a 4 s watchdog per input; inputs whose literals/exponents/factorial arguments/range lengths exceed 10^6 are "
               "outside the property's hang clause and a timeout there is not reported",
               "matplotlib is replaced by a recording stub (what the plotting library does is outside the model)",
               "memory exhaustion cannot be exhibited",
               "three defensive raises are argued unreachable by name in Props/C06Raises.lean (probability.eval_probability 'this is a bug', "
               "tokens.Token.meta missing key, utils.erfinv |z| > 1); every other raise statement of the source is covered by kernel decide "
               "over the table regenerated from the ast (the call graph of the containment analysis is by name, dynamic calls count as leaks)"]
LEVEL_TEXT = ("PARTIAL. Machine-checked (Lean 4): the try/except structure of execute()/eval_parse_tree is regenerated from the source "
              "(ast) and, for EVERY behaviour of the four stages, execute lets a class escape iff the try around the raising stage does "
              "not list it; otherwise the outcome is status 0 with output only or status 1 with diagnostics only; the generated tables "
              "catch the class of EVERY raise statement in the source (table of all raise sites regenerated from the ast, with the stage each runs in, local handlers, declared base classes and a containment analysis), convert ZeroDivisionError/OverflowError raised during evaluation, and the "
              "CLI fast path exits with that status; the position marker stands under input position `index` for every input and index; "
              "the % command dispatcher is total (bare % included). NOT provable here: which host exceptions CPython's library calls "
              "raise inside the function bodies, wall-clock promptness — decided by the exhaustive kinds x functions sweep, fuzzing and "
              "the watchdog on the real code, with the stage-level model corresponded on every input.")
LEVEL_NOTE = ("The stages' exception behaviour is observed, not modelled: the theorem reduces 'no escape' to 'each stage raises only listed "
              "classes', and the sweep checks the latter on the generated inputs. Termination of range/comprehension/lazy products is "
              "proved in C12/C05.")
TECHNIQUE = "Lean 4 proof of the handler structure over ast-generated tables + exhaustive kinds x functions sweep and fuzzing (partial)"

KIND_TEXT = {
    "int": ["3", "0", "(0-2)", "10^30", "1"], "frac": ["(1/2)", "(0-7/3)"], "float": ["2.5", "(0-0.5)", "1e300", "1e-300"],
    "lazy": ["5!", "C(6,2)", "0!", "3!/5!", "(0*4!)", "(0/5!)", "(3!*(1/4))"],
    "qty": ["3 m", "2 s", "(1/2) kg", "90 deg", "5 usd", "0 degC", "1 m^2|s", "0 m"], "arr": ["{1,2,3}", "{}", "{1 m, 2 m}", "{{1},{2}}", "{\"a\"}", "{1/2, 2.5}"],
    "intv": ["[1,2]", "[0-1,1]", "[0,0]", "[1.5, 2.5]", "[1/2, 3]"],
    "inst": ["#2020-01-31#", "#2020-02-29T12:00#", "#9999-12-31#", "#0001-01-01#", "#2020-12-31T23:59:59.999999#"],
    "str": ["\"abc\"", "\"\""],
    "rv": ["Binomial(5,0.5)", "Poisson(3)", "Geometric(0.5)", "Bernoulli(0.2)", "UniformInt(1,6)", "Exponential(2)", "Uniform(0,1)",
           "Gaussian(0,1)", "Geometric(1)", "Binomial(1,1)", "UniformInt(2,2)"],
    "event": ["(Binomial(5,0.5) < 3)", "(2 <= Poisson(3) < 5)", "(UniformInt(1,6) = 2)"], "plot": ["line({1,2},{3,4})", "options(grid: 1)", "vline(1)"],
}
BIG = re.compile(r"\d{7,}|e\d{2,}|\^\s*\(?\d{3,}|10\^[3-9]\d|10\^\d{3,}")


class PltStub:
    """recording stand-in for matplotlib.pyplot"""
    def __getattr__(self, name):
        return self

    def __call__(self, *a, **k):
        return self


def classify(r):
    st, out, err, esc = r["status"], r["out"], r["err"], r["escaped"]
    if esc == "diverges":
        return "HANG"
    if esc:
        return "ESCAPE:" + esc
    if st == 0 and err != "":
        return "status 0 with text on the error stream"
    if st == 0 and out == "":
        return "status 0 with nothing on the output stream"
    if st == 1 and (out != "" or err == ""):
        return "status 1 with output text or without a diagnostic"
    if st not in (0, 1):
        return "status %r" % (st,)
    return None


def check(ctx):
    R = ctx.real
    rng = ctx.rng
    F = R.functions
    import ka.plot as KP
    KP.plt = PltStub()
    KP.ticker = PltStub()
    KP.load_pyplot = lambda: None
    toks_mod, parse_mod, eval_mod, interp = R.tokens, R.parse, R.eval, R.interpret
    cases = []

    def stages(text):
        """observe which class each stage raises (instrumented run, separate from execute())"""
        st = ["-", "-", "-", "-"]
        try:
            with core.alarm(4):
                try:
                    toks = toks_mod.tokenise(text)
                except Exception as e:  # noqa
                    st[0] = type(e).__name__; return st
                try:
                    tree = parse_mod.parse_tokens(toks)
                except Exception as e:  # noqa
                    st[1] = type(e).__name__; return st
                env = eval_mod.EvalEnvironment()
                try:
                    res = eval_mod.eval_node(tree, env)
                except Exception as e:  # noqa
                    st[2] = type(e).__name__; return st
                try:
                    red = interp.reduce_result(res)
                    if red is not None:
                        interp.display_result(red, io.StringIO())
                    if isinstance(res, KP.Plot):
                        pass
                except Exception as e:  # noqa
                    st[3] = type(e).__name__
        except core.Timeout:
            return None
        return st

    def run(text, bucket, how=None):
        r = R.execute(text, timeout=4)
        bad = classify(r)
        lexes = True
        ctx.count(text, nontrivial=r["status"] is not None, bucket=bucket + ("/err" if r["status"] == 1 else "/ok" if r["status"] == 0 else "/x"))
        how = how or "execute(%r)" % text
        if bad == "HANG":
            # a loaded machine must not look like a hang: confirm with a second run under five times the budget
            if not BIG.search(text) and classify(R.execute(text, timeout=20)) == "HANG":
                ctx.violation("exec-hang:" + text, text, "returns promptly", "no result within 4 s (nor within 20 s on a second run)", how)
            return r
        if bad:
            ctx.violation("exec:" + bad.split(":")[0] + ":" + text, text, "status 0 + output only, or status 1 + diagnostic only", bad, how)
        # position marker: inside the input, text before it lexically valid
        if r["status"] == 1 and "\n" in r["err"] and "\n" not in text and "\r" not in text:
            lines = r["err"].split("\n")
            if len(lines) >= 4 and lines[3].endswith("^") and lines[1] == "":
                col = len(lines[3]) - 1
                ctxline = lines[2]
                fade = 3 if ctxline.startswith(" " * interp.INDENT + "...") else 0
                # recover index: the caret column = INDENT + fade + index - low
                # find index by matching: search all candidate indexes consistent with the column
                cands = [i for i in range(len(text) + 1)
                         if interp.INDENT + (0 if max(0, i - interp.ERROR_CONTEXT_SIZE) == 0 else 3) + i - max(0, i - interp.ERROR_CONTEXT_SIZE) == col]
                ok = False
                for i in cands:
                    try:
                        with core.alarm(2):
                            toks_mod.tokenise(text[:i])
                        ok = True
                        break
                    except Exception:  # noqa
                        continue
                if not cands or not ok:
                    ctx.violation("exec-marker:" + text, text, "a marker inside the input whose prefix is lexically valid",
                                  "caret column %d, candidates %s" % (col, cands), how)
        if len(cases) < ctx.n(6000, 150000):
            st = stages(text)
            if st is not None:
                real = ("escaped " + r["escaped"]) if r["escaped"] else "done %d %s %s" % (r["status"], str(r["out"] != "").lower(), str(r["err"] != "").lower())
                cases.append(("exec " + " ".join(st), real, text))
        return r

    names = list(F.FUNCTIONS.keys())
    kinds = list(KIND_TEXT)
    funs = [nm for nm in names if re.match(r"^[A-Za-z_]\w*$", nm) and nm not in ("quit",)]
    # ---- (i) kinds x functions
    for nm in funs:
        maxar = max(len(h.sig.args) for h in F.FUNCTIONS[nm])
        for ar in range(0, min(maxar, 2) + 1):
            for ks in itertools.product(kinds, repeat=ar):
                if ctx.quick() and ar == 2 and rng.random() < 0.55:
                    continue
                args = [rng.choice(KIND_TEXT[k]) for k in ks]
                run("%s(%s)" % (nm, ", ".join(args)), "fun")
        if maxar >= 3:
            for _ in range(ctx.n(25, 400)):
                args = [rng.choice(KIND_TEXT[rng.choice(kinds)]) for _ in range(rng.choice([3, 3, 4]))]
                run("%s(%s)" % (nm, ", ".join(args)), "fun3")
        kws = sorted({k for h in F.FUNCTIONS[nm] for k in h.sig.kw_args})
        for k in kws[:4] + (["nosuchkw"] if kws else []):
            run("%s(%s%s: %s)" % (nm, "{1,2}, {3,4}, " if nm in ("line", "scatter") else ("{1,2}, " if nm == "histogram" else ("1, " if nm in ("vline", "hline") else "")),
                                  k, rng.choice(KIND_TEXT[rng.choice(kinds)])), "kw")
    for op in ["+", "-", "*", "/", "%", "^", "<", "<=", "==", "!=", ">", ">=", "in", "±", ".."]:
        for ks in itertools.product(kinds, repeat=2):
            a, b = [rng.choice(KIND_TEXT[k]) for k in ks]
            run("(%s) %s (%s)" % (a, op, b), "op")
    for k in kinds:
        for a in KIND_TEXT[k]:
            for text in ["-(%s)" % a, "+(%s)" % a, "(%s)!" % a, "(%s) m" % a, "(%s) to m" % a, "{%s}" % a, "[%s, %s]" % (a, a), "x = %s; x" % a,
                         "P(%s)" % a, "E(%s)" % a, "{x : x in %s}" % a, "{x : x in 1..3, %s}" % a, "1 < %s < 3" % a, "(%s) to K" % a]:
                run(text, "form")
    # ---- (ii) token soups, (iii) arbitrary characters
    atoms = ["1", "2.5", "1e3", "0x1f", "x", "pi", "m", "s", "kg", "sin", "(", ")", "{", "}", "[", "]", ",", ":", ";", "+", "-", "*", "/", "%", "^",
             "!", "|", "..", "<", "<=", "==", "!=", ">", ">=", "=", "to", "in", "±", "\"a\"", "#2020-01-01#", "C", "sum", "1..3", "€", "$", "μm", "#", "\""]
    for _ in range(ctx.n(1500, 120000)):
        n = rng.randrange(1, 9)
        run(rng.choice(["", " "]).join(rng.choice(atoms) for _ in range(n)), "soup")
    # leading whitespace + literals + a fault: the marker must still point into the input as given
    lits = ["\"ab\"", "\"abcdef\"", "#2020-01-01#", "\"x y z\"", "f(\"abc\", 1)", "{\"a\", \"bc\"}", "1.5", "x"]
    faults = ["?", "@", "0b12", "\"unclosed", "#unclosed", ")", "1 2", "+ *", "0x"]
    for _ in range(ctx.n(200, 3000)):
        run(rng.choice([" ", "  ", "   ", "\t", "      "]) + " ".join(rng.choice(lits) for _ in range(rng.randrange(1, 3))) + " " + rng.choice(faults), "lead-ws")
    alphabet = "0123456789abcxyzemsEXC_.+-*/%^!|<>=(){}[],:;\"# \t\n€$£¥±μ\\'&?@~`"
    for _ in range(ctx.n(1500, 120000)):
        run("".join(rng.choice(alphabet) for _ in range(rng.randrange(0, 14))), "chars")
    # instant literals whose body is a NUMBER in some spelling (a count of seconds, a Julian day, a year far out …): whatever such
    # a body means — an error today — it is a value inside the calendar or a diagnosed error, wherever the literal sits
    for pre in ["", "@", "+", "-", "@-", "@+", "T", "J", "JD", "unix:", "epoch "]:
        for nd in (1, 4, 5, 8, 10, 11, 12, 13, 14, 16, 19, 20, 25, 40):
            body = pre + str(rng.randrange(1, 10)) + "".join(rng.choice("0123456789") for _ in range(nd - 1))
            for text in ("#%s#" % body, "x = 1; #%s# + 1" % body, "#%s.5#" % body):
                run(text, "instant-number-body")
    # unknown function / variable / unit names of every length (the diagnostic for an unknown name may look for similar names:
    # whatever it does, it returns promptly), small literals only
    for ln in (4, 12, 25, 60, 90, 120, 160, 400):
        nm = "sample_standard_deviation_of_the_" + "".join(rng.choice("abcdefghijklmnopqrstuvwxyz_") for _ in range(ln))
        nm = nm[-ln:] if ln < 33 else nm[:ln]
        nm = "f" + nm.lstrip("_0123456789")
        for text in ("%s(1)" % nm, "%s" % nm, "1 %s" % nm, "1 m to %s" % nm, "%s(k: 1)" % nm):
            run(text, "long-unknown-name")
    for text in ["", " ", ";", ";;", "1;", ";1", "%", "(", ")", "1 +", "x =", "=", "1e", "1e-", "0x", "0b2", "#", "\"", "{", "[1,", "f(", "f(1,", "1..", "..1",
                 "1 to", "to m", "1 m to", "1 m |", "1 m^", "1 m^x", "1 m^1.5", "instant", "1.5e400", "2^20000", "10^5000/3", "1/(10^400) + 0.5",
                 "sample(Geometric(1))", "max(5)", "max()", "range(1,2,0)", "1" + "0" * 400 + ".0", "1" + "0" * 400 + ".5 + 1", "1" + "0" * 308 + ".0", "9" * 309 + ".9", "1" + "0" * 400 + ".5e-200", "0." + "0" * 400 + "1",
                 "#9999-366#", "#9999-999#", "#0001-000#", "#0001-001#", "#2020-366#", "#2021-366#", "#9999-W53-7#", "#0001-W01-1#", "#9999-W52-7T23:59#",
                 "x = #9999-366#; 1", "#99991231#", "#00010101T000000#", "#9999-12-31T24:00#", "#2020-02-30T10:00#", "#+2020-01-01#", "#-0001-01-01#", "#10000-01-01#",
                 "#2020-01-01T10:00:00.5#", "#2020-01-01T10:00:00,25#", "#2020-01-01T10:00Z#", "#2020-001#", "#2020-W01#",
                 "1844..6744073709551616", "x = 1..10^19", "[1, 2] / 1..10^20", "sum(5..10^30)", "range(1e16, 1e16+4, 0.5)", "range(10^16, 10^16+4, 0.5)", "range(1.0e16, 1.0e16+2, 0.25)",
                 "range(2^53, 2^53+8, 0.5)", "range(1e300, 1e300*2, 1)", "range(0.1, 0.2, 1e-18)", "size(range(2251799813685248.5, 2251799813685268.5, 0.7))", "ceil(#2020-01-31#)", "#2020-01-01# + 1 ms", "log(8,-2)", "ln(1/10^400)",
                 "sin(1/1.5e-200/1.5e-200)", "x = 1/1.5e-200/1.5e-200; int(x - x)", "x = pi*1e308; x - x", "x = 2.5*1e308; x*0",
                 "#2020-01-01# + (1/1.5e-200/1.5e-200) s", "floor(pi*1e308)", "{2.5*1e308}", "1e308 miles", "[1, 1e308]*2.5",
                 "  \"ab\" ?", "  \"abcdef\" \"ghi\"", "      \"abcdef\" + 0b12", "  #2020-01-01# ?", "   f(\"abc\", \"de\", ?)", "\t \"x y\" @", "   1 + ?",
                 "5!/(0*4!)", "1/(0*3!)", "(2/2)/(0*4!)", "x = 1/(0*3!); 5", "y = 0*4!; 1/y", "0/(0*5!)", "3! m", "{3!}", "P(Binomial(10,.3) < 2.5)", "#2020-13-01#", "#2020-02-30#", "#abc#", "#2020-01-01T25:00#", "1 kdegC",
                 "1 degC^2", "1 degC m", "(1 m) m", "5 to m", "x", "f(1)", "sin(1, 2)", "sin(x: 1)", "options(grid: \"a\")", "options(nosuch: 1)",
                 "1 < 2 < 3 < 4", "1 > 2 < 3", "1 <= 2 > 3", "{1 : 2}", "{x : x in 5}", "{x : x in 1..3, 2}", "a = b = 1", "1 = 1", "1 in 2",
                 "1 ± \"a\"", "[2,1]", "[1,2]^0.5", "[-1,1]^-1", "sqrt([-1,1])", "ln([0,1])", "0^-1", "0.0^-1", "(-8)^(1/3)", "1e308*10", "1e308+1e308",
                 "mean({})", "median({})", "min({})", "max({})", "sum({})", "prod({})", "size({})", "1/0", "1%0", "1.5%0", "0/0", "(1/2)/0", "1 m / 0",
                 "1 m / 0 s", "sqrt(-1)", "sqrt(-1 m)", "ln(0)", "log2(-1)", "tan(1e308)", "sin(10^400)", "float(10^400)", "int(1e308)", "round(1e308)",
                 "Binomial(0, .5)", "Binomial(5, 2)", "Poisson(0)", "Poisson(1.5)", "Geometric(0)", "Bernoulli(-1)", "UniformInt(3,1)", "Exponential(0)",
                 "Uniform(2,1)", "Gaussian(0,0)", "P(1)", "E(1)", "sample(1)", "sample(Poisson(3), -1)", "sample(Poisson(3), 1.5)", "seed(1.5)", "seed(\"a\")",
                 "year(1)", "floor(\"a\")", "\"a\" + \"b\"", "\"a\" == \"a\"", "#2020-01-01# + 10^30", "#2020-01-01# - 10^30 s", "#2020-01-01# + 1e300 s",
                 "#2020-01-01# + 1 m", "#0001-01-01# - 1", "#9999-12-31# + 1", "ceil(#9999-12-31#)", "#2020-01-01T00:00+01:00# < #2020-01-01#"]:
        run(text, "corpus")
    # ---- (iii') structurally deep inputs: nesting and chain lengths around and far beyond the host's recursion limit
    for depth in [10, 40, 65, 69, 70, 71, 100, 400] + ([150, 1000, 5000] if not ctx.quick() else [3000]):
        for opener, closer, core_ in [("(", ")", "1"), ("{", "}", "1"), ("[", ", 2]", "1"), ("sin(", ")", "1"), ("abs(", ")", "0-1"), ("{x : x in ", "}", "1..2"),
                                      ("(1+", ")", "1"), ("2*(", ")", "3 m"), ("max(1, ", ")", "2"), ("-(", ")", "1")]:
            run(opener * depth + core_ + closer * depth, "depth/%s" % opener.strip())
        for chain in ["+".join(["1"] * (depth * 15)), "*".join(["2"] * (depth * 15)), "1" + "!" * depth, "-" * depth + "1", "1" + " m" * depth,
                      "x=1;" * depth + "x", ";".join(["1"] * (depth * 10)), "{" + ", ".join(["1"] * (depth * 10)) + "}", "1 < " * depth + "2",
                      "2" + "^2" * min(depth, 12), "(" * depth, ")" * depth, "(" * depth + "1", "1" + ")" * depth, "{" * depth + "1" + "}" * (depth - 1)]:
            run(chain, "depth/chain")
    # ---- (iii'') the plotting functions with the REAL plotting library (the rest of this check stubs it): one subprocess,
    # Agg backend; skipped with a note when matplotlib cannot be imported there
    probe = r'''
import io, json, sys
try:
    import matplotlib
    matplotlib.use("Agg")
    import matplotlib.pyplot
except Exception as e:
    print("PLOTPROBE " + json.dumps(dict(skip=type(e).__name__)))
    sys.exit(0)
from ka.interpret import execute
from ka.eval import EvalEnvironment
res = []
for t in json.loads(sys.argv[1]):
    o, e = io.StringIO(), io.StringIO()
    try:
        rc = execute(t, EvalEnvironment(), out=o, errout=e)
        res.append([t, rc, o.getvalue(), e.getvalue()[:200], None])
    except BaseException as ex:
        res.append([t, None, o.getvalue(), e.getvalue()[:200], type(ex).__name__])
print("PLOTPROBE " + json.dumps(dict(results=res)))
'''
    plot_inputs = ["plot(line({1,2},{1}))", "line({1,2},{1})", "scatter({1},{1,2})", "plot(scatter({1},{1,2}), options(grid: 1))", "plot(line({1,2},{1,3}))",
                   "histogram({})", "histogram({1,2,2,3})", "plot()", "line({1,2},{3,4}, colour: \"nosuchcolour\")", "plot(hline(1), vline(2), text(1, 1, \"a\"))",
                   "line({1 m, 2 m},{1,2})", "plot(line({1,2},{\"a\",\"b\"}))", "scatter({1,2},{1,2}, size: -1)", "histogram({1,2}, num_bins: 0)"]
    import subprocess, tempfile as _tf, shutil as _sh
    ph = _tf.mkdtemp(prefix="c06plot-")
    try:
        penv = dict(os.environ, HOME=ph, PYTHONPATH=os.path.join(core.REPO, "src"), MPLBACKEND="Agg", MPLCONFIGDIR=ph)
        pp = subprocess.run([sys.executable, "-c", probe, json.dumps(plot_inputs)], stdout=subprocess.PIPE, stderr=subprocess.PIPE, env=penv, timeout=300, cwd=ph)
        line_ = next((l for l in pp.stdout.decode("utf-8", "replace").split("\n") if l.startswith("PLOTPROBE ")), None)
        pr = json.loads(line_[10:]) if line_ else dict(skip="no answer: " + pp.stderr.decode("utf-8", "replace")[-200:])
    except Exception as e:  # noqa
        pr = dict(skip=type(e).__name__)
    finally:
        _sh.rmtree(ph, ignore_errors=True)
    if "skip" in pr:
        ctx.notes.append("real-matplotlib probe skipped: %s" % pr["skip"])
    else:
        for t, rc_, out_, err_, esc_ in pr["results"]:
            ctx.count("plotprobe:" + t, bucket="plotting with the real library")
            how = "HOME=<empty> MPLBACKEND=Agg python -c 'from ka.interpret import execute; ...' on %r" % t
            if esc_:
                ctx.violation("plot-escape", t, "status 0 or 1 (no host exception escapes)", "escaped " + esc_, how)
            elif rc_ == 0 and err_.strip():
                ctx.violation("plot-draw-error-status0", t, "status 0 with nothing on the error stream, or status 1 with nothing on the output stream",
                              "status 0, out=%r, err=%r" % (out_[:40], err_[:120]), how)
            elif rc_ == 1 and (out_.strip() or not err_.strip()):
                ctx.violation("plot-stream-discipline", t, "status 1 with a diagnostic and no output", "out=%r err=%r" % (out_[:40], err_[:80]), how)
            elif rc_ not in (0, 1):
                ctx.violation("plot-status", t, "status 0 or 1", repr(rc_), how)
    # ---- (iv) well-formed random programs
    import importlib
    sys.path.insert(0, os.path.join(core.VERIF, "harness", "props"))
    C01 = importlib.import_module("props.C01")
    for _ in range(ctx.n(300, 20000)):
        t = C01.gen_tree(rng, rng.randrange(1, 6))
        run(C01.render_min(t), "arith")
    # ---- (iv') the unified pipeline model (text -> status/output), whole programs and sessions, and the sweep's own inputs
    pipeline.check(ctx, ctx.n(1500, 20000), ctx.n(150, 2000))
    pipeline.run(ctx, [c[2] for c in rng.sample(cases, min(len(cases), ctx.n(3000, 30000)))], label="run-c06-inputs", min_modelled=0.0)
    # ---- (v) interpreter commands
    cmd_cases = []

    def cmd_out(line):
        buf, saved = io.StringIO(), sys.stdout
        sys.stdout = buf
        try:
            with core.alarm(4):
                interp.execute_interpreter_command(line)
        except BaseException:  # noqa
            return None
        finally:
            sys.stdout = saved
        return buf.getvalue()
    # what "unknown command" and "wrong number of arguments" look like is LEARNT from the code (never its wording assumed):
    # the answer to a word that is no command, and the common beginning of two different arity complaints
    unknown_txt = cmd_out("%zqxjvnosuchcommand")
    a1, a2 = cmd_out("%help surplus"), cmd_out("%unit")
    arity_prefix = os.path.commonprefix([a1, a2]) if a1 and a2 and a1 != unknown_txt and a2 != unknown_txt else None
    if arity_prefix is not None and len(arity_prefix) < 4:
        arity_prefix = None
    words_pool = ["q", "quit", "h", "help", "u", "unit", "us", "units", "cs", "currencies", "f", "function", "fs", "functions", "x", "",
                  "km", "kdegC", "degC", "nosuch", "sin", "+", "%", "m", "μm", "1", "a b",
                  # arguments that are unit SIGNATURES or expressions (also ones whose factor leaves the float range): a command that
                  # takes one word answers or says it does not know it — whatever it does with the word, nothing escapes
                  "km|h", "N|m^2", "ly^20", "pc^19", "Da^-12", "mi^100", "m|eV^17", "ly^19ly^19", "m^", "m^x", "|", "kg|", "m^1.5", "ly^99999", "degC^2",
                  "kdegF", "1/0", "10^400", "\"", "#", "{", "sin(", "C(5,2)", "x=1", "eur|ly^25", "acre^90", "2^2^2^2^2", "9" * 400]
    for _ in range(ctx.n(120, 1500)):
        ws = [rng.choice(words_pool) for _ in range(rng.choice([0, 1, 1, 2, 2, 3]))]
        line = "%" + " ".join(ws)
        out, escaped = io.StringIO(), None
        saved = sys.stdout
        sys.stdout = out
        try:
            with core.alarm(4):
                interp.execute_interpreter_command(line)
        except BaseException as e:  # noqa
            escaped = type(e).__name__
        finally:
            sys.stdout = saved
        ctx.count(line, bucket="command")
        txt = out.getvalue()
        if escaped and escaped != "ExitKaSignal":
            ctx.violation("cmd-escape:" + line, line, "a message, never an exception", escaped, "execute_interpreter_command(%r)" % line)
        words = line[1:].split()
        real = "escaped" if (escaped and escaped != "ExitKaSignal") else ("unknown" if (unknown_txt is not None and txt == unknown_txt) else
                                                                      ("arity" if (arity_prefix and txt.startswith(arity_prefix)) else "run"))
        cmd_cases.append(("execcmd " + (" ".join(words) if words else "-"), real, line))
    ctx.correspond("exec", cases)
    ctx.correspond("execcmd", cmd_cases, agree=lambda real, model, info: model.split(" ")[0] == real)
    # ---- (vi) command line: exit code = status
    sample = ["1+1", "1/0", "x", "2 m to s", "{1,2", "\"abc\"", "5!", "max()", "#2020-01-31# + 1", "3 ± 1", "", "1.5e400",
              "-1+2", "-(3!)", "-5", "-pi", "- 1", "-1/0", "-x", "-3 m", "+1", " -1", "--1", "-"]
    if not ctx.quick():
        sample += [c[2] for c in rng.sample(cases, min(120, len(cases)))]
    home = core.scratch_home()
    env = dict(os.environ, HOME=home, PYTHONPATH=os.path.join(core.REPO, "src"), MPLBACKEND="Agg")
    from concurrent.futures import ThreadPoolExecutor

    def cli(text):
        if "\x00" in text or text in ("-h", "--help"):
            return None
        try:
            p = subprocess.run([sys.executable, "-m", "ka.cli", text], env=env, stdout=subprocess.PIPE, stderr=subprocess.PIPE, text=True, timeout=60)
        except subprocess.TimeoutExpired:
            return (text, "timeout", "", "")
        return (text, p.returncode, p.stdout, p.stderr)
    with ThreadPoolExecutor(8) as ex:
        for res in ex.map(cli, sample):
            if res is None:
                continue
            text, rc, out, err = res
            r = R.execute(text, timeout=4)
            ctx.count("cli:" + text, bucket="cli")
            if "Traceback" in err or rc != r["status"]:
                if not (r["escaped"] is None and r["status"] is None):
                    ctx.violation("cli:" + text, text, "exit code = execute status %r, no traceback" % r["status"],
                                  "exit %r, stderr %s" % (rc, err[-200:]), "HOME=<empty> python -m ka.cli %r" % text)
            elif r["status"] in (0, 1) and not r["escaped"] and ((rc == 0 and err.strip()) or (rc == 1 and (out.strip() or not err.strip()))):
                # the stream discipline holds for the command line as it does for execute()
                ctx.violation("cli-streams:" + text, text, "status 0: result on stdout only; status 1: diagnostic on stderr only",
                              "exit %r, stdout %r, stderr %r" % (rc, out[-120:], err[-120:]), "HOME=<empty> python -m ka.cli %r" % text)
    # ---- (vi-a) the one-word flags of the command line with the same kind of arguments: an answer and exit 0, never a traceback
    flag_jobs = [(fl, a) for fl in ("--unit", "--function") for a in ("km", "nosuch", "km|h", "ly^20", "pc^19", "Da^-12", "m^", "kdegC", "1/0", "sin", "+", "mi^100")]

    def flag(job):
        fl, a = job
        try:
            p = subprocess.run([sys.executable, "-m", "ka.cli", fl, a], env=env, stdout=subprocess.PIPE, stderr=subprocess.PIPE, text=True, timeout=60, stdin=subprocess.DEVNULL)
            return job, p.returncode, p.stdout, p.stderr
        except subprocess.TimeoutExpired:
            return job, "timeout", "", ""
    with ThreadPoolExecutor(8) as ex:
        for (fl, a), rc, out, err in ex.map(flag, flag_jobs):
            ctx.count("cli-flag:%s %s" % (fl, a), bucket="cli-flags")
            if "Traceback" in err or rc == "timeout":
                ctx.violation("cli-flag:%s %s" % (fl, a), "%s %s" % (fl, a), "an answer, no traceback", "exit %r, stderr %s" % (rc, err[-200:]),
                              "HOME=<empty> python -m ka.cli %s %r" % (fl, a))
    # ---- (vi-b) the same through a script file: `ka --script f` evaluates the file's text; its exit code is that status
    sdir = os.path.join(home, "scripts")
    os.makedirs(sdir, exist_ok=True)
    scripts = ["1+1", "1/0", "x = 2; x^10", "x = 2; y", "{1,2", "2 m to s", "1.5e400", "", "a = 3; a!; a/0", "5 kg to g"]
    if not ctx.quick():
        scripts += [c[2] for c in rng.sample(cases, min(40, len(cases))) if "\x00" not in c[2]]

    def script(it):
        i, text = it
        path = os.path.join(sdir, "s%d.ka" % i)
        try:
            with open(path, "w", encoding="utf-8", newline="") as f:
                f.write(text)
            back = open(path, "r").read()
        except (OSError, UnicodeError):
            return None
        if back != text:            # universal newlines / undecodable text: the file does not hold this input
            return None
        try:
            p = subprocess.run([sys.executable, "-m", "ka.cli", "--script", path], env=env, stdout=subprocess.PIPE, stderr=subprocess.PIPE, text=True, timeout=60)
        except subprocess.TimeoutExpired:
            return (text, "timeout", "", "")
        return (text, p.returncode, p.stdout, p.stderr)
    with ThreadPoolExecutor(8) as ex:
        for res in ex.map(script, list(enumerate(scripts))):
            if res is None:
                continue
            text, rc, out, err = res
            r = R.execute(text, timeout=4)
            ctx.count("script:" + text, bucket="cli-script")
            if r["escaped"] is None and r["status"] is None:
                continue
            if "Traceback" in err or rc != r["status"]:
                ctx.violation("cli-script:" + text, text, "exit code = execute status %r, no traceback" % r["status"],
                              "exit %r, stderr %s" % (rc, err[-200:]), "HOME=<empty> python -m ka.cli --script <file holding %r>" % text)


# ---- refinement lemmas of the unified pipeline model for this property (Props/Pipeline2.lean): the fragment this check's
# theorems are about IS what the whole-program model computes on the fragment's sub-language
import pipeline as _pl
LEAN_MODULES = LEAN_MODULES + [m for m in _pl.LEAN_MODULES2 if m not in LEAN_MODULES]
THEOREMS = THEOREMS + [t for t in _pl.THEOREMS2.get(ID, []) if t not in THEOREMS]
GEN = GEN + [g for g in _pl.GEN if g not in GEN]


# ---- refinement lemmas of the unified pipeline model for this property (Props/Pipeline3.lean): the fragment this check's
# theorems are about IS what the whole-program model computes on instant / probability expressions
import pipeline as _pl3
LEAN_MODULES = LEAN_MODULES + [m for m in _pl3.LEAN_MODULES3 if m not in LEAN_MODULES]
THEOREMS = THEOREMS + [t for t in _pl3.THEOREMS3.get(ID, []) if t not in THEOREMS]
GEN = GEN + [g for g in _pl3.GEN3 if g not in GEN]
