"""C19 — optional per-user files (config, history, currency table) fail soft."""
import os, sys, io, math, json, re, time, shutil, tempfile, subprocess, itertools, unicodedata
from fractions import Fraction
from concurrent.futures import ThreadPoolExecutor
import core

ID = "C19"
LEAN_MODULES = ["KaVerif.Props.C19"]
GEN = ["Caught", "ConfigProps", "CurrencyData"]
THEOREMS = ["KaVerif.C19_config_total", "KaVerif.C19_config_last_valid_line", "KaVerif.C19_config_partial",
            "KaVerif.C19_config_separator", "KaVerif.C19_config_reread", "KaVerif.C19_currency_load_total",
            "KaVerif.C19_registration_total", "KaVerif.C19_startup", "KaVerif.C19_history_never_blocks_exit",
            "KaVerif.C19_base_currency_fallback", "KaVerif.C19_default_table", "KaVerif.C19_tables_current"]
RULE = ("(a) in-process: read_config on generated config files (valid lines for every ConfigProperty, 0/2/3 separators, "
        "wrongly typed values, unknown keys, exotic whitespace, CR/LF/CRLF, invalid UTF-8, NUL, BOM, 30k-line files) and "
        "parse_currency_data on generated tables (every float() spelling incl. inf/nan/underscores/non-ASCII digits/"
        "overflow/underflow, short rows, blank rows) — real result vs the Lean model, and vs the settings the generator "
        "intended (oracle); registration of generated clash-prone tables in a subprocess vs the model; "
        "(b) fault enumeration with subprocesses: HOME prepared with each of the three files in every state "
        "(missing, empty, directory, dangling symlink, parent is a regular file, opens-but-unreadable, random bytes, valid, "
        "valid with bad lines, out-of-range values, CRLF, huge, NUL, clash rows, no-eur table ...) singly and in random "
        "combinations (thorough: full product); `python -m ka.cli '{7 usd to eur, pi}'` and a piped interpreter session; "
        "observed exit code / traceback / warnings / effective precision, prompt, table, saved history vs the model's "
        "startup+save_history and vs the effect each state was built to have; non-trivial = at least one file is not missing; "
        "distinct = distinct file content / state triple")
ASSUMPTIONS = ["the checks run as root: permission-denied states cannot be produced with chmod, so `unopenable` (open raises "
               "PermissionError) is covered by the theorems and by the generated handler table only; `opens but cannot be read` is "
               "produced with a symlink to /proc/self/mem",
               "text files are decoded as UTF-8 (CPython UTF-8 mode / UTF-8 locale; subprocesses run with PYTHONUTF8=1)",
               "the operating system's answers (exists/open/read/write/makedirs outcomes) are inputs of the model, enumerated not proved",
               "float() rounding inside the finite range is not modelled (model keeps the exact decimal; compared via float(Fraction))"]
LEVEL_TEXT = ("Machine-checked proof (Lean 4) over an executable model of read_config, parse_currency_data, load_currency_data, "
              "load_history, readline_load_history, save_history, the base-currency selection, the registration loop with "
              "register_unit's assertions and the start-up order of cli.main, with the try/except structure (which call sites are "
              "protected by which exception classes), the ConfigProperties table and the currency constants regenerated from the "
              "source on every run: read_config is total, the last valid line of a key decides it whatever the other lines are, a "
              "value keeps its '=' characters, start-up reaches `running` for all 5^3 file-state shapes and all byte contents with "
              "defaults for what could not be read and only warnings as output, save_history returns for every OS answer, the "
              "base currency falls back to eur or to no cash dimension, the built-in table parses and contains eur (kernel-evaluated). "
              "The hand-written model is tied to the code by differential correspondence in-process and by a subprocess fault "
              "enumeration of real HOME directories.")
LEVEL_NOTE = ("Partial by nature: the file system and CPython (decoder, float(), readline, print) are inputs of the model; their "
              "behaviour is enumerated by the subprocess runs, not proved. KeyboardInterrupt/SystemExit during a handler are out of scope.")
TECHNIQUE = "Lean 4: generated handler table + total model + induction over lines/rows; in-process correspondence; subprocess fault enumeration"

SPACES = [9, 10, 11, 12, 13, 28, 29, 30, 31, 32, 133, 160, 5760, 8192, 8232, 8233, 8239, 8287, 12288]


def dots(s):
    return ".".join(str(ord(c)) for c in s)


def hexs(b):
    return b.hex() or "-"


# ----------------------------------------------------------------------------------------------
# (a) read_config, in-process
# ----------------------------------------------------------------------------------------------
def real_read_config(C, data, tmp):
    path = os.path.join(tmp, "cfgfile")
    with open(path, "wb") as f:
        f.write(data)
    saved = dict(C.CONFIG)
    C.CONFIG.clear()
    err = io.StringIO()
    try:
        with core.alarm(20):
            C.read_config(path, error_out=err)
        cfg = dict(C.CONFIG)
        res = ("ok", cfg, err.getvalue())
    except BaseException as e:  # noqa
        if isinstance(e, (KeyboardInterrupt, SystemExit)):
            raise
        res = ("crash", type(e).__name__, err.getvalue())
    finally:
        C.CONFIG.clear()
        C.CONFIG.update(saved)
        C.HAVE_READ = True
    return res


WARN_PREFIX = {"I": "WARNING: expecting integer", "B": "WARNING: expecting boolean", "U": "WARNING: unknown config variable",
               "O": "WARNING: could not open", "R": "WARNING: could not read"}


def _nodigits(t):
    """line numbers and the like do not tell warnings apart"""
    return re.sub(r"[0-9]+", "#", t)


def learn_cfg_warnings(C, tmp):
    """What the three per-line warnings look like is learnt from the code (probe files), so that rewording a message does not
    change which KIND of warning a line is counted as."""
    probes = {"I": (b"precision=qzq7\n", ("precision", "qzq7")), "B": (b"save-history=qzq7\n", ("save-history", "qzq7")),
              "U": (b"qzq7=1\n", ("qzq7",))}
    learnt = {}
    for kind, (data, marks) in probes.items():
        res = real_read_config(C, data, tmp)
        lines = [l for l in (res[2] if res[0] == "ok" else "").split("\n") if l]
        if len(lines) != 1:
            return
        cut = min([lines[0].index(m) for m in marks if m in lines[0]] or [0])
        if cut < 8:
            return
        learnt[kind] = _nodigits(lines[0][:cut])
    if len(set(learnt.values())) == 3 and not any(a != b and a.startswith(b) for a in learnt.values() for b in learnt.values()):
        WARN_PREFIX.update(learnt)


def same_settings(got, want):
    """every valid line took effect.  A location option may be delivered as a path object or with `~` expanded / the path
    normalised (the property speaks about the setting taking effect, not about its Python representation)."""
    if got == want:
        return True
    if set(got) != set(want):
        return False
    for k in want:
        g, w = got[k], want[k]
        if g == w and type(g) is type(w):
            continue
        if k.endswith("path") and isinstance(w, str) and w and isinstance(g, (str, os.PathLike)):
            if os.path.normpath(os.path.expanduser(os.fspath(g))) == os.path.normpath(os.path.expanduser(w)):
                continue
        return False
    return True


def canon_cfg(cfg, errtext):
    items = []
    for k, v in cfg.items():
        if isinstance(v, bool):
            t = "b1" if v else "b0"
        elif isinstance(v, int):
            t = "i%d" % v
        else:
            t = "s" + dots(v if isinstance(v, str) else str(v))
        items.append(dots(k) + "=" + t)
    kinds = []
    for line in errtext.split("\n")[:-1]:
        k_ = next((k for k in "IBUOR" if _nodigits(line).startswith(_nodigits(WARN_PREFIX[k]))), None)
        if k_:
            kinds.append(k_)
        else:
            kinds.append("?")
    return ";".join(items) + "|" + ",".join(kinds)


def ws(rng, exotic=True):
    n = rng.choice([0, 0, 0, 1, 1, 2, 3])
    pool = [32, 32, 9] + ([11, 12, 28, 31, 133, 160, 8232, 12288, 5760] if exotic else [])
    return "".join(chr(rng.choice(pool)) for _ in range(n))


INT_GOOD = [("3", 3), ("0", 0), ("12", 12), ("+7", 7), ("-4", -4), ("1_0", 10), ("007", 7), ("-0", 0), ("٣", 3), ("１２", 12),
            ("1_2_3", 123), ("99999999999999999999999", 99999999999999999999999), ("৪2", 42)]
INT_BAD = ["", "abc", "3.5", "1e3", "0x10", "_1", "1_", "1__2", "+", "-", "--1", "+-1", "1 2", "٣_", "²", "1\x002", "12a", "true", "½"]
BOOL_BAD = ["True", "TRUE", "1", "0", "yes", "", "tru", "fa lse", "falsee", "t r u e"]
STR_VALS = [">>>", "ka>", "a=b", "=", "==x==", "Ctrl+Up", "/tmp/x y/z", "héllo ☃", "x" * 300, "a\tb", "a b  c", "#c", "\U0001F600", "a\x00b",
            "usd", "eur", "€", "", "~qzqnouser", "~qzqnouser/hist", "~", "~/x", "$HOME/x", "${X", "%s %d", "{0}", "\\", "..", "/", "//x//", "x/", "C:\\x"]


def gen_config_file(rng, props, big=False):
    """Returns (bytes, expected dict).  Items: valid settings and junk that is certainly not a setting."""
    names = [p.name for p in props]
    byname = {p.name: p for p in props}
    lines, expect = [], {}
    n = rng.choice([0, 1, 2, 3, 5, 8, 13]) if not big else rng.randrange(20000, 32000)
    nl = rng.choice(["\n", "\n", "\n", "\r\n", "\r", "mixed"])
    for _ in range(n):
        r = rng.random() if not big else rng.random() * 0.5 + (0.5 if rng.random() < 0.995 else 0)
        if r < 0.5:      # a valid setting
            k = rng.choice(names)
            p = byname[k]
            if p.num:
                txt, val = rng.choice(INT_GOOD)
            elif p.boolean:
                txt = rng.choice(["true", "false"])
                val = txt == "true"
            else:
                txt = rng.choice(STR_VALS)
                val = txt.strip()
                txt = val
            lines.append(ws(rng) + k + ws(rng) + "=" + ws(rng) + txt + ws(rng))
            expect[k] = val
        elif r < 0.62:   # wrongly typed
            k = rng.choice([p.name for p in props if p.num or p.boolean])
            bad = rng.choice(INT_BAD if byname[k].num else BOOL_BAD)
            lines.append(k + ws(rng, False) + "=" + bad)
        elif r < 0.72:   # unknown key
            # (no case variants of real option names: whether `Precision` is the option `precision` is a choice the property leaves open)
            k = rng.choice(["foo", "qzq-option", "precision2", "prec ision", "", "pre­cision", "﻿precision", "prompt\x00", "=x"][:8])
            lines.append(k + "=" + rng.choice(["1", "true", "x=y", ""]))
        elif r < 0.84:   # no separator
            lines.append(rng.choice(["", "   ", "precision", "precision 3", "# comment", "prompt: x", "\x0b", "[section]", "precision "]))
        else:            # garbage without '=' and line ends
            lines.append("\x00GARBAGE%d\x01" % rng.randrange(1000))
    out = b""
    for i, l in enumerate(lines):
        e = nl if nl != "mixed" else rng.choice(["\n", "\r\n", "\r"])
        out += l.encode("utf-8", "surrogatepass")
        if "GARBAGE" in l:
            out += bytes(rng.choice([b for b in range(128, 256)]) for _ in range(rng.randrange(1, 6)))
        if i < len(lines) - 1 or rng.random() < 0.7:
            out += e.encode()
    return out, expect


def gen_config_raw(rng):
    """Arbitrary bytes biased to the interesting alphabet; the expectation comes from the model only."""
    pool = [b"precision", b"prompt", b"save-history", b"base-currency", b"=", b"=", b"\n", b"\r", b"\r\n", b" ", b"\t", b"true", b"false",
            b"3", b"-1", b"_", b"\xff", b"\xc3", b"\xe2\x82", b"\xe2\x82\xac", b"\xf0\x9f", b"\xed\xa0\x80", b"\xc0\xaf", b"\xf4\x90\x80\x80",
            b"\x00", b"\x0b", b"\x0c", b"\x1c", b"\xc2\x85", b"\xc2\xa0", b"\xe2\x80\xa8", b"\xe3\x80\x80", b"x", b"\xd9\xa3", b"\xef\xbb\xbf",
            b"\xe0\x80", b"\xf0\x80\x80", b"\xe0\xa0", b"\xf1\x80\x80", b"\xf8", b"\x80"]
    return b"".join(rng.choice(pool) for _ in range(rng.choice([1, 2, 3, 5, 8, 13, 21, 40])))


# ----------------------------------------------------------------------------------------------
# (a) parse_currency_data, in-process
# ----------------------------------------------------------------------------------------------
RATE_TXT = ["1", "1.0", "0.5", "2", "157.2281737816283", "1.080078396710183e-05", "3.6725", "1e3", "1E-3", "+2.5", "-1", "0", "-0.0", ".5", "5.",
            "1_000.5", "1_0e1_0", "inf", "-inf", "Infinity", "+INF", "nan", "-NaN", "  7  ", "\t8\n", "٣.٥", "１e２", "1e400", "-1e400", "1e-400",
            "4.9e-324", "2.4e-324", "2.5e-324", "2.4703282292062328e-324", "1.7976931348623157e308", "1.7976931348623159e308", "1.8e308",
            "179769313486231580793728971405303415079934132710037826936173778980444968292764750946649017977587207096330286416692887910946555547851940402630657488671505820681908902000708383676273854845817711531764475730270069855571366959622842914819860834936475292719074168444365510704342711559699508093042880177904174497791.999",
            "0.30000000000000004", "123456789012345678901234567890", "1e22", "1e23", "0.1e-5", "000.100"]
RATE_BAD = ["", "abc", "1,5x", "0x10", "1e", "e5", "--1", "1__0", "_1", "1_", ".", "1._0", "1_.0", "1e_5", "in f", "infinit", "nan0", "1 2", "1.2.3",
            "+", "-", "1e+", "٣_", "½", "1\x000"]


def gen_currency_text(rng):
    n = rng.choice([0, 1, 2, 3, 4, 6, 10])
    rows = []
    for _ in range(n):
        r = rng.random()
        sym = rng.choice(["usd", "eur", "gbp", "jpy", "btc", "x", "", " a ", "m", "é"])
        name = rng.choice(["usdollar", "euro", "pound", "yen", "", "a b", "näme"])
        if r < 0.62:
            rows.append(",".join([sym, name, rng.choice(RATE_TXT)] + (["extra", "1"][:rng.randrange(0, 3)])))
        elif r < 0.72:
            rows.append(",".join([sym, name, rng.choice(RATE_BAD)]))
        elif r < 0.80:
            rows.append(rng.choice([sym, sym + "," + name, ",", "x"]))
        else:
            rows.append(rng.choice(["", " ", "\t", "\x0b\x0c", "　", "\r"]))
    sep = rng.choice(["\n", "\n", "\n", "\r\n"])
    return sep.join(rows) + rng.choice(["", "\n", "\n\n", sep])


def rate_agree(real, model):
    """real: Python float; model: 'fin:n/d' | 'inf' | '-inf' | 'nan'"""
    if real != real:
        return model == "nan"
    if math.isinf(real):
        return model == ("inf" if real > 0 else "-inf")
    if not model.startswith("fin:"):
        return False
    n, d = model[4:].split("/")
    return float(Fraction(int(n), int(d))) == real


# ----------------------------------------------------------------------------------------------
# subprocess helpers
# ----------------------------------------------------------------------------------------------
def sub_env(home):
    env = dict(os.environ, HOME=home, PYTHONPATH=os.path.join(core.REPO, "src"), MPLBACKEND="Agg", PYTHONUTF8="1")
    return env


def run_py(home, argv, stdin=None, timeout=60):
    try:
        p = subprocess.run([sys.executable] + argv, input=stdin, stdout=subprocess.PIPE, stderr=subprocess.PIPE,
                           env=sub_env(home), timeout=timeout, cwd=home)
        return p.returncode, p.stdout.decode("utf-8", "replace"), p.stderr.decode("utf-8", "replace")
    except subprocess.TimeoutExpired:
        return -9, "", "TIMEOUT"


MSG = {"currency": "Failed to parse currency data", "load": "Failed to load history", "save": "Failed to save history"}


def learn_warnings(root):
    """How the three soft-fail warnings start is learnt from three probe runs (a damaged currency table; a directory in place
    of the history file), so that rewording them does not change what is counted as which warning."""
    def first_line_prefix(err, home):
        lines = [l for l in err.split("\n") if l.strip()]
        if len(lines) < 1 or "Traceback" in err:
            return None
        # up to the first ':' / path / quote that comes after a few words (a leading "WARNING:" tag is part of the prefix)
        cuts = [lines[0].find(m, 12) for m in (home, ".config", "'/", '"/', ":", ",")]
        cut = min([c for c in cuts if c >= 12] or [len(lines[0])])
        return lines[0][:cut] if cut >= 10 else None
    try:
        home = os.path.join(root, "learn-cur")
        os.makedirs(os.path.join(home, ".config", "ka"))
        open(os.path.join(home, ".config", "ka", "currency"), "w").write("usd,usdollar,1\nxyz,xyzname,notanumber\n")
        rc, out, err = run_py(home, ["-m", "ka.cli", "1 m"])
        pc = first_line_prefix(err, home) if rc == 0 else None
        home = os.path.join(root, "learn-cur2")
        os.makedirs(os.path.join(home, ".config", "ka", "currency"))           # a directory in place of the table
        rc, out, err = run_py(home, ["-m", "ka.cli", "1 m"])
        pc2 = first_line_prefix(err, home) if rc == 0 else None
        shutil.rmtree(home, ignore_errors=True)
        home = os.path.join(root, "learn-hist")
        os.makedirs(os.path.join(home, ".config", "ka", "history"))
        rc, out, err = run_py(home, ["-m", "ka.cli"], stdin=b"1+1\n%q\n")
        lines = [l for l in err.split("\n") if l.strip()]
        pl = ps = None
        if rc == 0 and len(lines) == 2 and "Traceback" not in err:
            pl, ps = (first_line_prefix(l, home) for l in lines)
        if pc and pl and ps and len({pc, pl, ps}) == 3:
            MSG.update(currency=tuple(sorted({pc, pc2 or pc})), load=pl, save=ps)
    except Exception:  # noqa: keep the documented wording
        pass
    finally:
        shutil.rmtree(os.path.join(root, "learn-cur"), ignore_errors=True)
        shutil.rmtree(os.path.join(root, "learn-hist"), ignore_errors=True)


# one input per displayable kind (every display routine reads the precision option in its own way)
KINDS_INPUTS = ["2.5", "1/3", "-7/3", "10^20", "2.5 m", "(1/3) kg", "{0.5, 1/3, 2}", "[0.1, 0.25]", "#2020-01-01T10:00:00.5#", "\"text\"", "Uniform(0.5, 1)",
                "X = Gaussian(0, 1.5)", "{Bernoulli(0.5)}", "Uniform(0, 1) < 0.5", "0.25 < Exponential(0.5) < 0.75", "Binomial(10, 0.3)", "Poisson(2.5) = 1",
                "5!", "{3!, 0.1}", "1e-7 + 0.0", "123456789.123", "1 m|s", "sqrt(2)", "pi", "%u m", "%f sin"]
KINDS_SESSION = ("\n".join(KINDS_INPUTS) + "\n%q\n").encode()


REG_SNIPPET = ("import json, ka.units as u\n"
               "print('REG ' + json.dumps([[x.symbol, x.singular_name, float(x.multiple)] for x in u.UNITS if 'cash' in x.quantities]))\n")


# ----------------------------------------------------------------------------------------------
# (b) fault enumeration: file states
# ----------------------------------------------------------------------------------------------
T1 = {"eur": 2.0, "usd": 1.0, "gbp": 0.5, "jpy": 100.0, "btc": 1e-05}
T1_TEXT = "usd,usdollar,1.0\neur,euro,2.0\ngbp,britishpound,0.5\njpy,japaneseyen,100.0\nbtc,bitcoin,1e-05\n"


class St:
    """one state of one of the three files"""

    def __init__(self, name, kind, data=None, effect=None, model=None):
        self.name, self.kind, self.data = name, kind, data   # kind: missing|dir|dangling|unreadable|bytes|parentfile
        self.effect = effect or {}
        self._model = model

    def build(self, path, home):
        k = self.kind
        if k == "missing":
            return
        if k == "parentfile":     # the parent directory of the path is a regular file
            return
        os.makedirs(os.path.dirname(path), exist_ok=True)
        if k == "dir":
            os.makedirs(path)
        elif k == "dangling":
            os.symlink(os.path.join(home, "no-such-target-" + os.path.basename(path)), path)
        elif k == "unreadable":
            os.symlink("/proc/self/mem", path)
        elif k == "bytes":
            with open(path, "wb") as f:
                f.write(self.data)

    def model(self):
        k = self.kind
        if k in ("missing", "dangling", "parentfile"):
            return "M"
        if k == "dir":
            return "D"
        if k == "unreadable":
            return "R"
        return "B" + hexs(self.data)


def config_states(rng, home_token="@HOME@"):
    big = b"".join(b"junk line %d\n" % i for i in range(2500)) + b"precision=5\n" + b"".join(b"x%d=1\n" % i for i in range(2500))
    S = [
        St("missing", "missing"), St("empty", "bytes", b""), St("dir", "dir"), St("dangling", "dangling"),
        St("unreadable", "unreadable"),
        St("random", "bytes", bytes(rng.choice([b for b in range(256) if b not in (10, 13, 61)]) for _ in range(300))),
        St("valid", "bytes", b"precision=3\nprompt=ka>\n", dict(precision=3, prompt="ka>")),
        St("valid+bad", "bytes", "garbage line\nprecision=3\n=\n===\nfoo=bar\nprecision=abc\nsave-history=maybe\nprompt=a=b\n".encode() + b"\xff\xfe\x00\n",
           dict(precision=3, prompt="a=b")),
        St("crlf", "bytes", b"precision=4\r\nprompt=x>\r\n", dict(precision=4, prompt="x>")),
        St("wrongtypes", "bytes", b"precision=3.5\nsave-history=1\nfont-size=big\n"),
        St("precision-neg", "bytes", b"precision=-5\n", dict(precision=-5)),
        St("precision-huge", "bytes", b"precision=100000000000\n", dict(precision=100000000000)),
        St("precision-0", "bytes", b"precision=0\n", dict(precision=0)),
        St("base-usd", "bytes", b"base-currency=usd\n", dict(base="usd")),
        St("base-absent", "bytes", b"base-currency=zzz\n", dict(base="zzz")),
        St("nosave", "bytes", b"save-history=false\n", dict(save=False)),
        St("base-own", "bytes", b"base-currency=qzq\n", dict(base="qzq")),
        St("base-caps", "bytes", b"base-currency=USD\n", dict(base="USD")),      # a currency only the user's table knows
        St("huge", "bytes", big, dict(precision=5)),
        St("spaces", "bytes", " \tprecision 　=\x0b 7 \x0c\n".encode(), dict(precision=7)),
        St("unidigits", "bytes", "precision=٣\n".encode(), dict(precision=3)),
        St("override", "bytes", b"precision=9\nprecision=2\nprecision=x\n", dict(precision=2)),
        St("bom", "bytes", b"\xef\xbb\xbfprecision=3\nprompt=p>\n", dict(prompt="p>")),
        St("nonl", "bytes", b"prompt=q>", dict(prompt="q>")),
    ]
    return S


def history_states(rng):
    return [
        St("missing", "missing"), St("empty", "bytes", b""), St("dir", "dir"), St("dangling", "dangling"), St("unreadable", "unreadable"),
        St("random", "bytes", bytes([0xff, 0xfe, 0x80]) + bytes(rng.randrange(256) for _ in range(200)) + b"\xc3"),
        St("valid", "bytes", b"1+2\n3*4\n\n  x = 5  \n"),
        St("nul", "bytes", b"abc\x00def\nok\n"),
        St("crlf", "bytes", b"1+2\r\n3*4\r\n"),
        St("huge", "bytes", b"".join(b"%d+1\n" % i for i in range(6000))),
        St("parentfile", "parentfile"),
    ]


def currency_states(rng):
    return [
        St("missing", "missing"), St("empty", "bytes", b""), St("dir", "dir"), St("dangling", "dangling"), St("unreadable", "unreadable"),
        St("random", "bytes", bytes([0xff, 0x80]) + bytes(rng.randrange(256) for _ in range(200)) + b"\xe2\x82"),
        St("valid", "bytes", T1_TEXT.encode(), dict(table=T1)),
        St("valid-blank", "bytes", ("\n" + T1_TEXT + "\n  \n\n").encode(), dict(table=T1)),
        St("valid-crlf", "bytes", T1_TEXT.replace("\n", "\r\n").encode(), dict(table=T1)),
        St("valid-nonl", "bytes", T1_TEXT.rstrip("\n").encode(), dict(table=T1)),
        St("short-row", "bytes", (T1_TEXT + "xyz,onlytwo\n").encode()),
        St("bad-float", "bytes", (T1_TEXT + "xyz,xyzname,notanumber\n").encode(), dict(warn=True)),
        St("zero-rate", "bytes", (T1_TEXT + "zed,zedcoin,0\nneg,negcoin,-3\nnnn,nancoin,nan\n").encode(), dict(table=T1)),
        St("clash", "bytes", (T1_TEXT + "xx,dollar,1\naa,foos,1\nbb,foo,1\nm,s,1\nusd,usd,1\nyy,$,3\nq,noplura,1\neur,second,5\n").encode(), dict(table=T1)),
        St("own-valid", "bytes", ("qzq,qzqcoin,4.0\n" + T1_TEXT).encode(), dict(table=dict(T1, qzq=4.0))),
        St("own-then-short-row", "bytes", ("qzq,qzqcoin,4.0\n" + T1_TEXT + "xyz,onlytwo\n").encode()),
        St("own-then-bad-float", "bytes", ("qzq,qzqcoin,4.0\n" + T1_TEXT + "xyz,xyzname,notanumber\n").encode(), dict(warn=True)),
        St("caps", "bytes", b"USD,usdollar,1\nEUR,euro,2.0\nGBP,britishpound,0.5\n", dict(table={"USD": 1.0, "EUR": 2.0, "GBP": 0.5})),
        St("caps-mixed", "bytes", b"usd,usdollar,1\nEur,euro,2.0\ngbp,britishpound,0.5\n", dict(table={"usd": 1.0, "Eur": 2.0, "gbp": 0.5})),
        St("no-eur", "bytes", b"usd,usdollar,1\ngbp,britishpound,0.5\n", dict(table={"usd": 1.0, "gbp": 0.5})),
        St("whitespace", "bytes", b" \n\t\n\x0b\n"),
        St("parentfile", "parentfile"),
    ]


def prepare_home(root, idx, cs, hs, us):
    """Builds HOME for the state triple; returns (home, effective history path, parentExists, createExn)."""
    home = os.path.join(root, "h%05d" % idx)
    os.makedirs(home)
    kadir = os.path.join(home, ".config", "ka")
    os.makedirs(kadir)
    cfg_extra = b""
    hist_path = os.path.join(kadir, "history")
    cur_path = os.path.join(kadir, "currency")
    if hs.kind == "parentfile":
        open(os.path.join(home, "afile"), "w").write("regular file\n")
        hist_path = os.path.join(home, "afile", "history")
        cfg_extra += b"history-path=" + hist_path.encode() + b"\n"
    if us.kind == "parentfile":
        open(os.path.join(home, "bfile"), "w").write("regular file\n")
        cur_path = os.path.join(home, "bfile", "currency")
        cfg_extra += b"currency-path=" + cur_path.encode() + b"\n"
    c_eff = cs
    if cfg_extra:
        if cs.kind == "bytes":
            base = cs.data if (cs.data.endswith(b"\n") or not cs.data) else cs.data + b"\n"
            c_eff = St(cs.name + "+paths", "bytes", base + cfg_extra, cs.effect)
        elif cs.kind in ("missing", "dangling"):
            c_eff = St(cs.name + "+paths", "bytes", cfg_extra, cs.effect)
        else:
            # the config cannot carry the redirect (directory / unreadable): the default paths are in effect
            hist_path = os.path.join(kadir, "history")
            cur_path = os.path.join(kadir, "currency")
            hs = St("missing", "missing") if hs.kind == "parentfile" else hs
            us = St("missing", "missing") if us.kind == "parentfile" else us
    c_eff.build(os.path.join(kadir, "config"), home)
    hs.build(hist_path, home)
    us.build(cur_path, home)
    return home, c_eff, hs, us, hist_path


def fmt_g(x, p):
    return ("{:.%dg}" % p).format(x)


def default_rates(real_currency):
    t = real_currency.parse_currency_data(real_currency.DEFAULT_CURRENCY_DATA)
    d = {}
    for c in t:
        d.setdefault(c.symbol, c.dollar_rate)
    return d


# ----------------------------------------------------------------------------------------------
def check(ctx):
    rng = ctx.rng
    R = ctx.real
    import ka.config as C
    import ka.currency as CU
    tmp = tempfile.mkdtemp(prefix="kaverif-c19-")
    try:
        _check(ctx, rng, R, C, CU, tmp)
        _odd_paths(ctx, tmp)
    finally:
        shutil.rmtree(tmp, ignore_errors=True)
        C.CONFIG.clear()
        C.HAVE_READ = True


def _odd_paths(ctx, tmp):
    """history-path / currency-path values the OS itself refuses (embedded NUL, over-long, a file as parent):
    saving history must still not prevent exit, start-up must still work — whatever exception class the OS call raises"""
    cases = [("nul-in-history-path", b"history-path = @HOME@/hist\x00ory/log\n"),
             ("nul-in-history-name", b"history-path = @HOME@/ka-hist\x00ory\n"),
             ("overlong-history-path", b"history-path = @HOME@/" + b"x" * 5000 + b"\n"),
             ("nul-in-currency-path", b"currency-path = @HOME@/cur\x00rency\n"),
             ("overlong-currency-name", b"currency-path = @HOME@/" + b"c" * 300 + b"\n"),          # ENAMETOOLONG (one component > 255)
             ("overlong-currency-path", b"currency-path = @HOME@/" + b"d/" * 2100 + b"cur\n"),      # path > PATH_MAX
             ("currency-path-under-a-file", b"currency-path = @HOME@/.config/ka/config/sub/currency\n"),   # ENOTDIR
             ("currency-path-loop", b"currency-path = @HOME@/loop/currency\n"),                     # ELOOP (symlink to itself)
             ("overlong-history-name", b"history-path = @HOME@/" + b"h" * 300 + b"\n"),
             ("history-path-under-a-file", b"history-path = @HOME@/.config/ka/config/sub/hist\n")]
    for nm, cfg in cases:
        home = os.path.join(tmp, "odd-" + nm)
        os.makedirs(os.path.join(home, ".config", "ka"))
        os.symlink("loop", os.path.join(home, "loop"))
        with open(os.path.join(home, ".config", "ka", "config"), "wb") as f:
            f.write(cfg.replace(b"@HOME@", home.encode()))
        rc, out, err = run_py(home, ["-m", "ka.cli"], stdin=b"10/4\n%q\n")
        ctx.count("odd-path:" + nm, bucket="odd-paths")
        how = "HOME with config %r; printf '10/4\\n%%q\\n' | python -m ka.cli" % cfg[:60]
        if rc != 0 or "Traceback" in err or "2 1/2" not in out:
            ctx.violation("odd-path:" + nm, nm, "exit 0, result printed, at most a warning", "exit %r, stderr %s" % (rc, err[-300:]), how)
        rc, out, err = run_py(home, ["-m", "ka.cli", "1+1"])
        if rc != 0 or "Traceback" in err or out.strip() != "2":
            ctx.violation("odd-path-oneshot:" + nm, nm, "2", "exit %r, %r %s" % (rc, out, err[-300:]), "HOME with config %r; python -m ka.cli 1+1" % cfg[:60])


def _check(ctx, rng, R, C, CU, tmp):
    po = C.ConfigProperties()
    props = [po.__getattribute__(x) for x in dir(po) if not x.startswith("_")]
    defaults = {p.name: p.default for p in props}

    # ------------------------------------------------------------------ (a1) read_config
    cases = []
    learn_cfg_warnings(C, tmp)
    n_struct = ctx.n(1200, 8000)
    n_raw = ctx.n(1200, 12000)
    files = [gen_config_file(rng, props) for _ in range(n_struct)]
    files += [gen_config_file(rng, props, big=True) for _ in range(ctx.n(1, 6))]
    files += [(gen_config_raw(rng), None) for _ in range(n_raw)]
    files += [(b"prompt=a=b", {"prompt": "a=b"}), (b"prompt = = \n", {"prompt": "="}), (b"precision=3\nprecision=\n", {"precision": 3}),
              (b"\xff\xfe=\x00\nprecision=4", {"precision": 4}), (b"", {}), (b"=", None), (b"\r", {}), (b"precision=3\rprompt=x", {"precision": 3, "prompt": "x"})]
    for data, expect in files:
        res = real_read_config(C, data, tmp)
        key = "cfg:" + core.hashlib.sha1(data).hexdigest()[:12]
        ctx.count(key, nontrivial=b"=" in data, bucket="read_config:" + ("structured" if expect is not None else "raw"))
        if res[0] == "crash":
            ctx.violation("config-crash", data.hex() if len(data) < 400 else data[:400].hex() + "...", "read_config returns (at most warnings)",
                          "raised " + res[1], "write these bytes to a file and call ka.config.read_config(path)")
            real = "crash"
        else:
            real = canon_cfg(res[1], res[2])
            if expect is not None and not same_settings(res[1], expect):
                ctx.violation("config-valid-lines", repr(data[:300]), "CONFIG == %r (every valid line takes effect, the last one per key wins, "
                              "'=' stays in the value)" % (expect,), "CONFIG == %r" % (res[1],), "ka.config.read_config on a file with these bytes")
        if len(data) < 200:
            ctx.sample(dict(read_config=repr(data), result=real))
        cases.append(("cfg " + hexs(data), real, repr(data[:120])))
    def agree_cfg(real, model, info):
        # the SETTINGS that take effect are compared exactly; which lines are warned about is compared only in so far as a line that
        # is a setting in one is a setting in the other (whether `#…` or an unknown key earns a warning is not a claim of the property)
        if real == model:
            return True
        return "|" in real and "|" in model and real.split("|")[0] == model.split("|")[0]
    ctx.correspond("cfg", cases, agree=agree_cfg)

    # ------------------------------------------------------------------ (a2) parse_currency_data
    cases = []
    texts = [gen_currency_text(rng) for _ in range(ctx.n(1500, 12000))]
    texts += ["usd,d," + t for t in RATE_TXT + RATE_BAD] + ["", "\n", "a,b", "a,b,1\n\n", CU.DEFAULT_CURRENCY_DATA, CU.DEFAULT_CURRENCY_DATA + "\n"]
    for t in texts:
        try:
            with core.alarm(20):
                r = CU.parse_currency_data(t)
            if r is None:
                real = ("none",)
            else:
                real = ("ok", [(c.symbol, c.name, c.dollar_rate) for c in r])
        except Exception as e:  # noqa
            real = ("err", type(e).__name__)
        ctx.count("cur:" + t, nontrivial="," in t, bucket="parse_currency_data:" + real[0])
        # oracle: the writer's own format must be read back (C20 states it fully); here: never anything but ValueError
        if real[0] == "err" and real[1] != "ValueError":
            ctx.violation("currency-parse-exn", t, "None, a table, or ValueError", real[1], "ka.currency.parse_currency_data(%r)" % t)
        cases.append(("curparse " + hexs(t.encode("utf-8")), real, t[:100]))

    def agree_cur(real, model, info):
        if real[0] == "none":
            return model == "none"
        if real[0] == "err":
            return model == "err valueError"
        if not model.startswith("ok "):
            return False
        rows = model[3:].split(";")
        if len(rows) != len(real[1]):
            return False
        for (s, n, x), row in zip(real[1], rows):
            ms, mn, mr = row.split(",")
            if ms != dots(s) or mn != dots(n) or not rate_agree(x, mr):
                return False
        return True
    ctx.correspond("curparse", cases, agree=agree_cur)

    # ------------------------------------------------------------------ (b) fault enumeration
    have_unreadable = False
    try:
        with open("/proc/self/mem") as f:
            f.read(1)
    except OSError:
        have_unreadable = os.path.isfile("/proc/self/mem")
    except Exception:  # noqa
        pass
    if not have_unreadable:
        ctx.assumptions.append("no /proc/self/mem here: the opens-but-unreadable state was not produced")
    CS, HS, US = config_states(rng), history_states(rng), currency_states(rng)
    if not have_unreadable:
        CS, HS, US = ([s for s in X if s.kind != "unreadable"] for X in (CS, HS, US))
    triples = []
    if ctx.quick():
        for s in CS:
            triples.append((s, HS[0], US[0]))
        for s in HS[1:]:
            triples.append((CS[0], s, US[0]))
        for s in US[1:]:
            triples.append((CS[0], HS[0], s))
        # the base-currency setting is consumed together with the table: every base setting with every table-carrying state
        for cs_ in CS:
            if "base" in cs_.effect:
                for us_ in US:
                    if us_.kind == "bytes" and us_.name not in ("empty", "random", "whitespace"):
                        triples.append((cs_, HS[0], us_))
        seen = set((a.name, b.name, c.name) for a, b, c in triples)
        while len(triples) < 130:
            t = (rng.choice(CS), rng.choice(HS), rng.choice(US))
            if (t[0].name, t[1].name, t[2].name) not in seen:
                seen.add((t[0].name, t[1].name, t[2].name))
                triples.append(t)
    else:
        triples = list(itertools.product(CS, HS, US))
    root = os.path.join(tmp, "homes")
    os.makedirs(root)
    # a HOME whose .config (or .config/ka) is a regular file: all three paths have a regular file as ancestor
    specials = []
    for i, mk in enumerate(("config-is-file", "ka-is-file")):
        home = os.path.join(root, "special%d" % i)
        os.makedirs(home)
        if mk == "config-is-file":
            open(os.path.join(home, ".config"), "w").write("x")
        else:
            os.makedirs(os.path.join(home, ".config"))
            open(os.path.join(home, ".config", "ka"), "w").write("x")
        specials.append((mk, home))
    drates = default_rates(CU)
    learn_warnings(root)
    ctx.cov["warning_prefixes"] = {k: (list(v) if isinstance(v, tuple) else v) for k, v in MSG.items()}
    def run_job(j):
        home = j["home"]
        j["one"] = run_py(home, ["-m", "ka.cli", "{7 usd to eur, pi}"])
        j["pi"] = run_py(home, ["-m", "ka.cli", "pi + 0.5"]) if j["one"][0] != 0 else None
        j["int"] = run_py(home, ["-m", "ka.cli"], stdin=b"1+1\n%q\n")
        try:
            with open(j["hist_path"], "rb") as f:
                j["hist_after"] = f.read()
        except Exception as e:  # noqa
            j["hist_after"] = type(e).__name__
        j["kinds"] = run_py(home, ["-m", "ka.cli"], stdin=KINDS_SESSION)     # last: it rewrites the history file
        return j

    # the product is walked in a seeded random order, in chunks, under a time budget (the thorough tier covers the
    # full product when the machine is not loaded; the evidence says how much was covered)
    order = list(triples)
    if not ctx.quick():
        rng.shuffle(order)
    budget = 400.0
    t_start = time.time()
    jobs, idx = [], 0
    first = True
    while idx < len(order):
        chunk = []
        for (cs, hs, us) in order[idx:idx + 240]:
            home, c_eff, h_eff, u_eff, hist_path = prepare_home(root, idx + len(chunk), cs, hs, us)
            chunk.append(dict(home=home, cs=c_eff, hs=h_eff, us=u_eff, hist_path=hist_path, name="%s/%s/%s" % (cs.name, hs.name, us.name)))
        idx += len(chunk)
        if first:
            first = False
            for mk, home in specials:
                m = St("missing", "missing")
                chunk.append(dict(home=home, cs=m, hs=St("parentfile", "parentfile"), us=m,
                                  hist_path=os.path.join(home, ".config", "ka", "history"), name=mk, special=True))
        with ThreadPoolExecutor(max_workers=12) as ex:
            chunk = list(ex.map(run_job, chunk))
        for j in chunk:
            shutil.rmtree(j["home"], ignore_errors=True)
        jobs += chunk
        if time.time() - t_start > budget:
            break
    ctx.cov["fault_enumeration"] = dict(state_triples=len(order), covered=idx, config_states=len(CS), history_states=len(HS), currency_states=len(US))
    if idx < len(order):
        ctx.notes.append("fault enumeration stopped by its time budget after %d of %d state triples (seeded random order)" % (idx, len(order)))

    cases_one, cases_int, cases_save = [], [], []
    for j in jobs:
        cs, hs, us = j["cs"], j["hs"], j["us"]
        name = j["name"]
        eff = cs.effect
        precision = eff.get("precision", defaults["precision"])
        p_eff = precision if 0 <= precision <= 2**31 - 1 else defaults["precision"]
        prompt = eff.get("prompt", defaults["prompt"])
        save = eff.get("save", True)
        table = us.effect.get("table")
        rates = table if table is not None else drates
        base_cfg = eff.get("base", defaults["base-currency"])
        base = base_cfg if base_cfg in rates else ("eur" if "eur" in rates else None)
        how = "HOME=<config:%s history:%s currency:%s> %s -m ka.cli" % (cs.name, hs.name, us.name, sys.executable)
        inp = dict(config=(cs.kind, (cs.data or b"")[:200].hex()), history=(hs.kind, (hs.data or b"")[:200].hex()),
                   currency=(us.kind, (us.data or b"")[:200].hex()))
        ctx.count("home:" + name, nontrivial=not (cs.kind == hs.kind == us.kind == "missing"), bucket="fault-enumeration")
        rc, out, err = j["one"]
        # ---------------- oracle, one-shot
        key = None
        if "Traceback" in err or rc not in (0, 1) or rc == -9:
            key = "startup-crash"
            if cs.name.startswith("precision-") and "precisionify_float" in err:
                key = "precision-out-of-range"
            ctx.violation(key, json.dumps(inp), "the calculator starts and evaluates; at most warnings", "rc=%s stderr=%s" % (rc, err[-600:]),
                          how + " '{7 usd to eur, pi}'")
        elif base is None or "usd" not in rates or "eur" not in rates:
            rc2, out2, err2 = j["pi"] if j["pi"] else (rc, out, err)
            if rc != 1 or out.strip() != "" or err.strip() == "" or rc2 != 0 or out2.strip() != fmt_g(math.pi + 0.5, p_eff):
                ctx.violation("no-cash-dimension", json.dumps(inp), "no currency units (a diagnosed error, nothing on stdout), everything else evaluates: pi + 0.5 = "
                              + fmt_g(math.pi + 0.5, p_eff), "rc=%s out=%r err=%r / rc=%s out=%r" % (rc, out, err[-300:], rc2, out2), how + " 'pi + 0.5'")
        else:
            exp_conv = 7 * rates["eur"] / rates["usd"]
            exp_out = "{%s, %s}" % (fmt_g(exp_conv, p_eff), fmt_g(math.pi, p_eff))
            ok = rc == 0 and out.strip() == exp_out
            if not ok and rc == 0:
                # integers print without exponent: compare numerically as a fallback for the conversion part
                try:
                    a, b = out.strip()[1:-1].split(", ")
                    ok = b == fmt_g(math.pi, p_eff) and abs(float(a) - exp_conv) <= abs(exp_conv) * 10.0 ** (1 - max(p_eff, 1)) + 1e-12
                except Exception:  # noqa
                    ok = False
            if not ok:
                what = "config-setting-ignored" if ("3.14" in out and fmt_g(math.pi, p_eff) not in out) else "startup-wrong-result"
                ctx.violation(what, json.dumps(inp), exp_out + " (precision %s; table %s)" % (p_eff, "of the file" if table else "built-in"),
                              "rc=%s out=%r err=%r" % (rc, out, err[-300:]), how + " '{7 usd to eur, pi}'")
        exp_warn_c = us.kind in ("dir", "unreadable") or us.effect.get("warn") or us.name == "random"
        nwarn = sum(1 for l in err.split("\n") if l.startswith(MSG["currency"]))
        if "Traceback" not in err and nwarn != (1 if exp_warn_c else 0):
            ctx.violation("currency-warning", json.dumps(inp), "%d currency warning(s)" % (1 if exp_warn_c else 0), "stderr=%r" % err[-300:], how)
        # ---------------- correspondence, one-shot
        if "Traceback" in err or rc == -9:
            obs = "crash"
        else:
            obs = ("ok", pi_obs(out), table_used(out, T1, drates),
                   "none" if (rc == 1 and out.strip() == "" and err.strip() != "") else "some", "C" * nwarn)
        cases_one.append(("startup one %s %s %s" % (cs.model(), us.model(), hs.model()), obs,
                          dict(name=name, both=("usd" in rates and "eur" in rates))))
        # ---------------- a session displaying a value of every kind: starts, answers every input, exits 0 — under every state
        rc, out, err = j["kinds"]
        ctx.count("kinds:" + name, bucket="fault-enumeration/display-of-every-kind")
        nprompts = out.count(prompt)
        if "Traceback" in err or rc != 0 or nprompts < len(KINDS_INPUTS) + 1:
            ctx.violation("interpreter-crash-kinds", json.dumps(inp), "the interpreter answers all %d inputs (one of every displayable kind) and %%q exits with code 0" % len(KINDS_INPUTS),
                          "rc=%s, %d prompts, stderr=%s" % (rc, nprompts, err[-500:]), "printf '<one input per kind>\\n%%q\\n' | " + how)
        # ---------------- interpreter session
        rc, out, err = j["int"]
        exp_out = "ka version %s\n%s 2\n%s " % (R.interpret.KA_VERSION, prompt, prompt)
        if "Traceback" in err or rc != 0:
            k = "history-nul" if ("embedded null" in err) else "interpreter-crash"
            ctx.violation(k, json.dumps(inp), "the interpreter starts, evaluates 1+1 and %q exits with code 0", "rc=%s stderr=%s" % (rc, err[-600:]),
                          "printf '1+1\\n%%q\\n' | " + how)
        elif out != exp_out:
            ctx.violation("interpreter-session", json.dumps(inp), repr(exp_out), repr(out), "printf '1+1\\n%%q\\n' | " + how)
        nload = sum(1 for l in err.split("\n") if l.startswith(MSG["load"]))
        nsave = sum(1 for l in err.split("\n") if l.startswith(MSG["save"]))
        after = j["hist_after"]
        sess = b"1+1\n%q"
        if "Traceback" not in err and rc == 0:
            # saving: either the session is in the file now, or a warning was printed, or saving is disabled
            if save:
                saved_ok = isinstance(after, bytes) and after.endswith(sess)
                if not saved_ok and nsave == 0:
                    ctx.violation("history-not-saved-silently", json.dumps(inp), "history saved, or a warning", "file after: %r, stderr=%r" % (after if not isinstance(after, bytes) else after[-40:], err[-300:]),
                                  "printf '1+1\\n%%q\\n' | " + how)
                exp_load_fail = hs.kind in ("dir", "unreadable") or hs.name == "random"
                if nload != (1 if exp_load_fail else 0):
                    ctx.violation("history-load-warning", json.dumps(inp), "%d load warning(s)" % (1 if exp_load_fail else 0), "stderr=%r" % err[-300:], how)
            else:
                if nsave or nload or (isinstance(after, bytes) and hs.kind == "bytes" and after != hs.data) or (hs.kind == "missing" and isinstance(after, bytes)):
                    ctx.violation("history-disabled-but-touched", json.dumps(inp), "save-history=false: history neither read nor written", "stderr=%r after=%r" % (err[-200:], after), how)
        if "Traceback" in err or rc == -9:
            obs = "crash"
        else:
            nwc = sum(1 for l in err.split("\n") if l.startswith(MSG["currency"]))
            obs = ("ok", "C" * nwc + "L" * nload)
        cases_int.append(("startup int %s %s %s" % (cs.model(), us.model(), hs.model()), obs, name))
        # save_history against the model
        if "Traceback" not in err and rc == 0:
            if hs.kind in ("missing", "dangling"):
                pe, cr = "1", "none"
            elif hs.kind == "parentfile":
                pe, cr = "1", "notADirectory"      # os.path.exists(<regular file>) is True, open(..., "w") raises NotADirectoryError
            else:
                pe, cr = "1", "none"
            if isinstance(after, bytes) and after.endswith(sess) and nsave == 0:
                o = "appended" if (hs.kind == "bytes") else "written"
                if not save:
                    o = "disabled"
            elif nsave:
                o = "failed"
            else:
                o = "disabled"
            cases_save.append(("savehist %d %s %s %s" % (1 if save else 0, hs.model(), pe, cr), o + "|" + "S" * nsave, name))
        if len(ctx.cov["samples"]) < 12:
            ctx.sample(dict(home=name, one_shot=j["one"][1].strip(), stderr=j["one"][2][-120:], session_rc=j["int"][0]))

    def agree_one(real, model, info):
        if real == "crash":
            return model.startswith("crash")
        if not model.startswith("ok "):
            return False
        cfg, tbl, base, nh, w = model[3:].split("|")
        conf = parse_model_cfg(cfg)
        p = conf.get("precision", defaults["precision"])
        p = p if 0 <= p <= 2**31 - 1 else defaults["precision"]
        okp = real[1] is None or real[1] == fmt_g(math.pi, p)
        okt = real[2] is None or real[2] == tbl
        okb = (real[3] == "none") == (base == "none" or not info["both"])
        return okp and okt and okb and w == real[4]
    ctx.correspond("startup-oneshot", cases_one, agree=agree_one)

    def agree_int(real, model, info):
        if real == "crash":
            return model.startswith("crash")
        if not model.startswith("ok "):
            return False
        return model[3:].split("|")[4].replace(",", "") == real[1]
    ctx.correspond("startup-interpreter", cases_int, agree=agree_int)
    ctx.correspond("savehist", cases_save)

    # ------------------------------------------------------------------ (a3) registration loop, subprocess vs model
    names0 = [k for k, u in R.units.NAME_TO_UNIT.items() if "cash" not in u.quantities]
    syms0 = [k for k, u in R.units.SYMBOL_TO_UNIT.items() if "cash" not in u.quantities]
    pool_names = ["euro", "usdollar", "dollar", "yen", "pound", "metre", "second", "seconds", "foo", "foos", "bar", "noplura", "", "gram", "x", "eur", "usd", "$", "€", "peso", "pesos",
                  "bolívar", "pa'anga", "ni-vanuatu", "mètre", "1st", "_x", "ｆｏｏ", "ﬁat", "日本", "a b", "é", "Å1",
                  # names that READ as a prefixed unit (also of a unit with an offset, where a prefix is refused): rows like any other
                  "kilogram", "megabytes", "ms", "millidegC", "kdegF", "MdegC", "nanodegF", "kilometre", "microsecond", "degC", "degF", "kdegC", "millidegF"]
    pool_syms = ["eur", "usd", "jpy", "gbp", "m", "s", "g", "K", "b", "cup", "min", "xx", "yy", "foo", "foos", "", "$", "dollar", "euro", "x", "peso"]
    regjobs = []
    for i in range(ctx.n(36, 400)):
        n = rng.choice([1, 2, 3, 5, 8, 12])
        rows = []
        for r in range(n):
            rows.append((rng.choice(pool_syms), rng.choice(pool_names), rng.choice([1, 1, 1, 1, 0, -2, float("nan")]) and float(r + 2)
                         if rng.random() < 0.85 else rng.choice([0.0, -2.0, float("nan")])))
        pos = rng.randrange(0, len(rows) + 1)
        if rng.random() < 0.9:
            rows.insert(pos, ("eur", rng.choice(["euro", "euro", "metre", "eur"]), float(len(rows) + 7)))
        home = os.path.join(root, "reg%04d" % i)
        os.makedirs(os.path.join(home, ".config", "ka"))
        with open(os.path.join(home, ".config", "ka", "currency"), "w", encoding="utf-8") as f:
            f.write("".join("%s,%s,%r\n" % r for r in rows))
        regjobs.append(dict(home=home, rows=rows))

    def run_reg(j):
        j["res"] = run_py(j["home"], ["-c", REG_SNIPPET])
        return j
    with ThreadPoolExecutor(max_workers=12) as ex:
        regjobs = list(ex.map(run_reg, regjobs))
    cases = []
    for j in regjobs:
        rows = j["rows"]
        rc, out, err = j["res"]
        text = "".join("%s,%s,%r\n" % r for r in rows)
        ctx.count("reg:" + text, bucket="registration")
        line = next((l for l in out.split("\n") if l.startswith("REG ")), None)
        if rc != 0 or line is None:
            ctx.violation("currency-name-clash" if "AssertionError" in err else "registration-crash", text,
                          "import ka.units succeeds whatever the rows are", "rc=%s stderr=%s" % (rc, err[-500:]),
                          "currency file with these rows; %s -c 'import ka.units'" % sys.executable)
            real = "crash"
        else:
            real = json.loads(line[4:])
        has_eur = any(r[0] == "eur" for r in rows)
        if not has_eur:
            if real != "crash" and real != []:
                ctx.violation("no-cash-dimension", text, "no currency registered without a base", str(real), "import ka.units")
            continue
        req = "curreg %s|%s|%s" % (",".join("s" + dots(x) for x in names0), ",".join("s" + dots(x) for x in syms0),
                                   ",".join("s%s/s%s/s%s/%d" % (dots(a), dots(b), dots(unicodedata.normalize("NFKD", b)), 1 if c > 0 else 0) for a, b, c in rows))
        cases.append((req, real, text))

    def agree_reg(real, model, info):
        if real == "crash":
            return model.startswith("crash")
        if not model.startswith("ok"):
            return False
        items = [x for x in model[3:].split(",") if x]
        if len(items) != len(real):
            return False
        rows = [tuple(l.split(",")) for l in info.split("\n") if l]
        base = next(float(r[2]) for r in rows if r[0] == "eur")
        for (sym, name, mul), it in zip(real, items):
            a, b, idx = it.split("/")
            if a != "s" + dots(sym) or b != "s" + dots(name):
                return False
            want = base / float(rows[int(idx)][2])
            if abs(mul - want) > 1e-12 * abs(want):
                return False
        return True
    ctx.correspond("curreg", cases, agree=agree_reg)


# ----------------------------------------------------------------------------------------------
def pi_obs(out):
    """the printed pi (None when the output does not show it)"""
    s = out.strip()
    if s.startswith("{") and ", " in s:
        return s[1:-1].split(", ")[1]
    return None


def table_used(out, t1, drates):
    s = out.strip()
    if not (s.startswith("{") and ", " in s):
        return None
    try:
        x = float(s[1:-1].split(", ")[0])
    except ValueError:
        return None
    f, d = 7 * t1["eur"] / t1["usd"], 7 * drates["eur"] / drates["usd"]
    if abs(x - f) <= 0.2 * f:
        return "file"
    if abs(x - d) <= 0.2 * d:
        return "default"
    return None


def parse_model_cfg(cfg):
    conf = {}
    for it in cfg.split(";"):
        if not it:
            continue
        k, v = it.split("=", 1)
        key = "".join(chr(int(x)) for x in k.split(".")) if k else ""
        if v[0] == "i":
            conf[key] = int(v[1:])
        elif v[0] == "b":
            conf[key] = v == "b1"
        else:
            conf[key] = "".join(chr(int(x)) for x in v[1:].split(".")) if len(v) > 1 else ""
    return conf
