"""C14 — variables, sessions and namespaces behave like a calculator memory."""
import math
from fractions import Fraction
import core

ID = "C14"
LEAN_MODULES = ["KaVerif.Props.C14"]
GEN = []
THEOREMS = ["KaVerif.C14_get_set_same", "KaVerif.C14_get_set_other", "KaVerif.C14_unassigned", "KaVerif.C14_initial",
            "KaVerif.C14_namespaces", "KaVerif.C14_step_preserves", "KaVerif.C14_read_after_write", "KaVerif.C14_split",
            "KaVerif.C14_session_prefix", "KaVerif.C14_isolation"]
RULE = ("seeded random histories of assignments/expressions over the name pool {x,y,z,pi,e,true,false,abs,floor,round,dozen,"
        "hundred,m,s,C} (variables that are also constants, functions and units), 1-6 inputs of 1-4 statements, typed into two "
        "sessions randomly interleaved; after EVERY input the value/error and the whole binding table of both real sessions are "
        "compared with the model; every history is re-run joined into one input and cut at random points (same session) and solo "
        "(other session's inputs removed); non-trivial = history with >=1 assignment; distinct = distinct history text")
ASSUMPTIONS = ["Python object aliasing between sessions is observed (binding tables, CONSTANTS, FUNCTIONS keys, unit maps compared "
               "before/after), not modelled"]
LEVEL_TEXT = ("Machine-checked proof (Lean 4) over a model of sessions: bindings form a map (read-after-write, other names untouched), "
              "reading an unassigned name is an error, function and unit namespaces are not reachable from assignments (an expression's "
              "value changes under `x = …` only if it reads x as a variable — calls `x(…)` and unit tags `… x` do not), running "
              "s1;…;sn as one input equals feeding any split of it as successive inputs up to the first failing statement (induction "
              "over the history), and two interleaved sessions each end as they would alone. Tied to the code by replaying random "
              "interleaved histories on real EvalEnvironments through execute() and comparing values, errors and entire binding tables.")
LEVEL_NOTE = ("The model's expression fragment is integers, + *, one-argument function calls and dimensionless unit tags; the real "
              "evaluator's other features are exercised by the oracle runs (split/solo equivalence on the real code) only.")
TECHNIQUE = "Lean 4 refinement/induction over histories + differential replay of interleaved sessions"

NAMES = ["x", "y", "z", "true", "false", "abs", "floor", "round", "dozen", "hundred", "m", "s", "C"]
FUNS = ["abs", "floor", "round", "int", "ceil"]
UNITS = ["dozen", "hundred", "thousand", "million"]


def gen_exp(rng, assigned, depth):
    r = rng.random()
    if depth <= 0 or r < 0.3:
        if rng.random() < 0.12:
            # a lazy factorial / binomial: to a session it must be the plain number it stands for
            return rng.choice([("lazy", "%d!" % n, math.factorial(n)) for n in (0, 3, 4, 5, 6)] +
                              [("lazy", "C(%d,%d)" % (n, k), math.comb(n, k)) for n, k in ((4, 2), (6, 2), (5, 3))])
        if rng.random() < 0.5:
            return ("lit", rng.randrange(-9, 30))
        pool = [n for n in NAMES if n in assigned or n in ("true", "false")] or ["true"]
        if rng.random() < 0.12:
            pool = [n for n in NAMES if n not in ("pi", "e")]      # may be unassigned → error path
        return ("var", rng.choice(pool))
    if r < 0.55:
        return ("add", gen_exp(rng, assigned, depth - 1), gen_exp(rng, assigned, depth - 1))
    if r < 0.75:
        return ("mul", gen_exp(rng, assigned, depth - 1), gen_exp(rng, assigned, depth - 1))
    if r < 0.9:
        return ("call", rng.choice(FUNS if rng.random() < 0.95 else ["nosuchfn"]), gen_exp(rng, assigned, depth - 1))
    # the operand of a unit tag must be a plain number (a variable may hold a quantity): literals only
    return ("unit", ("lit", rng.randrange(0, 9)), rng.choice(UNITS if rng.random() < 0.95 else ["nosuchunit"]))


def text_exp(t):
    k = t[0]
    if k == "lit":
        return str(t[1]) if t[1] >= 0 else "(0-%d)" % -t[1]
    if k == "lazy":
        return t[1]
    if k == "var":
        return t[1]
    if k == "add":
        return "(%s + %s)" % (text_exp(t[1]), text_exp(t[2]))
    if k == "mul":
        return "(%s * %s)" % (text_exp(t[1]), text_exp(t[2]))
    if k == "call":
        return "%s(%s)" % (t[1], text_exp(t[2]))
    return "((%s) %s)" % (text_exp(t[1]), t[2])


def sx_exp(t):
    k = t[0]
    if k == "lit":
        return "(lit %d)" % t[1]
    if k == "lazy":
        return "(lit %d)" % t[2]
    if k == "var":
        return "(var %s)" % t[1]
    if k in ("add", "mul"):
        return "(%s %s %s)" % (k, sx_exp(t[1]), sx_exp(t[2]))
    if k == "call":
        return "(call %s %s)" % (t[1], sx_exp(t[2]))
    return "(unit %s %s)" % (sx_exp(t[1]), t[2])


def gen_history(rng):
    assigned = {1: set(), 2: set()}
    hist = []
    for _ in range(rng.randrange(1, 7)):
        sid = 1 if rng.random() < 0.65 else 2
        stmts = []
        for _ in range(rng.randrange(1, 5)):
            if rng.random() < 0.55:
                x = rng.choice(NAMES)
                stmts.append(("a", x, gen_exp(rng, assigned[sid], 3)))
                assigned[sid].add(x)
            else:
                stmts.append(("e", gen_exp(rng, assigned[sid], 3)))
        hist.append((sid, stmts))
    return hist


def text_stmt(s):
    return "%s = %s" % (s[1], text_exp(s[2])) if s[0] == "a" else text_exp(s[1])


def sx_stmt(s):
    return "(a %s %s)" % (s[1], sx_exp(s[2])) if s[0] == "a" else "(e %s)" % sx_exp(s[1])


def canon_val(v, T):
    if isinstance(v, T.Combinatoric):
        v = v.resolve()
    if isinstance(v, T.Quantity):
        if any(v.qv.v.xs):
            return "dim"
        v = v.mag
    if isinstance(v, bool):
        return "bool"
    if isinstance(v, int):
        return str(v)
    if isinstance(v, Fraction) and v.denominator == 1:
        return str(v.numerator)
    if isinstance(v, float) and v in (math.pi, math.e):
        return None
    return "other:" + repr(v)


def env_canon(env, T):
    out = []
    b_ = core.env_bindings(env)
    for k in sorted(b_):
        c = canon_val(b_[k], T)
        if c is not None:
            out.append("%s=%s" % (k, c))
    return ",".join(out)


def env_canon_all(env, T):
    """like env_canon, but a value this canon does not know (None — the result of seed(n) —, a float, a random variable) is still
    a BINDING: `name=<kind>`"""
    b_ = core.env_bindings(env)
    return ",".join("%s=%s" % (k, canon_val(b_[k], T) if canon_val(b_[k], T) is not None else "<%s>" % type(b_[k]).__name__) for k in sorted(b_))


def run_real(R, hist_inputs, envs):
    """hist_inputs: list of (sid, text). Returns list of result strings."""
    res = []
    for sid, text in hist_inputs:
        before = core.clone_env(envs[sid])
        r = R.execute(text, env=envs[sid])
        if r["escaped"]:
            res.append("escaped:" + r["escaped"])
        elif r["status"] == 0:
            v = r["value"]
            res.append("ok:none" if v is None else "ok:" + str(canon_val(v, R.types)))
        else:
            # the CLASS of the diagnosed error (never its wording): the same input on a copy of the bindings it started from
            k, c = R.value(text, env=before)
            res.append("err:" + (c if k == "err" else "none-on-rerun"))
    return res


def _check_main(ctx):
    R = ctx.real
    rng = ctx.rng
    T = R.types
    import ka.eval as KE, ka.functions as KF, ka.units as KU
    consts0 = dict(KE.CONSTANTS)
    fkeys0 = list(KF.FUNCTIONS.keys())
    flens0 = {k: len(v) for k, v in KF.FUNCTIONS.items()}
    units0 = (sorted(KU.NAME_TO_UNIT), sorted(KU.SYMBOL_TO_UNIT), len(KU.UNITS))
    cases = []
    n = ctx.n(400, 6000)
    for i in range(n):
        hist = gen_history(rng)
        inputs = [(sid, "; ".join(text_stmt(s) for s in stmts)) for sid, stmts in hist]
        key = " || ".join("%d: %s" % it for it in inputs)
        envs = {1: R.new_env(), 2: R.new_env()}
        res = run_real(R, inputs, envs)
        e1, e2 = env_canon(envs[1], T), env_canon(envs[2], T)
        real = " ".join(res) + " | " + e1 + " | " + e2
        ctx.count(key, nontrivial=any(s[0] == "a" for _, ss in hist for s in ss), bucket="inputs=%d" % len(hist))
        if i < 6:
            ctx.sample(dict(history=key, real=real))
        how = "two EvalEnvironments; execute() each input of: " + key
        if any(r.startswith("escaped") for r in res):
            ctx.violation("sess-escape:" + key, key, "a value or a diagnosed error", str(res), how)
        cases.append(("sess (" + " ".join("(%d %s)" % (sid, " ".join(sx_stmt(s) for s in stmts)) for sid, stmts in hist) + ")", real, key))
        # ---- oracle on the real code: solo run (isolation) and joined/split run (same session)
        for sid in (1, 2):
            solo_inputs = [(sid, t) for s, t in inputs if s == sid]
            env_s = {sid: R.new_env()}
            run_real(R, solo_inputs, env_s)
            if env_canon(env_s[sid], T) != (e1 if sid == 1 else e2):
                ctx.violation("sess-isolation:" + key, key, "session %d ends as it would alone: %s" % (sid, env_canon(env_s[sid], T)),
                              e1 if sid == 1 else e2, how)
            # joined into ONE input, up to the first failing statement
            stmts_all = [text_stmt(s) for s_id, ss in hist if s_id == sid for s in ss]
            if not stmts_all:
                continue
            # reference: feed statements one by one until the first failure
            env_ref = {sid: R.new_env()}
            ref_res = None
            for st in stmts_all:
                ref_res = run_real(R, [(sid, st)], env_ref)[0]
                if not ref_res.startswith("ok"):
                    break
            env_j = {sid: R.new_env()}
            j_res = run_real(R, [(sid, "; ".join(stmts_all))], env_j)[0]
            if (j_res, env_canon(env_j[sid], T)) != (ref_res, env_canon(env_ref[sid], T)):
                ctx.violation("sess-split:" + "; ".join(stmts_all), "; ".join(stmts_all),
                              "one input = successive inputs up to the first failure: %s | %s" % (ref_res, env_canon(env_ref[sid], T)),
                              "%s | %s" % (j_res, env_canon(env_j[sid], T)), "execute(joined) vs execute(each statement) on one EvalEnvironment")
            # a random cut into 2-3 inputs
            if len(stmts_all) >= 2:
                cut = sorted(rng.sample(range(1, len(stmts_all)), min(len(stmts_all) - 1, rng.randrange(1, 3))))
                parts, prev = [], 0
                for c in cut + [len(stmts_all)]:
                    parts.append("; ".join(stmts_all[prev:c])); prev = c
                env_c = {sid: R.new_env()}
                c_res = None
                for p in parts:
                    c_res = run_real(R, [(sid, p)], env_c)[0]
                    if not c_res.startswith("ok"):
                        break
                if (c_res, env_canon(env_c[sid], T)) != (ref_res, env_canon(env_ref[sid], T)):
                    ctx.violation("sess-split:" + " | ".join(parts), " | ".join(parts), "%s | %s" % (ref_res, env_canon(env_ref[sid], T)),
                                  "%s | %s" % (c_res, env_canon(env_c[sid], T)), "execute() of the parts in order on one EvalEnvironment")
    # the model tells unassigned names from unknown units; in the code both are an EvalError
    ctx.correspond("sess", cases, agree=lambda real, model, info: real == model.replace("err:unassigned", "err:eval").replace("err:unknownunit", "err:eval"))
    # ---- one input vs successive inputs when a statement FAILS (every kind of evaluation error; assignments before it
    #      must persist exactly as if the statements had been fed one by one)
    pool_ok = ["a = 1", "b = a + 1", "a = a * 2", "c = 3 m", "a", "b", "x = 5", "y = x + a", "{t : t in 1..3}", "s = 2; s"]
    pool_bad = ["{a : a < 3}", "1/0", "nosuch(1)", "undefinedvar", "{x : x in 5}", "a + \"s\"", "3 m + 1 s", "{t : t in 1..3, t + 5}",
                "sqrt(0-1)", "5 to m", "C(1/2, 1)", "max()", "1 kdegC", "a(1)"]
    for _ in range(ctx.n(60, 800)):
        stmts = [rng.choice(pool_ok) for _ in range(rng.randrange(1, 4))] + [rng.choice(pool_bad)] + \
                [rng.choice(pool_ok) for _ in range(rng.randrange(0, 3))]
        env_ref = R.new_env()
        ref = None
        for st in stmts:
            ref = run_real(R, [(1, st)], {1: env_ref})[0]
            if not ref.startswith("ok"):
                break
        env_j = R.new_env()
        jr = run_real(R, [(1, "; ".join(stmts))], {1: env_j})[0]
        key = "; ".join(stmts)
        ctx.count("split-fail:" + key, bucket="split-with-failure")
        if (jr.split(":")[0], env_canon(env_j, T)) != (ref.split(":")[0], env_canon(env_ref, T)):
            ctx.violation("sess-split:" + key, key, "as fed one by one up to the first failure: %s | %s" % (ref, env_canon(env_ref, T)),
                          "%s | %s" % (jr, env_canon(env_j, T)), "execute(joined) vs execute(each statement) on one EvalEnvironment")
    # ---- calls of execute() WITHOUT an environment are fresh sessions each time
    for setup, probe in (("zz = 5", "zz"), ("pi = 3", "pi"), ("e = 1", "ln(e)"), ("true = 0", "true"), ("sin = 4", "sin")):
        import io as _io
        o1, e1 = _io.StringIO(), _io.StringIO()
        R.interpret.execute(setup, out=o1, errout=e1)
        o2, e2 = _io.StringIO(), _io.StringIO()
        st2 = R.interpret.execute(probe, out=o2, errout=e2)
        k0, v0 = R.value(probe, env=R.new_env())
        o3, e3 = _io.StringIO(), _io.StringIO()
        st3 = R.interpret.execute(probe, env=R.new_env(), out=o3, errout=e3)
        ctx.count("envless:" + setup, bucket="env-less sessions")
        if (st2, o2.getvalue()) != (st3, o3.getvalue()):
            ctx.violation("sess-envless-shared:" + setup, "execute(%r); execute(%r)  (no env argument)" % (setup, probe),
                          "a fresh session: %r" % ((st3, o3.getvalue()),), repr((st2, o2.getvalue())), "two env-less execute() calls in one process")
    # ---- constants and namespaces on the real code
    env = R.new_env()
    for name, want in (("pi", math.pi), ("e", math.e), ("true", 1), ("false", 0)):
        k, v = R.value(name, env=R.new_env())
        ctx.count("const:" + name, bucket="constants")
        if k != "ok" or v != want:
            ctx.violation("sess-const:" + name, name, repr(want), repr((k, v)), "execute(%r) in a fresh session" % name)
    a, b = R.new_env(), R.new_env()
    for name in ("pi", "e", "true", "false"):
        R.value("%s = 42" % name, env=a)
        k, v = R.value(name, env=b)
        k2, v2 = R.value(name, env=R.new_env())
        if (k, v) != (k2, v2) or v == 42:
            ctx.violation("sess-const-leak:" + name, "%s = 42 in another session" % name, "unchanged", repr(v), "two EvalEnvironments")
    for probe, setup, want in (("sin(0) + abs(0-2)", "sin = 7; abs = 9", 2), ("sin + abs", "sin = 7; abs = 9", 16),
                               ("2 dozen", "dozen = 5", None), ("C(4, 2)", "C = 1", 6), ("3 m to cm", "m = 2; cm = 3", 300),
                               ("m * cm", "m = 2; cm = 3", 6)):
        env = R.new_env()
        R.value(setup, env=env)
        k, v = R.value(probe, env=env)
        k0, v0 = R.value(probe, env=R.new_env()) if want is None else ("ok", want)
        ctx.count("ns:" + setup + ";" + probe, bucket="namespaces")
        same = (k == k0) and (v == v0 or (hasattr(v, "mag") and hasattr(v0, "mag") and v.mag == v0.mag and v.qv == v0.qv))
        if not same:
            ctx.violation("sess-namespace:" + probe, setup + "; " + probe, repr(v0), repr((k, v)), "execute on one EvalEnvironment")
    # ---- reading an unassigned name is an error WHEREVER the read sits: in the second operand, in a later condition of a
    # comprehension (also when an earlier condition is false for every element), in the body, inside a function argument
    for text, names_unbound in [("{x : x in 1..3, x > 5, y > 0}", []), ("{x : x in 1..3, y > 0, x > 5}", []), ("{x + y : x in 1..3}", []),
                                ("{x : x in 1..3, 0, y}", []), ("{x : x in 1..3, x > 1, x > 2, y > 0}", []), ("{x : x in 1..y}", []),
                                ("a = 1; b = {x : x in 1..3, x > 5, y > 0}; c = 2", ["b", "c"]), ("0 * y", []), ("max(1, y)", []),
                                ("a = 5; b = a + y; c = 1", ["b", "c"]), ("{1 : x in 1..2, y}", []), ("sum({x : x in 1..2, x > 9, y == 1})", [])]:
        env = R.new_env()
        r = R.execute(text, env=env)
        ctx.count("unassigned-read:" + text, bucket="unassigned reads")
        left = [nm for nm in names_unbound if core.env_bound(env, nm)]
        if r["escaped"] or r["status"] != 1 or left:
            ctx.violation("sess-unassigned-read:" + text, text, "status 1 (y was never assigned)" + (", %s not bound" % names_unbound if names_unbound else ""),
                          "status %s %s out=%r bound afterwards: %s" % (r["status"], r["escaped"] or "", r["out"].strip()[:60], left),
                          "fresh EvalEnvironment; execute(%r)" % text)
    # ---- … and WHATEVER the name is: the name of a registered function (with or without parameters: now, today, rand, quit, sin …)
    # or of a unit, read as a bare variable in a session that never assigned it, is an unassigned name, not a call
    import re as _re
    fnames = sorted(n for n in list(R.functions.FUNCTIONS.keys()) if _re.match(r"^[A-Za-z_][A-Za-z_0-9]*$", n) and n not in ("pi", "e", "true", "false"))
    for nm in fnames + ["m", "kg", "usd", "metre"]:
        for text, unb in [(nm, []), ("v_ = " + nm, ["v_"]), ("1 + " + nm, []), ("a_ = 5; b_ = %s; a_" % nm, ["b_"])]:
            if text in ("in", "to") or nm in ("in", "to"):
                continue
            env = R.new_env()
            r = R.execute(text, env=env)
            ctx.count("unassigned-read:" + text, bucket="unassigned reads of function / unit names")
            left = [x for x in unb if core.env_bound(env, x)]
            if r["escaped"] or r["status"] != 1 or left:
                ctx.violation("sess-unassigned-read:" + text, text, "status 1 (%s was never assigned)" % nm + (", %s not bound" % unb if unb else ""),
                              "status %s %s out=%r bound afterwards: %s" % (r["status"], r["escaped"] or "", r["out"].strip()[:60], left),
                              "fresh EvalEnvironment; execute(%r)" % text)
    # ---- only an assignment changes a binding: expression statements (incl. comprehensions whose generator
    #      variables shadow session names, failing ones too) leave the whole table as it was
    exprs = ["{x : x in 1..3}", "{x*y : x in 1..3, y in 4..6}", "sum({z : z in {1,2}})", "{x : x in 1..3, x/0}", "{true : true in 1..2}",
             "{abs : abs in 1..2}", "x + {y : y in 1..2}", "{x : x in 1..4, x > 2}", "{{x : x in 1..y} : y in 1..3}", "size({z : z in 1..0})",
             "x", "y", "1/0", "nosuch(1)", "{x : x in 5}"]
    for _ in range(ctx.n(40, 400)):
        env = R.new_env()
        setup = "; ".join("%s = %d" % (nm, rng.randrange(-5, 50)) for nm in rng.sample(NAMES, rng.randrange(0, 6)))
        if setup:
            R.value(setup, env=env)
        # values of every kind a session can hold — also None (what seed(n) returns): a binding is a binding
        for nm in rng.sample(["x", "y", "z", "true", "abs"], rng.randrange(0, 3)):      # the generator names of the expressions below
            vt = rng.choice(["seed(1)", '"txt"', "{1, 2}", "3 m", "[1, 2]", "#2020-01-01#", "Binomial(3, 0.5)", "5!", "1/3", "2.5", "seed(7)"])
            R.execute("%s = %s" % (nm, vt), env=env)
            setup += "; %s = %s" % (nm, vt)
        before = env_canon_all(env, T)
        ex = rng.choice(exprs)
        R.execute(ex, env=env)
        ctx.count("expr-no-write:" + setup + " ;; " + ex, bucket="expression statements")
        if env_canon_all(env, T) != before:
            ctx.violation("sess-write-by-expression:" + ex, (setup + "; " if setup else "") + ex, "bindings unchanged: " + before,
                          env_canon_all(env, T), "execute() on one EvalEnvironment")
    # … whatever KIND of value the shadowed name holds: every kind a session can hold (None — what seed(n) returns — included)
    # under each generator name, then the comprehension, then the table and a read of the name
    for nm, ex in [("x", "{x*2 : x in 1..3}"), ("x", "{x : x in 1..3, x/0}"), ("true", "{true : true in 1..2}"), ("y", "{{x : x in 1..y} : y in 1..3}"),
                   ("z", "sum({z : z in {1,2}})"), ("pi", "{pi : pi in {1}}"), ("b", "{a+b : a in {1,2}, b in {10,20}}")]:
        for vt in ["seed(1)", '"txt"', "{1, 2}", "3 m", "[1, 2]", "#2020-01-01#", "Binomial(3, 0.5)", "5!", "1/3", "2.5", "0", "(X > 1)"]:
            env = R.new_env()
            R.execute("X = Binomial(3, 0.5)", env=env)
            r0 = R.execute("%s = %s" % (nm, vt), env=env)
            if r0["status"] != 0 or r0["escaped"]:
                continue
            before = env_canon_all(env, T)
            r1 = R.execute(nm, env=env)
            R.execute(ex, env=env)
            r2 = R.execute(nm, env=env)
            ctx.count("expr-no-write-kinds:%s=%s;;%s" % (nm, vt, ex), bucket="expression statements over every kind of value")
            after = env_canon_all(env, T)
            if after != before or (r1["status"], r1["out"]) != (r2["status"], r2["out"]):
                ctx.violation("sess-write-by-expression:%s = %s; %s" % (nm, vt, ex), "%s = %s; %s; %s" % (nm, vt, ex, nm), "bindings unchanged: %s; `%s` reads as before (status %s)" % (before, nm, r1["status"]),
                              "%s; `%s` status %s %s" % (after, nm, r2["status"], r2["err"].strip()[:80]), "execute() of the three inputs on one EvalEnvironment")
    # one input = successive inputs, also when a LATER statement is a flat chain of thousands of operators (whatever the evaluator
    # does with such a statement — refuse it, or find a way to evaluate it — the statements before it ran exactly once)
    for nterms in (600, 1500, 3000, 8000):
        for first, chainop in (("n = n + 1", "+"), ("n = 2*n + 3", "+"), ("n = n + 1; m = n * n", "*"), ("n = n - 1", "-")):
            chain = (" %s " % chainop).join(["1"] * nterms)
            ej, es = R.new_env(), R.new_env()
            for e_ in (ej, es):
                R.execute("n = 5", env=e_)
            rj = R.execute(first + "; " + chain, env=ej, timeout=20)
            rs = None
            for st_ in first.split("; ") + [chain]:
                rs = R.execute(st_, env=es, timeout=20)
                if rs["status"] != 0:
                    break
            ctx.count("long-chain:%s;%d%s" % (first, nterms, chainop), bucket="one input = successive inputs, long chains")
            bj, bs = env_canon(ej, T), env_canon(es, T)
            if bj != bs or (rj["status"], rj["escaped"]) != (rs["status"], rs["escaped"]):
                ctx.violation("sess-split:%s; 1 %s 1 %s … (%d terms)" % (first, chainop, chainop, nterms), "n = 5 | %s; 1 %s 1 %s … (%d terms)" % (first, chainop, chainop, nterms),
                              "as fed one by one: status %s, %s" % (rs["status"], bs), "status %s %s, %s" % (rj["status"], rj["escaped"] or "", bj),
                              "execute(joined) vs execute(each statement) on one EvalEnvironment")
    if dict(KE.CONSTANTS) != consts0 or list(KF.FUNCTIONS.keys()) != fkeys0 or {k: len(v) for k, v in KF.FUNCTIONS.items()} != flens0 \
            or (sorted(KU.NAME_TO_UNIT), sorted(KU.SYMBOL_TO_UNIT), len(KU.UNITS)) != units0:
        ctx.violation("sess-global-mutation", "the histories above", "CONSTANTS / FUNCTIONS / unit tables unchanged", "changed",
                      "compare ka.eval.CONSTANTS, ka.functions.FUNCTIONS, ka.units.* before and after")



def check(ctx):
    _check_main(ctx)
    # shared oracle: operators return new values, operands bound to variables are never updated in place
    import alias_common
    alias_common.run(ctx, prefix="alias")
    # comprehensions nested inside each other re-using session names: the session reads as before afterwards
    import nested_common
    nested_common.run(ctx, ctx.n(400, 6000), "nested")
    # the unit namespace: quantities assigned to names that spell units (registered or prefixed) do not change the units
    import namespace_common
    namespace_common.run(ctx, "ns")
    namespace_common.run(ctx, "ns")


# ---- refinement lemmas of the unified pipeline model for this property (Props/PipelineArr.lean): the scope of
# comprehension variables (save / set in place / restore = the local copy the model runs on), and the session
# fragment's expressions inside comprehensions
import pipeline as _pl
LEAN_MODULES = LEAN_MODULES + [m for m in _pl.LEAN_MODULES3 if m not in LEAN_MODULES]
THEOREMS = THEOREMS + [t for t in _pl.THEOREMS3.get(ID, []) if t not in THEOREMS]
GEN = GEN + [g for g in _pl.GEN if g not in GEN]
