"""C18 — samples stay in support, follow P(), reproducible from the seed.

Three kinds of evidence, kept apart in the evidence file:
  (i)   correspondence: the DRAW STREAM is captured (Ka `seed(k)`, then `ka.probability.unit` and the
        function object held by the `rand` registration are wrapped to log each draw as an exact
        Fraction); interleaved rand()/seed()/sample(X)/sample(X,n) histories run through the real
        `execute`; the same draws are fed to the Lean model (`sprog`), every result and every
        generator position is compared (discrete: exact; Uniform: 1e-12; Exponential/Gaussian: 1e-9).
        A second stream (`sample`) scripts the draws (edge values 2^-53, 1-2^-53, cell boundaries ± 1ulp).
        `scdf` ties the cdf formulas restated for the inverse-transform theorems to the real P(X<=t).
  (ii)  oracle on the real code alone: support membership of every sample, exactly n values,
        rand() in [0,1), same seed => identical results (histories run twice), different seed =>
        different results (a check that the reproducibility test is not vacuous).
  (iii) the Dvoretzky–Kiefer–Wolfowitz band as a STATISTICAL TEST (labelled as such): N samples per
        case, empirical cdf against the real P(X<=t) at every sample point, eps from delta = 1e-9.
"""
import sys, math, json, random as _pyrandom
from fractions import Fraction
import core

ID = "C18"
LEAN_MODULES = ["KaVerif.Props.C18", "KaVerif.Props.C18Real", "KaVerif.Gen.RandomSources"]
GEN = ["RandomSources"]
THEOREMS = ["KaVerif.C18_support_bernoulli", "KaVerif.C18_support_binomial", "KaVerif.C18_support_uniformInt",
            "KaVerif.C18_support_uniform", "KaVerif.C18_support_poisson", "KaVerif.C18_support_exponential",
            "KaVerif.C18_support_geometric", "KaVerif.C18_support_sample", "KaVerif.C18_support_history",
            "KaVerif.C18_count", "KaVerif.C18_rand_range", "KaVerif.C18_deterministic", "KaVerif.C18_segments",
            "KaVerif.C18_seed_resets", "KaVerif.C18_inverse_transform_bernoulli",
            "KaVerif.C18_inverse_transform_uniformInt", "KaVerif.C18_inverse_transform_uniform",
            "KaVerif.C18_poisson_cdf_is_code_cdf", "KaVerif.C18_inverse_transform_poisson",
            "KaVerif.C18_inverse_transform_exponential", "KaVerif.C18_inverse_transform_geometric",
            "KaVerif.Gen.RandomSources.only_unit_and_seed"]
RULE = ("histories of 4-16 operations drawn from rand() / seed(k) / sample(X) / sample(X,n) (n in -2..30) over the 8 "
        "distributions with int / Fraction / float parameters, run through the real execute() with the draw stream "
        "captured and replayed into the Lean model (every value and generator position compared); scripted edge draws "
        "per distribution; every history is re-run under the same and under a different seed; large-parameter support "
        "sweep (UniformInt offsets up to 10^18, p in {0,1}, degenerate ranges); one DKW case per distribution/parameter "
        "set; non-trivial = the operation consumed at least one draw; distinct = distinct (operation, parameters, draws)")
ASSUMPTIONS = ["random.seed(k) determines the stream of random.random() (CPython's Mersenne Twister; observed, not proved)",
               "IEEE rounding inside the samplers is not modelled: model and code are compared exactly for discrete samplers "
               "(ties within 1e-9 of a cell boundary are counted as rounding ties) and within 1e-12/1e-9 for continuous ones",
               "the DKW band is a statistical test: a correct sampler is flagged with probability < 1e-9 per case",
               "measure-zero corner: the draw u = 0.0 makes Geometric.sample() return 0 and Gaussian.sample() -inf; documented, not alarmed"]
LEVEL_TEXT = ("Machine-checked proof (Lean 4) over the model in which every sampler is a pure function of the stream of "
              "unit() draws: support of every distribution for every draw in [0,1) (Geometric: (0,1)), exactly n values "
              "and n x (draws per sample) draws for sample(X,n), results of a history depend only on the consecutive "
              "disjoint stream segments the operations read, everything after seed(k) is a function of k alone, and the "
              "inverse-transform identities {u | sample <= t} = {u | u < F(t)} for Bernoulli (reflected), UniformInt, "
              "Uniform and the Poisson scan, and over the reals with the real logarithm for Exponential and Geometric (the same "
              "generic formulas the driver executes), with F the cdf P() reports.  An ast scan regenerated on every run proves that "
              "random.random (in unit()) and random.seed (the seed registration) are the only randomness in src/ka.  The "
              "model is tied to the code by replaying captured draw streams.  The DKW band itself, the Gaussian law, the "
              "Binomial law and 'seed fixes the stream' are not theorems: statistical test / observation only (partial).")
LEVEL_NOTE = ("Trusted: the ast scan, CPython's random module, libm (ln, exp, erf), the port of utils.erfinv in the driver.")
TECHNIQUE = "Lean 4 model over the draw stream + captured-stream differential replay + DKW statistical test"
TRUSTED_EXTRA = ["translate/gen_random.py (ast scan of src/ka for randomness sources)",
                 "the DKW band is checked as a statistical test with false-alarm probability < 1e-9 per case, not proved"]

TWO53 = 2 ** 53
KNOWN_UI = "support-uniformint-float-rounding"


# ----------------------------------------------------------------------------------------------
# tapping the draw stream
# ----------------------------------------------------------------------------------------------
class Tap:
    """Wraps ka.probability.unit (module attribute used by the samplers) and the function object the
    `rand` registration holds, logging every draw.  With `script` set, the draws are scripted."""

    def __init__(self, R):
        self.P = sys.modules["ka.probability"]
        self.F = R.functions
        self.log = []
        self.script = None
        self.patched = []
        self.rand_is_unit = None

    def unit(self):
        if self.script is not None:
            if not self.script:
                raise RuntimeError("scripted draws exhausted")
            u = self.script.pop(0)
        else:
            u = self.orig()
        self.log.append(u)
        return u

    def __enter__(self):
        self.orig = self.P.unit
        tap = self

        def unit():
            return tap.unit()
        self.P.unit = unit
        self.patched.append((self.P, "unit", self.orig))
        if getattr(self.F, "unit", None) is self.orig:
            self.F.unit = unit
            self.patched.append((self.F, "unit", self.orig))
        hs = self.F.FUNCTIONS.get("rand", [])
        self.rand_is_unit = bool(hs) and all(h.f is self.orig for h in hs)
        for h in hs:
            if h.f is self.orig:
                self.patched.append((h, "f", h.f))
                h.f = unit
        return self

    def __exit__(self, *a):
        for obj, name, old in reversed(self.patched):
            setattr(obj, name, old)
        self.patched = []


# ----------------------------------------------------------------------------------------------
# distributions
# ----------------------------------------------------------------------------------------------
PARAMS = {"Binomial": ("n", "p"), "Poisson": ("mu",), "Geometric": ("p",), "Bernoulli": ("p",),
          "UniformInt": ("lo", "hi"), "Exponential": ("lam",), "Uniform": ("lo", "hi"), "Gaussian": ("mu", "stddev")}
INT_PARAMS = {("Binomial", "n"), ("Poisson", "mu"), ("UniformInt", "lo"), ("UniformInt", "hi")}
DISCRETE = {"Binomial", "Poisson", "Geometric", "Bernoulli", "UniformInt"}


def qtxt(q):
    """Ka text of an exact rational"""
    q = Fraction(q)
    if q.denominator == 1:
        return str(q.numerator) if q >= 0 else "(%d)" % q.numerator
    return "%d/%d" % (q.numerator, q.denominator) if q > 0 else "((%d)/%d)" % (q.numerator, q.denominator)


def gen_prob(rng, lo_excl=False):
    r = rng.random()
    if r < 0.12 and not lo_excl:
        return "0"
    if r < 0.24:
        return "1"
    if r < 0.5:
        return rng.choice(["1/2", "1/3", "2/3", "1/10", "9/10", "1/4", "3/7", "1/50"])
    if r < 0.75:
        return rng.choice(["0.3", "0.5", "0.25", "0.7", "0.05", "0.95", "0.125"])
    b = rng.randrange(2, 60)
    return "%d/%d" % (rng.randrange(1, b), b)


def gen_num(rng, lo=-20, hi=20):
    r = rng.random()
    if r < 0.4:
        return qtxt(rng.randrange(lo, hi + 1))
    if r < 0.7:
        return qtxt(Fraction(rng.randrange(lo * 6, hi * 6 + 1), rng.choice([2, 3, 4, 6, 7])))
    return rng.choice(["0.5", "1.5", "2.25", "0.1", "3.75", "(-2.5)", "(-0.3)", "10.125"])


def gen_ctor(rng):
    name = rng.choice(["Binomial", "Poisson", "Geometric", "Bernoulli", "UniformInt", "Exponential", "Uniform", "Gaussian",
                       "UniformInt", "Bernoulli"])
    if name == "Binomial":
        return "Binomial(%d, %s)" % (rng.randrange(1, 13), gen_prob(rng))
    if name == "Poisson":
        return "Poisson(%d)" % rng.randrange(1, 9)
    if name == "Geometric":
        return "Geometric(%s)" % gen_prob(rng, lo_excl=True)
    if name == "Bernoulli":
        return "Bernoulli(%s)" % gen_prob(rng)
    if name == "UniformInt":
        lo = rng.choice([0, 1, -3, rng.randrange(-50, 51), rng.randrange(-10000, 10001)])
        return "UniformInt(%s, %s)" % (qtxt(lo), qtxt(lo + rng.choice([0, 1, 1, 2, 5, 5, 9, 36, 99, rng.randrange(0, 1000)])))
    if name == "Exponential":
        return "Exponential(%s)" % rng.choice(["1", "2", "1/3", "0.5", "10", "7/2", "0.01"])
    if name == "Uniform":
        a, b = gen_num(rng), gen_num(rng)
        # order through the real comparison later; here by value
        va, vb = eval_simple(a), eval_simple(b)
        if va > vb:
            a, b = b, a
        if rng.random() < 0.08:
            b = a
        return "Uniform(%s, %s)" % (a, b)
    return "Gaussian(%s, %s)" % (gen_num(rng), rng.choice(["1", "2", "1/2", "0.1", "3.5", "10"]))


def eval_simple(t):
    """value of the literal texts gen_num produces"""
    t = t.replace("(", "").replace(")", "")
    if "/" in t:
        a, b = t.split("/")
        return Fraction(int(a), int(b))
    return Fraction(t)


class Var:
    """a real random-variable object plus its exact parameters"""

    def __init__(self, R, text):
        self.text = text
        k, v = R.value(text)
        if k != "ok":
            raise ValueError("constructor %s failed: %s" % (text, v))
        self.obj = v
        self.name = type(v).__name__
        self.params = [getattr(v, a) for a in PARAMS[self.name]]
        self.q = [Fraction(p) for p in self.params]
        self.spec = self.name + ":" + ",".join(
            str(int(p)) if (self.name, a) in INT_PARAMS else "%d/%d" % (q.numerator, q.denominator)
            for a, p, q in zip(PARAMS[self.name], self.params, self.q))
        self.cost = (int(self.q[0]) if self.name == "Binomial" else
                     (0 if self.q[0] == 1 else 1) if self.name == "Geometric" else 1)

    def in_support(self, x):
        """the property's support clause, evaluated on a delivered Python value; returns (ok, why)"""
        n, q = self.name, self.q
        if isinstance(x, bool) or not isinstance(x, (int, float, Fraction)):
            return False, "not a number: %r" % (x,)
        if isinstance(x, float) and (x != x or x in (math.inf, -math.inf)):
            return False, "not finite"
        if n in DISCRETE:
            if not isinstance(x, int):
                return False, "not an integer: %r" % (x,)
            if n == "Binomial":
                return 0 <= x <= q[0], "outside [0, n]"
            if n == "Poisson":
                return x >= 0, "negative"
            if n == "Geometric":
                return x >= 1, "below 1"
            if n == "Bernoulli":
                return x in (0, 1), "not 0/1"
            return q[0] <= x <= q[1], "outside [lo, hi]"
        if n == "Exponential":
            return x >= 0, "negative"
        if n == "Uniform":
            if q[0] == q[1]:
                return (Fraction(x) == q[0] or x == float(q[0])), "a zero-width Uniform has exactly one point"
            tol = Fraction(1, 10 ** 12) * max(1, abs(q[0]), abs(q[1]))
            return q[0] - tol <= Fraction(x) <= q[1] + tol, "outside [lo, hi]"
        return True, ""

    def reference(self, us):
        """exact-arithmetic reading of the sampler, for the tie analysis: (value, quantity whose distance to a
        cell boundary decides whether float rounding inside the sampler may legitimately flip the cell)"""
        n, q = self.name, self.q
        if n == "UniformInt":
            x = q[0] + us[0] * (q[1] - q[0] + 1)
            return math.floor(x), x
        return None, None

    def is_tie(self, us, a, b):
        """may the code's float arithmetic and exact arithmetic land in the adjacent cells a / b for these draws?"""
        n, q = self.name, self.q
        if abs(a - b) != 1 or not us:
            return False
        u = Fraction(us[0])
        if n == "UniformInt":
            ref, pre = self.reference([u])
            return abs(pre - round(pre)) <= Fraction(1, 10 ** 9) * max(1, abs(pre))
        if n == "Poisson":
            mu, E = int(q[0]), Fraction(math.exp(-int(q[0])))
            k, c = int(min(a, b)), Fraction(0)
            if k > 400:
                return False
            for j in range(k + 1):
                c += Fraction(mu) ** j * E / math.factorial(j)
            return abs(c - u) <= Fraction(1, 10 ** 13)     # the draw sits on the boundary cdf(k) up to float summation error
        if n == "Geometric" and q[0] < 1 and 0 < u < 1:
            r = math.log(1 - float(u)) / math.log(1 - self.params[0])
            return abs(r - round(r)) <= 1e-9 * max(1.0, abs(r))
        return False


def frac_s(x):
    q = Fraction(x)
    return "%d/%d" % (q.numerator, q.denominator)


def real_res(v):
    """canonical text of a delivered result (same shape as the model driver's)"""
    if v is None:
        return "none"
    if hasattr(v, "contents"):
        return "arr:" + ",".join(frac_s(x) if isinstance(x, (int, float, Fraction)) and x == x and abs(x) != math.inf
                                 else "bad" for x in v.contents)
    if isinstance(v, (int, float, Fraction)) and not isinstance(v, bool) and v == v and abs(v) != math.inf:
        return "num:" + frac_s(v)
    return "bad:" + type(v).__name__


def parse_vals(s):
    """'num:a/b' | 'arr:…' | 'none' → list of Fractions / None"""
    if s == "none":
        return []
    k, _, r = s.partition(":")
    if k == "num":
        return [None if r in ("none", "bad") else Fraction(r)]
    if k == "arr":
        return [None if x in ("none", "bad") else Fraction(x) for x in r.split(",")] if r else []
    return None


def vals_agree(name, a, b):
    if a is None or b is None:
        return False
    if name in DISCRETE or name == "rand":
        return a == b
    tol = Fraction(1, 10 ** 12) if name == "Uniform" else Fraction(1, 10 ** 9)
    return abs(a - b) <= tol * max(1, abs(a), abs(b))


# ----------------------------------------------------------------------------------------------
def check(ctx):
    R = ctx.real
    rng = ctx.rng
    F = R.functions
    notes = ctx.notes
    stat = dict(rounding_ties=0, u0_corner=0, seed_sensitive=0, seed_insensitive=0, cpython_stream_match=0,
                cpython_stream_mismatch=0)

    def how_hist(texts):
        return ("PYTHONPATH=%s/src HOME=<empty dir> python -c 'from ka.interpret import execute; from ka.eval import "
                "EvalEnvironment as E; e=E(); [execute(t, env=e) for t in %r]'" % (core.REPO, texts))

    # ------------------------------------------------------------------ variables
    def make_vars(k):
        out = []
        while len(out) < k:
            t = gen_ctor(rng)
            try:
                out.append(Var(R, t))
            except ValueError:
                ctx.broken("a generated valid constructor was rejected by the real code", t)
                break
        return out

    # ------------------------------------------------------------------ one history on the real code
    def run_history(ops, vars_, tap):
        """ops: list of ('rand',) | ('seed',k) | ('s',vi) | ('m',vi,n).  Returns per-op
        (text, real result text, position, label, draws of this op) and the segments {label: draws}."""
        env = R.new_env()
        for i, v in enumerate(vars_):
            r = R.execute("D%d = %s" % (i, v.text), env=env)
            if r["status"] != 0 or r["escaped"]:
                raise core.Infra("assignment failed: %s" % v.text)
        label = "init"
        tap.log = []
        segs = {"init": []}
        out = []
        for op in ops:
            if op[0] == "rand":
                text = "rand()"
            elif op[0] == "seed":
                text = "seed(%s)" % qtxt(op[1])
            elif op[0] == "s":
                text = "sample(D%d)" % op[1] if op[-1] != "inline" else "sample(%s)" % vars_[op[1]].text
            else:
                text = "sample(D%d, %s)" % (op[1], qtxt(op[2]))
            before = len(tap.log)
            r = R.execute(text, env=env, timeout=30.0)
            if op[0] == "seed":
                segs[label] = merge_seg(segs.get(label), tap.log, label)
                label = str(op[1])
                tap.log = []
                before = 0
            draws = list(tap.log[before:])
            if r["status"] != 0 or r["escaped"]:
                res = "err:" + (r["escaped"] or r["err"].strip()[:60])
            else:
                res = real_res(r["value"])
            out.append(dict(op=op, text=text, res=res, pos=len(tap.log), label=label, draws=draws, value=r["value"]))
        segs[label] = merge_seg(segs.get(label), tap.log, label)
        return out, segs

    seg_conflicts = []

    def merge_seg(old, new, label):
        new = list(new)
        if old is None:
            return new
        m = min(len(old), len(new))
        if old[:m] != new[:m] and label != "init":
            seg_conflicts.append((label, old[:m], new[:m]))
        return old if len(old) >= len(new) else new

    def op_spec(op, vars_):
        if op[0] == "rand":
            return "rand"
        if op[0] == "seed":
            return "seed:%d" % op[1]
        if op[0] == "s":
            return "s:" + vars_[op[1]].spec
        return "m:%s:%d" % (vars_[op[1]].spec, op[2])

    # ------------------------------------------------------------------ the oracle on one op result
    def oracle_op(rec, vars_, texts):
        op = rec["op"]
        key_in = "%s  [history: %s]" % (rec["text"], "; ".join(texts))
        if rec["res"].startswith("err:"):
            ctx.violation("sample-error:" + rec["text"], key_in, "a value", rec["res"], how_hist(texts))
            return
        v = rec["value"]
        if op[0] == "rand":
            ok = isinstance(v, (int, float)) and not isinstance(v, bool) and 0 <= v < 1
            if not ok:
                ctx.violation("rand-range", key_in, "a number in [0,1)", repr(v), how_hist(texts))
            return
        if op[0] == "seed":
            return
        var = vars_[op[1]]
        xs = [v] if op[0] == "s" else (list(v.contents) if hasattr(v, "contents") else None)
        if xs is None:
            ctx.violation("sample-shape:" + rec["text"], key_in, "an array", repr(v), how_hist(texts))
            return
        if op[0] == "m" and len(xs) != max(op[2], 0):
            ctx.violation("sample-count:" + rec["text"], key_in, "%d values" % max(op[2], 0), "%d values" % len(xs), how_hist(texts))
        for j, x in enumerate(xs):
            ok, why = var.in_support(x)
            if ok:
                continue
            us = rec["draws"][j * var.cost:(j + 1) * var.cost] if var.cost else []
            if var.name in ("Geometric", "Gaussian", "Exponential") and us and us[0] == 0:
                stat["u0_corner"] += 1
                continue
            key = "support:%s" % var.text
            if var.name == "UniformInt" and len(us) == 1:
                ref, _ = var.reference([Fraction(us[0])])
                if var.q[0] <= ref <= var.q[1]:
                    # exact arithmetic stays in range: float rounding inside the sampler crossed hi/lo
                    # (the defect repaired by /repo 2bc01ee: math.floor(lo + u*(hi-lo+1)) added in floating point)
                    key = KNOWN_UI
            ctx.violation(key, "%s with draw(s) %r  [history: %s]" % (rec["text"], us, "; ".join(texts)),
                          "a value of the support of %s" % var.text, "%r (%s)" % (x, why), how_hist(texts))

    # ------------------------------------------------------------------ (i)+(ii): histories
    nh = ctx.n(300, 4000)
    cases = []
    hist_records = []
    with Tap(R) as tap:
        if not tap.rand_is_unit:
            notes.append("the `rand` registration does not hold the function object probability.unit (draws of rand() are not logged)")
        for hno in range(nh):
            vars_ = make_vars(rng.randrange(1, 4))
            if not vars_:
                continue
            ops = []
            for _ in range(rng.randrange(4, 17)):
                r = rng.random()
                vi = rng.randrange(len(vars_))
                if r < 0.22:
                    ops.append(("rand",))
                elif r < 0.32:
                    ops.append(("seed", rng.choice([0, 1, 2, 7, 42, -5, rng.randrange(10 ** 6), 2 ** 70 + rng.randrange(100)])))
                elif r < 0.66:
                    ops.append(("s", vi, "inline") if rng.random() < 0.3 else ("s", vi))
                else:
                    ops.append(("m", vi, rng.choice([-2, 0, 1, 2, 3, 5, 10, rng.randrange(0, 31)])))
            if hno % 3 == 0:
                ops.insert(0, ("seed", rng.randrange(10 ** 9)))
            seg_conflicts.clear()
            recs, segs = run_history(ops, vars_, tap)
            texts = ["D%d = %s" % (i, v.text) for i, v in enumerate(vars_)] + [r["text"] for r in recs]
            for lab, a, b in seg_conflicts:
                ctx.violation("reproducible:seed-stream", "; ".join(texts), "the same draws after every seed(%s)" % lab,
                              "two different draw sequences", how_hist(texts))
            for rec in recs:
                oracle_op(rec, vars_, texts)
                nm = rec["op"][0] if rec["op"][0] in ("rand", "seed") else vars_[rec["op"][1]].name
                ctx.count("%s|%s|%s" % (op_spec(rec["op"], vars_), rec["label"], rec["pos"]), nontrivial=bool(rec["draws"]),
                          bucket="op:" + ({"s": "sample:", "m": "sampleN:"}.get(rec["op"][0], "") + nm))
            req = "sprog %s%s" % (";".join(op_spec(o, vars_) for o in ops),
                                  "".join(" | %s:%s" % (lab, " ".join(frac_s(u) for u in ds)) for lab, ds in segs.items()))
            real = ";".join("%s@%d" % (r["res"], r["pos"]) for r in recs)
            cases.append((req, real, dict(kinds=[("rand" if o[0] == "rand" else "seed" if o[0] == "seed" else vars_[o[1]].name) for o in ops],
                                          vars=[v for v in vars_], ops=ops, recs=recs, texts=texts)))
            if hno < 4:
                ctx.sample(dict(history=texts, results=[r["res"][:60] for r in recs][:8]))
            hist_records.append((ops, vars_, recs, texts))
            # is the captured stream CPython's Mersenne Twister stream for that seed?  (informational)
            for lab, ds in segs.items():
                if lab != "init" and ds:
                    g = _pyrandom.Random(int(lab))
                    if [g.random() for _ in ds] == ds:
                        stat["cpython_stream_match"] += 1
                    else:
                        stat["cpython_stream_mismatch"] += 1

        # ---- reproducibility: the same history after the same seed twice, and after another seed
        nrep = ctx.n(100, 800)
        for ops, vars_, recs, texts in hist_records[:nrep]:
            k = rng.randrange(10 ** 9)
            base = [o for o in ops]
            a, _ = run_history([("seed", k)] + base, vars_, tap)
            b, _ = run_history([("seed", k)] + base, vars_, tap)
            ra, rb = [x["res"] for x in a], [x["res"] for x in b]
            t2 = ["D%d = %s" % (i, v.text) for i, v in enumerate(vars_)] + [x["text"] for x in a]
            ctx.count("repro|%d|%s" % (k, ";".join(op_spec(o, vars_) for o in base)), bucket="reproducibility-run")
            if ra != rb:
                j = next(i for i in range(len(ra)) if ra[i] != rb[i])
                ctx.violation("reproducible:" + "; ".join(t2), "; ".join(t2) + "   (executed twice)",
                              "identical results after the same seed", "operation %d (%s): %s vs %s" % (j, a[j]["text"], ra[j][:80], rb[j][:80]),
                              how_hist(t2) + "  # twice")
            # different seed: only the part before the history's own first seed() can differ
            cut = next((i for i, o in enumerate(base) if o[0] == "seed"), len(base))
            cont = [i for i in range(cut) if a[1 + i]["draws"] and (base[i][0] == "rand" or vars_[base[i][1]].name in ("Uniform", "Exponential", "Gaussian"))
                    and not (base[i][0] != "rand" and vars_[base[i][1]].name == "Uniform" and vars_[base[i][1]].q[0] == vars_[base[i][1]].q[1])]
            if len(cont) >= 2:
                c, _ = run_history([("seed", k + 1 + rng.randrange(1000))] + base, vars_, tap)
                if [c[1 + i]["res"] for i in cont] == [a[1 + i]["res"] for i in cont]:
                    stat["seed_insensitive"] += 1
                else:
                    stat["seed_sensitive"] += 1
        if stat["seed_insensitive"] and not stat["seed_sensitive"]:
            ctx.broken("seed(k) has no observable effect: different seeds gave identical continuous results in all %d "
                       "re-runs, so 'reproducible from the seed' is not being tested" % stat["seed_insensitive"])
        elif stat["seed_insensitive"]:
            notes.append("%d re-runs under a different seed gave identical results (%d differed)" % (stat["seed_insensitive"], stat["seed_sensitive"]))

        # ---- scripted edge draws, one sample() per request (stream `sample`)
        ecases = []
        evars = []
        fixed = ["Bernoulli(0)", "Bernoulli(1)", "Bernoulli(1/3)", "Bernoulli(0.3)", "Binomial(4, 1/2)", "Binomial(3, 1)", "Binomial(3, 0)",
                 "Poisson(1)", "Poisson(4)", "Geometric(1)", "Geometric(1/2)", "Geometric(0.9)", "Geometric(1/50)",
                 "UniformInt(1, 6)", "UniformInt(0, 0)", "UniformInt((-3), 3)", "UniformInt(8, 13)", "UniformInt(1000, 1005)",
                 "Exponential(2)", "Exponential(1/3)", "Uniform(0, 1)", "Uniform(1/3, 1/2)", "Uniform((-2.5), 4)", "Uniform(2, 2)",
                 "Gaussian(0, 1)", "Gaussian(1/3, 2)"]
        for t in fixed:
            evars.append(Var(R, t))
        evars += make_vars(ctx.n(40, 400))
        ulp = Fraction(1, TWO53)
        for var in evars:
            edge = [ulp, 1 - ulp, Fraction(1, 2), Fraction(rng.randrange(1, TWO53), TWO53), Fraction(rng.randrange(1, TWO53), TWO53),
                    Fraction(1, 4), 3 * ulp, 1 - 2 * ulp]
            if var.name in ("Bernoulli", "Binomial", "Geometric"):
                p = var.q[-1]
                pf = Fraction(math.floor(p * TWO53), TWO53)
                edge += [x for x in (pf - ulp, pf + ulp, 1 - pf - ulp if pf < 1 else ulp) if 0 < x < 1 and x != p]
            if var.name == "UniformInt":
                n = var.q[1] - var.q[0] + 1
                for kk in {1, int(n) - 1, rng.randrange(1, int(n) + 1)}:
                    c = Fraction(math.floor(Fraction(kk, 1) / n * TWO53), TWO53)
                    edge += [x for x in (c - ulp, c, c + ulp) if 0 < x < 1]
            if var.name == "Poisson":
                mu = int(var.q[0])
                acc = 0.0
                for kk in range(0, 3 * mu + 3):
                    acc += mu ** kk * math.exp(-mu) / math.factorial(kk)
                    c = Fraction(math.floor(Fraction(acc) * TWO53), TWO53)
                    edge += [x for x in (c - 16 * ulp, c + 16 * ulp) if 0 < x < 1]
            if var.name in ("Bernoulli", "Binomial"):
                # `u < p` and `u <= p` differ only at the single draw u = p (probability 2^-53): both satisfy the property,
                # so that draw is not part of the edge stream (the model follows the code's `<`)
                edge = [x for x in edge if x != var.q[-1]]
            if var.name == "Poisson":
                # a draw above the plateau of the float running sum (within ~2^-52 of 1) sends Poisson.sample into
                # OverflowError after ~600 iterations; documented corner (see notes), not part of the edge stream
                edge = [x for x in edge if x <= 1 - Fraction(1, 2 ** 40)] + [1 - Fraction(1, 2 ** 40), 1 - Fraction(3, 2 ** 41)]
            for u in edge:
                us = [u] + [Fraction(rng.randrange(1, TWO53), TWO53) for _ in range(max(var.cost - 1, 0))]
                us = us[:var.cost] if var.cost else []
                tap.script = [float(x) for x in us]
                tap.log = []
                env = R.new_env()
                R.execute("D = " + var.text, env=env)
                r = R.execute("sample(D)", env=env, timeout=30.0)
                used = len(tap.log)
                tap.script = None
                rec = dict(op=("s", 0), text="sample(%s)" % var.text, draws=list(map(float, us)), value=r["value"],
                           res=("err:" + (r["escaped"] or r["err"].strip()[:60])) if (r["status"] != 0 or r["escaped"]) else real_res(r["value"]))
                texts = ["D = " + var.text, "sample(D)  # with unit() scripted to return %r" % [float(x) for x in us]]
                oracle_op(rec, [var], texts)
                ctx.count("edge|%s|%s" % (var.spec, ",".join(map(frac_s, us))), nontrivial=bool(us), bucket="edge-draw:" + var.name)
                ecases.append(("sample %s %s %s" % (var.name, var.spec.split(":")[1], " ".join(frac_s(x) for x in us)),
                               "%s %d" % (rec["res"].replace("num:", ""), used), dict(var=var, us=us, text=var.text)))
            tap.script = None
        # the documented measure-zero corner, observed (not alarmed)
        tap.script = [0.0]
        gv = Var(R, "Geometric(1/2)")
        try:
            with core.alarm(5):
                z = gv.obj.sample()
            notes.append("measure-zero corner observed: Geometric(1/2).sample() with the draw u = 0.0 returns %r (outside the support; "
                         "probability 2^-53 per draw; documented, not alarmed)" % (z,))
        except Exception as e:  # noqa
            notes.append("measure-zero corner: Geometric(1/2).sample() with u = 0.0 raised %s" % type(e).__name__)
        tap.script = [1 - 2.0 ** -53]
        r = R.execute("sample(Poisson(4))", timeout=30.0)
        notes.append("near-1 corner observed: sample(Poisson(4)) with the draw u = 1-2^-53 gives %s (the float running sum of the scan "
                     "never exceeds such a draw; probability ~2^-52 per sample; documented, not alarmed)"
                     % (("the error %r" % r["err"].strip()[:50]) if r["status"] != 0 else "the value %r" % (r["value"],)))
        tap.script = None

    # ---- correspondence of the histories
    def agree_hist(real, model, info):
        ra, ma = real.split(";"), model.split(";")
        if len(ra) != len(ma):
            return False
        for r, m, kind, rec in zip(ra, ma, info["kinds"], info["recs"]):
            rv, _, rp = r.rpartition("@")
            mv, _, mp = m.rpartition("@")
            if rp != mp:
                return False
            a, b = parse_vals(rv), parse_vals(mv)
            if a is None or b is None or len(a) != len(b):
                return False
            for j, (x, y) in enumerate(zip(a, b)):
                if vals_agree(kind, x, y):
                    continue
                # rounding tie?  (float arithmetic inside the sampler crossing a cell boundary)
                if kind in DISCRETE and x is not None and y is not None and rec["op"][0] in ("s", "m"):
                    var = info["vars"][rec["op"][1]]
                    if var.cost == 1 and var.is_tie([rec["draws"][j]], x, y):
                        stat["rounding_ties"] += 1
                        continue
                return False
        return True
    ctx.correspond("sprog", cases, agree=agree_hist, describe=lambda i: "; ".join(i["texts"]))

    def agree_edge(real, model, info):
        if real == model:
            return True
        var = info["var"]
        rv, _, rc = real.rpartition(" ")
        mv, _, mc = model.rpartition(" ")
        if rc != mc or rv.startswith("err") or mv in ("none", "short", "bad-op", "err"):
            return False
        try:
            x, y = Fraction(rv), Fraction(mv)
        except (ValueError, ZeroDivisionError):
            return False
        if vals_agree(var.name, x, y):
            return True
        if var.name in DISCRETE and var.is_tie(info["us"], x, y):
            stat["rounding_ties"] += 1
            return True
        return False
    ctx.correspond("sample", ecases, agree=agree_edge, describe=lambda i: "%s draws %s" % (i["text"], [float(u) for u in i["us"]]))

    # ---- the restated cdfs vs the real P(X <= t)
    ccases = []
    for t in ["Bernoulli(1/3)", "Bernoulli(0.3)", "Bernoulli(0)", "Bernoulli(1)", "UniformInt(1, 6)", "UniformInt((-3), 3)", "UniformInt(5, 5)",
              "Uniform(0, 1)", "Uniform(1/3, 1/2)", "Uniform((-2.5), 4)", "Poisson(1)", "Poisson(3)", "Poisson(7)"]:
        var = Var(R, t)
        pts = [Fraction(k) for k in range(-3, 16)] + [Fraction(rng.randrange(-40, 160), 8) for _ in range(6)]
        for tt in pts:
            if var.name != "Uniform":
                tt = Fraction(math.floor(tt))
            arg = tt.numerator if tt.denominator == 1 else tt
            try:
                with core.alarm(5):
                    pv = F.dispatch("P", [F.dispatch("<=", [var.obj, arg])])
            except Exception as e:  # noqa
                ctx.broken("P(%s <= %s) raised %s" % (t, tt, type(e).__name__))
                continue
            ctx.count("cdf|%s|%s" % (var.spec, tt), bucket="cdf-tie:" + var.name)
            ccases.append(("scdf %s %s %s" % (var.name, var.spec.split(":")[1], frac_s(tt)), frac_s(pv), dict(text=t, t=str(tt))))

    def agree_cdf(real, model, info):
        try:
            a, b = Fraction(real), Fraction(model)
        except (ValueError, ZeroDivisionError):
            return False
        return abs(a - b) <= Fraction(1, 10 ** 12)
    ctx.correspond("scdf", ccases, agree=agree_cdf, describe=lambda i: "P(%s <= %s)" % (i["text"], i["t"]))

    # ------------------------------------------------------------------ (ii) large-parameter support sweep (real code only)
    big = ["UniformInt(10^15, 10^15+5)", "UniformInt(-10^15-5, -10^15)", "UniformInt(2^53, 2^53+2)", "UniformInt(10^18, 10^18+1)",
           "UniformInt(-7, 10^9)", "UniformInt(10^9, 10^9+9)", "UniformInt(0, 10^18)", "UniformInt(3, 3)", "UniformInt(1, 6)",
           "Bernoulli(0)", "Bernoulli(1)", "Binomial(20, 0)", "Binomial(20, 1)", "Binomial(40, 1/2)", "Geometric(1)", "Geometric(1/1000)",
           "Binomial(2000, 0.0005)", "Binomial(600, 1/3000)", "Binomial(1000, 0.999)", "Binomial(3000, 1/2)", "Poisson(60)",
           "Geometric(0.999)", "Poisson(1)", "Poisson(12)", "Exponential(1/1000)", "Exponential(1000)", "Uniform(10^15, 10^15+1)",
           "Uniform(-1/1000, 1/1000)", "Uniform(5, 5)", "Uniform(1.7, 1.7)", "Uniform(1.3, 1.3)", "Uniform(9.9, 9.9)", "Uniform(2.6, 2.6)",
           "Uniform(-1.3, -1.3)", "Uniform(0.1, 0.1 + 1e-16)", "Uniform(1/3, 1/3)", "Uniform(-10^6, 10^6)", "Gaussian(0, 1/1000)", "Gaussian(10^6, 1)"]
    nbig = ctx.n(1500, 30000)
    with Tap(R) as tap:
        for t in big:
            var = Var(R, t)
            seed = rng.randrange(10 ** 9)
            n = nbig if var.name != "Binomial" else nbig // 10
            texts_b = ["seed(%d)" % seed, "sample(%s, %d)" % (t, n)]
            R.execute(texts_b[0])
            tap.log = []
            r = R.execute(texts_b[1], timeout=120.0)
            rec = dict(op=("m", 0, n), text=texts_b[1], draws=list(tap.log), value=r["value"],
                       res=("err:" + (r["escaped"] or r["err"].strip()[:60])) if (r["status"] != 0 or r["escaped"]) else "ok")
            oracle_op(rec, [var], texts_b)
            ctx.count("big|%s|%d" % (t, seed), bucket="support-sweep:" + var.name)

    # ------------------------------------------------------------------ (iii) DKW band — a statistical test
    N = ctx.n(20000, 200000)
    delta = 1e-9
    eps = math.sqrt(math.log(2 / delta) / (2 * N))
    dkw_cases = ["Bernoulli(1/3)", "Bernoulli(0.9)", "Binomial(8, 0.3)", "Binomial(3, 1/2)", "Poisson(2)", "Poisson(6)", "Geometric(1/4)",
                 "Geometric(0.6)", "UniformInt(1, 6)", "UniformInt((-10), 40)", "UniformInt((-3), 3)", "UniformInt((-1), 0)",
                 "UniformInt((-6), (-3))", "Exponential(2)", "Exponential(1/5)", "Uniform(0, 1)",
                 "Uniform((-3), 7/2)", "Gaussian(0, 1)", "Gaussian(5, 1/4)"]
    if not ctx.quick():
        dkw_cases += ["Binomial(12, 0.05)", "Poisson(1)", "Geometric(0.05)", "UniformInt(0, 1)", "Uniform(1/3, 1/2)", "Gaussian((-2), 10)"]
    dkw_report = []
    N_default = N
    # large but legal rates (exp(-mu) underflows from mu = 746 on; the scan costs ~mu terms per value, hence the small N)
    small = [("UniformInt(0, 6*10^15)", 3000), ("UniformInt((-2^52), 2^52)", 3000), ("UniformInt(1, 5*10^31)", 3000), ("UniformInt(0, 2^53)", 3000),
             ("Poisson(746)", 80), ("Poisson(1000)", 60), ("Poisson(745)", 60), ("Binomial(1100, 0.999)", 60),
             # many trials, few expected successes: the law is far from its normal approximation, and a large sample shows it
             ("Binomial(1001, 0.005)", 30000),
             # parameters at the edge of float precision: 1 - p keeps few of p's digits, and P() and sample() must still agree
             ("Geometric(1.6e-16)", 8000), ("Geometric(7.0e-17)", 8000), ("Geometric(1.5e-9)", 4000), ("Exponential(1.5e-300)", 4000),
             ("Exponential(1.5e300)", 4000), ("Bernoulli(1.5e-17)", 3000)] + \
            ([("Poisson(2500)", 60), ("Poisson(800)", 400), ("Geometric(1/100000)", 300)] if not ctx.quick() else [])
    for t, N in [(t_, N_default) for t_ in dkw_cases] + small:
        eps = math.sqrt(math.log(2 / delta) / (2 * N))
        var = Var(R, t)
        seed = rng.randrange(10 ** 9)
        env = R.new_env()
        R.execute("X = " + t, env=env)
        R.execute("seed(%d)" % seed, env=env)
        r = R.execute("sample(X, %d)" % N, env=env, timeout=600.0)
        how = how_hist(["X = " + t, "seed(%d)" % seed, "sample(X, %d)" % N]) + "  # empirical cdf vs P(X <= t)"
        if r["status"] != 0 or r["escaped"] or not hasattr(r["value"], "contents"):
            ctx.violation("sample-error:dkw:" + t, "seed(%d); sample(%s, %d)" % (seed, t, N), "an array of %d samples" % N,
                          str((r["status"], r["escaped"], r["err"][:80])), how)
            continue
        xs = sorted(r["value"].contents)
        if len(xs) != N:
            ctx.violation("sample-count:dkw:" + t, "seed(%d); sample(%s, %d)" % (seed, t, N), "%d values" % N, "%d values" % len(xs), how)
            continue

        def cdf(tt):
            with core.alarm(20):
                return float(F.dispatch("P", [F.dispatch("<=", [var.obj, tt])]))
        D, where = 0.0, None
        try:
            if var.name in DISCRETE and int(xs[-1]) - int(xs[0]) > 20000:
                # a wide integer support: the supremum is attained at a sample point or just below one
                i = 0
                while i < N:
                    j = i
                    while j + 1 < N and xs[j + 1] == xs[i]:
                        j += 1
                    d = max(abs((j + 1) / N - cdf(xs[i])), abs(i / N - cdf(xs[i] - 1)))
                    if d > D:
                        D, where = d, xs[i]
                    i = j + 1
            elif var.name in DISCRETE:
                import bisect
                for k in range(int(xs[0]) - 1, int(xs[-1]) + 1):
                    fn = bisect.bisect_right(xs, k) / N
                    d = abs(fn - cdf(k))
                    if d > D:
                        D, where = d, k
            else:
                i = 0
                while i < N:
                    j = i
                    while j + 1 < N and xs[j + 1] == xs[i]:
                        j += 1
                    Fx = cdf(xs[i])
                    d = max(abs((j + 1) / N - Fx), abs(i / N - Fx))
                    if d > D:
                        D, where = d, xs[i]
                    i = j + 1
        except Exception as e:  # noqa
            ctx.broken("P(%s <= t) could not be evaluated for the DKW test: %s" % (t, type(e).__name__))
            continue
        verdict = "inside" if D <= eps else "OUTSIDE"
        dkw_report.append(dict(case=t, seed=seed, N=N, eps=round(eps, 6), D=round(D, 6), at=str(where), verdict=verdict))
        ctx.count("dkw|%s|%d" % (t, seed), bucket="dkw:" + var.name)
        if D > eps:
            ctx.violation("dkw:" + t, "seed(%d); sample(%s, %d)" % (seed, t, N),
                          "sup_t |F_N(t) - P(X<=t)| <= %.5f (DKW, delta=1e-9) — STATISTICAL TEST" % eps,
                          "%.5f at t = %s" % (D, where), how)
    ctx.cov["dkw_statistical_test"] = dict(
        label="STATISTICAL TEST, not a proof: DKW band sup|F_N - F| <= eps with eps = sqrt(ln(2/delta)/(2N)), delta = 1e-9; "
              "a correct sampler is flagged with probability < 1e-9 per case; F = the real P(X <= t) through ka.functions.dispatch",
        cases=dkw_report)
    ctx.cov["stream_observations"] = stat
    if stat["cpython_stream_mismatch"]:
        notes.append("captured draws after seed(k) differ from CPython's random.Random(k) stream in %d segments (informational)" % stat["cpython_stream_mismatch"])
