"""C10 — overload resolution: unique most specific signature, order-independent."""
import math
import os, sys, json, itertools
from fractions import Fraction
import core

ID = "C10"
LEAN_MODULES = ["KaVerif.Props.C10"]
GEN = ["Registry"]
THEOREMS = ["KaVerif.C10_scan_any_order", "KaVerif.C10_order_independent", "KaVerif.C10_long_arglists",
            "KaVerif.C10_vararg_table", "KaVerif.C10_no_narrowing", "KaVerif.C10_errors_before_body",
            "KaVerif.C10_unknown_name", "KaVerif.C10_no_match", "KaVerif.C10_keywords",
            "KaVerif.Gen.Registry.tables"]
RULE = ("every registered name x every tuple of the 23 value classes up to the name's largest arity (complete for "
        "arity<=2, sampled for arity 3 in the quick tier, complete in the thorough tier) plus longer lists; real "
        "lookup_function+get_closest_match vs the model's choice; the applicable list is re-scanned under random "
        "permutations of the real registry order; keyword names/kinds for every keyword-taking function; "
        "non-trivial = at least one signature applies; distinct = distinct (name, class tuple, keywords)")
ASSUMPTIONS = ["isinstance/issubclass on the value classes behave as the generated tables record (tables are regenerated each run)"]
LEVEL_TEXT = ("Machine-checked proof (Lean 4): the registry and type lattice are regenerated from the live ka.functions.FUNCTIONS on "
              "every run and the kernel re-checks, for every name and every tuple of value classes (complete enumeration, 127k tuples), "
              "that the applicable set is empty or has a unique most specific signature; a generic scan lemma lifts this to every "
              "permutation of the registration order (unbounded, no permutations enumerated); longer argument lists, no-narrowing and "
              "errors-before-body are proved over the same tables. The hand-written matches/closest-match algorithms are tied to the "
              "code by exhaustive correspondence over the same tuples.")
LEVEL_NOTE = ("Trusted: the translator's printing of FUNCTIONS and of isinstance/issubclass; function bodies are a parameter of the "
              "model's dispatch (their behaviour belongs to other properties).")
TECHNIQUE = "Lean 4: generated registry + complete kernel decide per name + generic permutation lemma; exhaustive correspondence"


def sample_values(R):
    """one representative value per concrete class, in the order of registry.json['classes']"""
    T, P, PL = R.types, __import__("ka.probability").probability, __import__("ka.plot").plot
    import datetime
    qv = R.units.QSPACE.get_basis_vector("m")
    vals = {
        "int": 3, "Fraction": Fraction(1, 2), "float": 1.5, "bool": True,
        "Combinatoric": T.Combinatoric(ns=[T.IntRange(2, 5)]), "Quantity": T.Quantity(2, qv),
        "Array": T.Array([1, 2]), "Interval": T.Interval(1, 2), "Instant": T.Instant(datetime.datetime(2020, 1, 1)),
        "str": "s", "Binomial": P.Binomial(3, 0.5), "Poisson": P.Poisson(2), "Geometric": P.Geometric(0.5),
        "Bernoulli": P.Bernoulli(0.5), "UniformInt": P.UniformInt(1, 3), "Exponential": P.Exponential(1),
        "Uniform": P.Uniform(0, 1), "Gaussian": P.Gaussian(0, 1),
        "Event": P.Event("<", P.Bernoulli(0.5), 1), "DoubleEvent": P.DoubleEvent("<", "<", 0, P.Bernoulli(0.5), 1),
        "PlotOptions": PL.PlotOptions(), "PlotDrawing": PL.PlotDrawing(lambda: None), "NoneType": None,
    }
    return vals


def check(ctx):
    R = ctx.real
    F = R.functions
    sys.path.insert(0, os.path.join(core.VERIF, "translate"))
    import gen
    meta = json.load(open(os.path.join(core.LEAN, "KaVerif", "Gen", "registry.json")))
    classes = meta["classes"]
    vals = sample_values(R)
    valist = [vals[c] for c in classes]
    rng = ctx.rng
    impls = meta["impls"]

    def impl_id(name, h):
        d = "%s|%s|%s" % (name, str(h.sig), gen.canonical_desc(name, str(h.sig), h.f))
        return impls.index(d) if d in impls else -1

    cases = []
    expected_run = []
    names = list(F.FUNCTIONS.keys())
    if names != meta["names"]:
        ctx.broken("registry.json is stale w.r.t. the running FUNCTIONS (translator did not run?)")
    nperm = ctx.n(4, 40)
    for name in names:
        headers = list(F.FUNCTIONS[name])
        maxar = max(len(h.sig.args) for h in headers)
        tuples = []
        for ar in range(0, maxar + 2):
            allt = itertools.product(range(len(classes)), repeat=ar)
            if ar <= 2 or not ctx.quick():
                if ar <= 3:
                    tuples += list(allt)
                else:
                    tuples += [tuple(rng.randrange(len(classes)) for _ in range(ar)) for _ in range(300)]
            else:
                tuples += [tuple(rng.randrange(len(classes)) for _ in range(ar)) for _ in range(400)]
        for tup in tuples:
            args = [valist[i] for i in tup]
            app = [h for h in headers if h.sig_matches(args)]
            key = "%s(%s)" % (name, ",".join(classes[i] for i in tup))
            ctx.count(key, nontrivial=bool(app), bucket="applicable=%d" % min(len(app), 4))
            if app:
                chosen = F.get_closest_match(app)
                real = "ok %d" % impl_id(name, chosen)
                # ---- the property on the real code: least, unique, order-independent
                least = [h for h in app if all(F.types_below(h.sig, o.sig) for o in app)]
                strict = [h for h in least if not any(o is not h and F.types_below(o.sig, h.sig) for o in app)]
                if len(strict) != 1 or strict[0] is not chosen:
                    ctx.violation("dispatch-least:" + key, key, "a unique most specific applicable signature, chosen",
                                  "applicable=%s least=%s chosen=%s" % ([str(h.sig) for h in app], [str(h.sig) for h in least], chosen.sig),
                                  "ka.functions.lookup_function(%r, <values of those classes>)" % name)
                if len(app) > 1:
                    for _ in range(nperm):
                        perm = headers[:]
                        rng.shuffle(perm)
                        app2 = [h for h in perm if h.sig_matches(args)]
                        c2 = F.get_closest_match(app2)
                        if c2 is not chosen:
                            ctx.violation("dispatch-order:" + key, key, str(chosen.sig), str(c2.sig),
                                          "get_closest_match over registration order %s" % [str(h.sig) for h in perm])
                            break
                if len(ctx.cov["samples"]) < 8 and len(app) > 1:
                    ctx.sample(dict(call=key, applicable=[str(h.sig) for h in app], chosen=str(chosen.sig)))
            else:
                real = "err nomatch"
            cases.append(("disp %s %s -" % (name, ",".join(map(str, tup)) or "-"), real, key))
            if len(tup) <= 2 or rng.random() < 0.2:
                expected_run.append((name, tup, chosen if app else None, key))
    # ---- keywords: every keyword-taking function, known/unknown names, right/wrong kinds
    kwn = meta["kwnames"]
    for name in names:
        for h in F.FUNCTIONS[name]:
            if not h.sig.kw_args:
                continue
            sigmeta = [s for s in meta["sigs"][name] if s["text"] == str(h.sig)][0]
            pos = []
            ok = True
            for t in sigmeta["pos"]:
                # a class that is an instance of the declared type
                tt = h.sig.args[len(pos)]
                c = next((i for i, v in enumerate(valist) if R.types.is_type(v, tt)), None)
                if c is None:
                    ok = False
                    break
                pos.append(c)
            if not ok:
                continue
            args = [valist[i] for i in pos]
            for k in list(h.sig.kw_args)[:6] + ["nosuchkw"]:
                for c in (0, 2, 6, 9, 22):
                    kid = kwn.index(k) if k in kwn else 999
                    called = []
                    saved = [(hh, hh.f) for hh in F.FUNCTIONS[name]]
                    for hh, f in saved:
                        hh.f = (lambda *a, **kw: called.append(1))
                    try:
                        try:
                            F.dispatch(name, args, kw_args={k: valist[c]})
                            real = "ok"
                        except Exception as e:  # noqa
                            real = "err " + core.err_code(e)
                    finally:
                        for hh, f in saved:
                            hh.f = f
                    key = "%s(%s; %s: %s)" % (name, ",".join(classes[i] for i in pos), k, classes[c])
                    ctx.count(key, bucket="kw:" + real)
                    expect_err = (k not in h.sig.kw_args) or not R.types.is_type(valist[c], h.sig.kw_args[k])
                    if expect_err and (real == "ok" or called):
                        ctx.violation("dispatch-kw:" + key, key, "unknown/badly typed keyword rejected before the body runs",
                                      "%s body_ran=%s" % (real, bool(called)), "ka.functions.dispatch(%r, ..., kw_args={%r: ...})" % (name, k))
                    cases.append(("disp %s %s %d:%d" % (name, ",".join(map(str, pos)) or "-", kid, c),
                                  real if real != "ok" else "ok", key))
    # unknown names — also after the interpreter's own lookups of that name (help commands must not register it)
    import io as _io, contextlib as _cl
    keys_before = list(F.FUNCTIONS.keys())
    for nm in ("nosuchfn", "frobnicate"):
        with _cl.redirect_stdout(_io.StringIO()):
            try:
                with core.alarm(5):
                    R.interpret.execute_interpreter_command("%f " + nm)
                    R.interpret.execute_interpreter_command("%function " + nm)
                    R.interpret.execute_interpreter_command("%fs")
                    R.interpret.print_function_info(nm)
            except Exception:  # noqa  (escapes of % commands are C06's subject)
                pass
    if list(F.FUNCTIONS.keys()) != keys_before:
        extra = [k for k in F.FUNCTIONS.keys() if k not in keys_before]
        ctx.violation("dispatch-unknown-registered:" + ",".join(extra), "%f " + ",".join(extra) + " ; then call it",
                      "an unknown name stays unknown (UnknownFunctionError)", "the name is now a key of FUNCTIONS with no signatures",
                      "execute_interpreter_command('%f frobnicate'); dispatch('frobnicate', [1])")
    # unknown names called as TEXT (the evaluator looks at the call before dispatch does): still unknown, and nothing gets registered
    keys_before2 = list(F.FUNCTIONS.keys())
    for text in ("nosuchfn(3!)", "lg(10!)", "Sin(3!)", "foo(1, C(4,2))", "foo(3!/2!)", "bar(x: 3!)", "baz({3!})", "x = 4!; qux(x)", "nosuchfn(1 m)",
                 "nosuchfn([1,2])", "nosuchfn(#2020-01-01#)", "nosuchfn()", "nosuchfn(1, k: 2)", "nosuchfn(Binomial(3, 1/2))"):
        k_, v_ = R.value(text)
        ctx.count("unknown-text:" + text, bucket="unknown-name-as-text")
        if k_ != "err" or v_ != "unknownfn":
            ctx.violation("dispatch-unknown-text:" + text, text, "err unknownfn", "%s %s" % (k_, v_), "execute(%r)" % text)
    if list(F.FUNCTIONS.keys()) != keys_before2:
        extra = [k for k in F.FUNCTIONS.keys() if k not in keys_before2]
        ctx.violation("dispatch-unknown-registered:" + ",".join(extra), "calls of unknown names: " + ",".join(extra), "an unknown name stays unknown",
                      "the names are now keys of FUNCTIONS", "execute('lg(10!)') then execute('lg(10)')")
        for k in extra:
            F.FUNCTIONS.pop(k, None)
    for nm in ("nosuchfn", "Sin", "sum2", "frobnicate"):
        try:
            F.dispatch(nm, [1])
            real = "ok"
        except Exception as e:  # noqa
            real = "err " + core.err_code(e)
        if real != "err unknownfn":
            ctx.violation("dispatch-unknown:" + nm, nm, "err unknownfn", real, "dispatch(%r,[1])" % nm)
        cases.append(("disp %s 0 -" % nm, real, nm))

    # keywords handed to functions that declare NO keyword: rejected before the body runs, too
    probes = [("sin", [0]), ("range", [1, 3]), ("log", [8, 2]), ("max", [1, 2]), ("C", [4, 2]), ("+", [1, 2]), ("seed", [5]),
              ("interval", [1, 2]), ("sum", [vals["Array"]]), ("floor", [Fraction(7, 2)]), ("!", [3]), ("year", [vals["Instant"]])]
    for name, args in probes:
        if name not in F.FUNCTIONS:
            continue
        called = []
        saved = [(hh, hh.f) for hh in F.FUNCTIONS[name]]
        for hh, f in saved:
            hh.f = (lambda *a, **kw: called.append(1))
        try:
            try:
                F.dispatch(name, args, kw_args={"bogus": 1})
                real = "ok"
            except Exception as e:  # noqa
                real = "err " + core.err_code(e)
        finally:
            for hh, f in saved:
                hh.f = f
        key = "%s(..., bogus: 1)" % name
        ctx.count(key, bucket="kw-on-nokw:" + real)
        if real != "err unknownkw" or called:
            ctx.violation("dispatch-kw:" + key, key, "UnknownKeywordError before the body runs", "%s body_ran=%s" % (real, bool(called)),
                          "ka.functions.dispatch(%r, %r, kw_args={'bogus': 1})" % (name, args))
        cls = [classes.index(type(a).__name__ if type(a).__name__ in classes else "int") for a in args]
        cases.append(("disp %s %s 999:0" % (name, ",".join(map(str, cls))), real, key))

    def agree(real, model, info):
        if real == "ok":
            return model.startswith("ok")
        return real == model
    ctx.correspond("disp", cases, agree=agree)
    # a value is accepted where a wider numeric kind is expected — also in VARARG positions (lazy values are Numbers)
    for text, want in (("max(3!, 7)", 7), ("min(C(5,2), 12)", 10), ("min(4, 3!, 5/2)", Fraction(5, 2)), ("max(2, 0*3!)", 2),
                       ("x = C(6,3); max(x, 21, 0.5)", 21), ("max(3!)", 6), ("min(1/2, 1)", Fraction(1, 2)), ("max(1, 2.5, 7/2)", Fraction(7, 2))):
        k, v = R.value(text)
        ctx.count("widen:" + text, bucket="widening-exec")
        if k != "ok" or v != want:
            ctx.violation("dispatch-widen:" + text, text, str(want), repr((k, v)), "execute(%r)" % text)

    # ---- keyword calls as TEXT (the evaluator splits the argument list before dispatch sees it): whether a call is
    # accepted depends on the kinds of its positional arguments and on its keywords as written — a positional list that matches
    # no signature is rejected whatever keywords follow (also when one is written twice), and no body runs
    TXT = {"Number": ["1", "2.5", "1/2"], "String": ['"a"'], "Array": ["{1, 2}"], "Bool": ["1", "0"]}

    def txt_of(t):
        return TXT.get(R.types.get_type_as_string(t), ["1"])
    for name in names:
        for h in F.FUNCTIONS[name]:
            if not h.sig.kw_args:
                continue
            pos_ok = [txt_of(t)[0] for t in h.sig.args]
            kws = list(h.sig.kw_args.items())
            variants = []
            for k, t in kws[:8]:
                v1, v2 = txt_of(t)[0], txt_of(t)[-1]
                wrong = '"x"' if R.types.get_type_as_string(t) != "String" else "7"
                for pos, pos_matches in ((pos_ok, True), (pos_ok[:-1], False), (pos_ok + ["1"], False)):
                    if not pos_matches and any(len(h2.sig.args) == len(pos) for h2 in F.FUNCTIONS[name]):
                        continue
                    variants.append((pos, "%s: %s" % (k, v1), pos_matches))
                    variants.append((pos, "%s: %s, %s: %s" % (k, v1, k, v2), pos_matches))          # written twice
                    variants.append((pos, "%s: %s, %s: %s" % (k, wrong, k, v1), pos_matches))
                    variants.append((pos, "%s: %s, nosuchkw: 1" % (k, v1), False))
                    variants.append((pos, "%s: %s" % (k, wrong), False))
            for pos, kwtext, acceptable in variants:
                text = "%s(%s)" % (name, ", ".join(pos + [kwtext]))
                called = []
                saved = [(hh, hh.f) for hh in F.FUNCTIONS[name]]
                for hh, f in saved:
                    hh.f = (lambda *a, **kw: called.append(1) or 0)
                try:
                    k_, v_ = R.value(text)
                finally:
                    for hh, f in saved:
                        hh.f = f
                ctx.count("kwtext:" + text, bucket="kw-text:" + ("accepted" if k_ == "ok" else "rejected"))
                if not acceptable and (k_ == "ok" or called):
                    ctx.violation("dispatch-kw-text:" + text, text, "rejected before any body runs (positional arguments match no signature, "
                                  "or an unknown / wrongly typed keyword)", "%s body_ran=%s" % (k_ if k_ == "ok" else "err " + str(v_), bool(called)),
                                  "execute(%r)" % text)
                elif k_ == "err" and (str(v_).startswith("py:") or v_ == "diverges"):
                    ctx.violation("dispatch-kw-text:" + text, text, "a value or a diagnosed error", "err " + str(v_), "execute(%r)" % text)

    # ---- no narrowing, on the real code
    for name in names:
        for h in F.FUNCTIONS[name]:
            for i, t in enumerate(h.sig.args):
                tn = R.types.get_type_as_string(t)
                if tn not in ("Integral", "Rational"):
                    continue
                for bad in ([Fraction(1, 2), 1.5, vals["Combinatoric"]] if tn == "Integral" else [1.5, vals["Combinatoric"]]):
                    args = []
                    for j, tj in enumerate(h.sig.args):
                        args.append(bad if j == i else next(v for v in valist if R.types.is_type(v, tj)))
                    if h.sig_matches(args):
                        ctx.violation("dispatch-narrow:%s%s@%d" % (name, h.sig, i), "%s%s arg %d = %r" % (name, h.sig, i, bad),
                                      "not accepted where %s is declared" % tn, "accepted", "FunctionSignature.matches")
                    ctx.count("narrow:%s%s@%d:%s" % (name, h.sig, i, type(bad).__name__), bucket="narrowing")

    # ---- argument lists matching no signature are rejected WITH THAT ERROR whatever the values are: quantities of dimensions that have
    # no name (m|s, m s, kg^2, J s, m^5), huge numbers, nested arrays, strings with odd characters — the rejection itself never fails
    for text in ["C(5 m|s, 2)", "(3 m s)!", "cos(1, 2 kg^2)", "seed(4 m^5)", "[1, 2 J s]", "#2020-01-01# * 3 m|s^2", "C(5 m, 2)", "cos(1, 2 N)", "C(5 m|m, 2)",
                 "sin(1 kg^3|s^7, 1)", "max(\"a\", 2 m|s^3)", "C({1 m|s}, 2)", "(10^400)!!(1)" , "C(2^5000, \"\u00e9\")", "floor(1 A^2 s, 2 K|mol)", "P(3 m|s)",
                 "mean(1 eur|kg, 2)", "range(1 m|s, 2, 3)", "sqrt(1, 1 cd sr|m^2)", "ln(2 mol|l, 5 kg|m^3)"]:
        r = R.execute(text)
        ctx.count("nomatch-text:" + text, bucket="no matching signature, odd values")
        if r["escaped"] or r["status"] != 1 or r["out"].strip():
            ctx.violation("dispatch-nomatch-text:" + text, text, "status 1 with the rejection's diagnostic", "status %s %s out=%r" % (r["status"], r["escaped"] or "", r["out"][:60]),
                          "execute(%r)" % text)

    # ---- a keyword under an ALTERNATIVE spelling (colour / color, normalise / normalize …): whether or not the tree accepts the other
    # spelling, a wrongly typed value under the declared one is rejected — also when the other spelling follows in the same call
    def respell(k):
        out = []
        for a, b in (("colour", "color"), ("color", "colour"), ("ise", "ize"), ("ize", "ise"), ("centre", "center"), ("center", "centre"), ("grey", "gray"), ("_", "")):
            if a in k:
                out.append(k.replace(a, b))
        return [o for o in out if o != k]
    for name in names:
        for h in F.FUNCTIONS[name]:
            if not h.sig.kw_args:
                continue
            pos_ok = [txt_of(t)[0] for t in h.sig.args]
            for k, t in list(h.sig.kw_args.items())[:8]:
                good = txt_of(t)[0]
                wrong = '"x"' if R.types.get_type_as_string(t) != "String" else "7"
                for k2 in respell(k):
                    if k2 in h.sig.kw_args:
                        continue
                    for kwtext in ("%s: %s, %s: %s" % (k, wrong, k2, good), "%s: %s, %s: %s" % (k2, good, k, wrong), "%s: %s" % (k2, wrong)):
                        text = "%s(%s)" % (name, ", ".join(pos_ok + [kwtext]))
                        k_, v_ = R.value(text)
                        ctx.count("kwtext-respelled:" + text, bucket="kw-text-respelled:" + ("accepted" if k_ == "ok" else "rejected"))
                        if k_ == "ok":
                            ctx.violation("dispatch-kw-text:" + text, text, "rejected (a wrongly typed keyword value, under whichever spelling)", "accepted", "execute(%r)" % text)

    # ---- an UNKNOWN keyword on every function that can be called by name, as text: for each signature whose positional call is
    # accepted, the same call with `nosuchkw_: 1` appended is rejected and no body of that name runs (also for functions the
    # evaluator treats specially: whatever route a call takes, its keywords reach the resolution)
    import re as _re2
    TXT2 = {"Number": "1", "Integral": "2", "Rational": "1/2", "Real": "2.5", "String": '"a"', "Array": "{1, 2}", "Bool": "1", "Quantity": "1 m",
            "Interval": "[1, 2]", "Instant": "#2020-01-01#", "Any": "1", "RandomVariable": "Binomial(3, 0.5)", "Event": "(Binomial(3, 0.5) < 2)",
            "Combinatoric": "3!", "Plot": "line({1, 2}, {1, 2})"}
    for name in names:
        if not _re2.match(r"^[A-Za-z_][A-Za-z_0-9]*$", name) or name in ("quit", "exit", "plot", "seed"):
            continue
        for h in F.FUNCTIONS[name]:
            pos = [TXT2.get(R.types.get_type_as_string(t), "1") for t in h.sig.args]
            if getattr(h.sig, "vararg", None) is not None or getattr(h.sig, "var_arg", None) is not None:
                pos = pos + ["1"]
            plain = "%s(%s)" % (name, ", ".join(pos))
            if "nosuchkw_" in (h.sig.kw_args or {}):
                continue
            k0_, _v0 = R.value(plain)
            if k0_ != "ok":
                continue
            text = "%s(%s)" % (name, ", ".join(pos + ["nosuchkw_: 1"]))
            called = []
            saved = [(hh, hh.f) for hh in F.FUNCTIONS[name]]
            for hh, f in saved:
                hh.f = (lambda *a, **kw: called.append(1) or 0)
            try:
                k_, v_ = R.value(text)
            finally:
                for hh, f in saved:
                    hh.f = f
            ctx.count("kwtext-unknown:" + text, bucket="kw-text-unknown:" + ("accepted" if k_ == "ok" else "rejected"))
            if k_ == "ok" or called:
                ctx.violation("dispatch-kw-text:" + text, text, "rejected (unknown keyword) before any body runs",
                              "%s body_ran=%s" % (k_ if k_ == "ok" else "err " + str(v_), bool(called)), "execute(%r)" % text)

    # ---- no narrowing, as text: a float that is NEARLY whole (the result of a computation, displayed as a whole number at six
    # digits) is still not an integer where an integer is required.  The values are computed here with Python's own floats.
    near_whole = [("sqrt(2)^2", math.sqrt(2) ** 2), ("49*float(1/49)", 49 * (1 / 49)), ("tan(pi/4)", math.tan(math.pi / 4)), ("0.1*30", 0.1 * 30),
                  ("1.1*10", 1.1 * 10), ("3*1.1", 3 * 1.1), ("2.5", 2.5), ("5/2", None), ("1e15+0.3", 1e15 + 0.3), ("9007199254740991/2.0", 9007199254740991 / 2.0)]
    contexts = ["C(%s, 1)", "C(5, %s)", "(%s)!", "1..(%s)", "(%s)..5", "C(%s, %s)"]
    for ctx_t in contexts:
        probe = R.value(ctx_t.replace("%s", "2.5"))
        if probe[0] == "ok":
            continue                     # this position does not require an integer on this tree (the registry checks above judge that)
        for e, pv in near_whole:
            if pv is not None and pv == int(pv):
                continue
            text = ctx_t.replace("%s", e)
            k_, v_ = R.value(text)
            ctx.count("narrow-text:" + text, bucket="narrowing-text")
            if k_ == "ok":
                ctx.violation("dispatch-narrow-text:" + text, text, "rejected: %s is not an integer (%s)" % (e, repr(pv) if pv is not None else "a fraction"),
                              "accepted: %s" % (v_,), "execute(%r)" % text)

    # ---- thorough: permute the real registry and re-evaluate a corpus through execute()
    corpus = ["6/4", "2^10", "3! * 4!", "C(5,2) / 3", "5 m + 20 cm", "2 m * 3 s", "6 m / 2 m", "abs(-3 m)", "[1,2] + 3", "3 + [1,2]",
              "[1,2] < 3", "3 < [4,5]", "[1,2] < [3,4]", "[1,4]^2", "sqrt([4,9])", "#2020-01-01# + 1", "1 + #2020-01-01#",
              "#2020-01-02# - #2020-01-01#", "P(Binomial(10, 0.5) < 3)", "P(2 <= UniformInt(1,6) < 5)", "sum({1,2,3})",
              "max({1,5,3})", "max(1,5,3)", "min([1,2], 0)", "3 in {1,2,3}", "2 in [1,3]", "floor(7/2)", "floor(#2020-01-01T10:00#)",
              "mean(Binomial(4, 0.5))", "mean({1,2,3,4})", "size({1,2})", "size([1,4])", "1..5", "range(1,2,1/2)", "-[1,2]", "3 ± 1",
              "5 % 3", "(7/2) % 2", "1.5 * 3!", "3! / 2!", "2 * 3!", "(1/2) / 3!", "1 == 1", "1 == 1 m", "log(8, 2)", "ln([1,2])"]
    base = [R.execute(t) for t in corpus]
    for _ in range(ctx.n(3, 50)):
        saved = {n: list(F.FUNCTIONS[n]) for n in names}
        try:
            for n in names:
                rng.shuffle(F.FUNCTIONS[n])
            for t, b in zip(corpus, base):
                r = R.execute(t)
                ctx.count("perm-exec:" + t, bucket="permuted-registry-exec")
                if (r["status"], r["out"], r["escaped"]) != (b["status"], b["out"], b["escaped"]):
                    ctx.violation("dispatch-order-exec:" + t, t, b["out"] or b["err"], r["out"] or r["err"],
                                  "execute(%r) with FUNCTIONS[name] lists shuffled" % t)
        finally:
            for n in names:
                F.FUNCTIONS[n][:] = saved[n]

    # ---- which implementation RUNS, observed through dispatch() itself (not through the lookup helpers), in three visiting
    # orders: the choice for a kind tuple must not depend on which tuples the same name was called with before (a cache keyed
    # too coarsely is right for whichever kind comes first and wrong for the other)
    class _Ran(Exception):
        def __init__(self, h):
            self.h = h
    saved_f = []
    for nm in names:
        for h in F.FUNCTIONS[nm]:
            saved_f.append((h, h.f))

            def _mk(hh):
                def _w(*a, **kw):
                    raise _Ran(hh)
                return _w
            h.f = _mk(h)
    unobserved = 0
    try:
        orders = [list(expected_run), list(reversed(expected_run)), rng.sample(expected_run, len(expected_run))]
        reported = set()
        for oi, order in enumerate(orders):
            prev = None
            for name, tup, exp, key in order:
                args = [valist[i] for i in tup]
                ran, outcome = None, None
                try:
                    with core.alarm(5):
                        F.dispatch(name, list(args))
                    outcome = "returned"
                except _Ran as e:
                    ran, outcome = e.h, "ran"
                except core.Timeout:
                    raise
                except Exception as e:  # noqa
                    outcome = "err " + core.err_code(e)
                ctx.count("run:%d:%s" % (oi, key), bucket="dispatch-run/" + (outcome if outcome != "ran" else "body"))
                bad = None
                if outcome == "returned":
                    unobserved += 1
                elif exp is not None and ran is not exp:
                    bad = ("runs %s" % ran.sig) if ran is not None else outcome
                elif exp is None and ran is not None:
                    bad = "runs %s" % ran.sig
                if bad and key not in reported:
                    reported.add(key)
                    ctx.violation("dispatch-run:" + key, key + (" after " + prev if prev else ""),
                                  ("the implementation registered for %s" % exp.sig) if exp is not None else "no matching signature (an error before any body runs)",
                                  bad, "ka.functions.dispatch(%r, <values of those classes>) in visiting order %d, previous call %s" % (name, oi, prev))
                prev = key
    finally:
        for h, f in saved_f:
            h.f = f
    ctx.cov["dispatch_run_unobserved"] = unobserved
