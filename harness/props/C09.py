"""C09 — comparisons are coherent: trichotomy, duality, negation, and 0/1 results."""
from fractions import Fraction
import datetime
import core
from core import num_canon

ID = "C09"
LEAN_MODULES = ["KaVerif.Props.C09"]
GEN = ["Registry"]
THEOREMS = ["KaVerif.C09_semantics", "KaVerif.C09_is_01", "KaVerif.C09_trichotomy", "KaVerif.C09_le",
            "KaVerif.C09_dual", "KaVerif.C09_ne", "KaVerif.C09_qty_physical", "KaVerif.C09_incompatible",
            "KaVerif.C09_dispatch_table"]
RULE = ("all ordered pairs from a pool per comparable class (ints, fractions, floats incl. 0.1+0.2 vs 0.3, lazy "
        "factorials/binomials; quantities of several dimensions in mixed units and prefixes incl. offset units; "
        "dimensionless quantities vs numbers; instants) plus seeded random numbers, x the six operators and `in`, as Ka "
        "text through the real pipeline; non-trivial = a comparable pair; distinct = distinct (op, lhs text, rhs text)")
ASSUMPTIONS = ["operands are evaluated by the real code; their exact values (Fraction of the base-unit magnitude, "
               "datetime position) are the reference keys — that magnitudes are right is C01/C04/C05's subject"]
LEVEL_TEXT = ("Machine-checked proof (Lean 4): for every comparable pair (numbers of any kind, quantities of one dimension, "
              "dimensionless quantity vs number, instants) every comparison as written evaluates to the number 1 exactly when "
              "the mathematical relation holds between the operands' exact ordering keys and to 0 otherwise; trichotomy, "
              "<= = (< or ==), duality, negation and physical equality of quantities follow for all values (linear order of Q). "
              "Which implementation dispatch selects per kind pair is regenerated from /repo and kernel-checked. The model is "
              "tied to the code by correspondence on all pool pairs; an exact-key oracle searches the real code for a replay.")
LEVEL_NOTE = ("The model takes operands already evaluated (base-unit magnitude, dimension vector, instant position); the parser's "
              "flipping of > and >= is part of the model and exercised through Ka text. UTC-offset instants are outside the model.")
TECHNIQUE = "Lean 4 proof over the linear order of Q + generated dispatch table (kernel decide) + exhaustive pool correspondence"

OPS = ["<", "<=", "==", "!=", ">", ">="]
NUMS = ["0", "1", "2", "-1", "3/2", "1/2", "0.5", "-7/3", "0.1+0.2", "0.3", "3/10", "1e-3", "10^30", "10^30+1", "1e30",
        "2^53", "2^53+1", "9007199254740993.0", "5!", "120", "C(5,2)", "10", "4!/5!", "1/5", "0.2", "-0.0",
        "C(10,3)", "3!", "C(4,2)", "6", "6!", "10!/7!", "720", "2*3!", "2*C(4,2)", "12", "C(16,2)", "C(5,3)",
        "5!*-2", "-240", "3!/-4", "-3/2", "0*5!", "0*C(4,2)", "-1*3!", "-6", "C(3,5)", "4!/-4!", "3*5!", "360"]
QTYS = ["1 m", "100 cm", "1 km", "1000 m", "0.001 km", "1 in", "2.54 cm", "1 mi", "1609.344 m", "3 s", "1 min", "60 s", "1 h",
        "1 kg", "1000 g", "1 t", "0 degC", "273.15 K", "32 degF", "1 m^2", "10000 cm^2", "1 ha", "1 m|s", "3.6 km|h", "1 N",
        "1 kg m|s^2", "(1/3) m", "1 usd", "1 l", "1000 ml", "1 pt", "1/2 qt"]
DIMLESS = ["90 deg", "2 rad", "1 dozen", "12", "(6 m / 1 m)", "6", "1 B", "8 b", "8", "1 hundred", "100", "pi/2 rad", "1.5707963267948966"]
INSTS = ["#2020-01-01#", "#2020-01-01T00:00:00.000001#", "#2019-12-31T23:59:59#", "#2020#", "#2020-01#", "#2020-02-29T12:00#",
         "#0001-01-01#", "#9999-12-31T23:59:59.999999#", "#2020-01-01T00:00#"]
# offset-aware instants: comparable among themselves (same moment in different offsets must be ==)
AWARE = ["#2020-06-01T12:00+02:00#", "#2020-06-01T10:00+00:00#", "#2020-06-01T05:30-04:30#", "#2020-06-01T10:00Z#",
         "#2020-06-01T10:00:00.000001+00:00#", "#2020-06-01T11:59+02:00#", "#2020-05-31T23:00-11:00#"]


# spellings of instants in a NAMED zone at hours where the offset changes (RFC 9557 style suffixes and the like): rejected on the
# reviewed tree — then nothing is asked — but wherever one of them is a value it is comparable with the other offset-aware
# instants, and the same moment is == whatever zone it was written in
ZONED = ["#2020-10-25T00:30:00Z[Europe/London]#", "#2020-10-25T01:30:00[Europe/London]#", "#2020-10-25T01:30:00+00:00[Europe/London]#",
         "#2020-10-25T01:30:00+01:00[Europe/London]#", "#2020-03-29T01:30:00[Europe/London]#", "#2020-03-29T00:30:00Z[Europe/London]#",
         "#2021-11-07T01:30:00[America/New_York]#", "#2021-11-07T05:30:00Z[America/New_York]#", "#2021-11-07T06:30:00Z[America/New_York]#",
         "#2020-10-25T00:30:00Z Europe/London#", "#2020-10-25T01:30:00 Europe/London#", "#2020-10-25T00:30:00Z[UTC]#", "#2020-06-01T10:00Z[Europe/Dublin]#"]
ZONED_PEERS = ["#2020-10-25T00:30:00Z#", "#2020-10-25T01:30:00+01:00#", "#2020-10-25T00:30:00+00:00#", "#2020-10-25T01:30:00Z#", "#2020-03-29T00:30:00Z#",
               "#2020-03-29T01:30:00Z#", "#2021-11-07T05:30:00Z#", "#2021-11-07T06:30:00Z#", "#2021-11-07T01:30:00-04:00#", "#2021-11-07T01:30:00-05:00#"]


def key_of(v, R):
    """exact ordering key and class of an evaluated operand"""
    T = R.types
    if isinstance(v, bool):
        return ("bool", None, None)
    if isinstance(v, (int, Fraction, float)):
        return ("N", Fraction(v), "N|" + num_canon(v))
    if isinstance(v, T.Quantity):
        m = v.mag
        if isinstance(m, (int, Fraction, float)) and not isinstance(m, bool):
            dim = tuple(v.qv.v.xs)
            return ("Q", Fraction(m), "Q|%s|%s" % (num_canon(m), ",".join(map(str, dim))), dim)
    if isinstance(v, T.Instant) and v.dt.utcoffset() is None:
        d = v.dt.toordinal() - 1
        us = ((v.dt.hour * 60 + v.dt.minute) * 60 + v.dt.second) * 10**6 + v.dt.microsecond
        return ("T", Fraction(d * 86400 * 10**6 + us), "T|%d|%d" % (d, us))
    if isinstance(v, T.Instant):
        import datetime as _dt
        u = (v.dt - v.dt.utcoffset()).replace(tzinfo=None)      # the moment, in UTC
        d = u.toordinal() - 1
        us = ((u.hour * 60 + u.minute) * 60 + u.second) * 10**6 + u.microsecond
        return ("Z", Fraction(d * 86400 * 10**6 + us), "T|%d|%d" % (d, us))
    return ("other", None, None)


def truth(op, a, b):
    return {"<": a < b, "<=": a <= b, "==": a == b, "!=": a != b, ">": a > b, ">=": a >= b}[op]


def check(ctx):
    R = ctx.real
    rng = ctx.rng
    nums = list(NUMS)
    for _ in range(ctx.n(6, 40)):
        k = rng.random()
        if k < 0.4:
            nums.append(str(rng.randrange(-50, 50)))
        elif k < 0.7:
            nums.append("%d/%d" % (rng.randrange(-30, 30), rng.randrange(1, 12)))
        else:
            nums.append(repr(round(rng.uniform(-5, 5), rng.randrange(0, 4))))
    pools = {"num": nums, "qty": QTYS, "dimless": DIMLESS, "inst": INSTS, "aware": AWARE, "zoned": ZONED + ZONED_PEERS}
    vals = {}
    for pool in pools.values():
        for t in pool:
            if t not in vals:
                k, v = R.value(t)
                vals[t] = key_of(v, R) if k == "ok" else ("err", None, None)
    pairs = []
    for name, pool in pools.items():
        for a in pool:
            for b in pool:
                pairs.append((a, b))
    # cross-class pairs (mostly not comparable): model-vs-code only
    cross = []
    allt = [t for p in pools.values() for t in p]
    for _ in range(ctx.n(150, 1500)):
        cross.append((rng.choice(allt), rng.choice(allt)))
    if ctx.quick():
        rng.shuffle(pairs)
        pairs = pairs[:1400]
    # every pair with a zone-named spelling, if the tree accepts any
    zok = [z for z in ZONED if vals[z][0] == "Z"]
    pairs += [(a, b) for a in zok for b in zok + ZONED_PEERS + AWARE] + [(b, a) for a in zok for b in ZONED_PEERS + AWARE]
    ctx.cov["zone_named_spellings_accepted"] = len(zok)
    cases = []
    for a, b in pairs + cross:
        ka, kb = vals[a], vals[b]
        if ka[0] in ("err", "other", "bool") or kb[0] in ("err", "other", "bool"):
            continue
        comparable = (ka[0] == kb[0] == "N") or (ka[0] == kb[0] == "T") or (ka[0] == kb[0] == "Z") or \
                     (ka[0] == kb[0] == "Q" and ka[3] == kb[3]) or \
                     (ka[0] == "Q" and kb[0] == "N" and not any(ka[3])) or (ka[0] == "N" and kb[0] == "Q" and not any(kb[3]))
        for op in OPS:
            text = "(%s) %s (%s)" % (a, op, b)
            k, v = R.value(text)
            real = "ok " + (num_canon(v) or "other:" + type(v).__name__) if k == "ok" else "err " + v
            ctx.count(text, nontrivial=comparable, bucket=("comparable " if comparable else "mixed ") + ka[0] + kb[0])
            how = "execute(%r)" % text
            if comparable:
                want = "ok i:%d" % (1 if truth(op, ka[1], kb[1]) else 0)
                if real != want:
                    ctx.violation("cmp:" + text, text, want, real, how)
                elif len(ctx.cov["samples"]) < 10 and rng.random() < 0.01:
                    ctx.sample(dict(text=text, result=real))
            else:
                # never a value other than 0/1; different dimensions are rejected
                if k == "ok" and real not in ("ok i:0", "ok i:1"):
                    ctx.violation("cmp-kind:" + text, text, "the number 0 or 1, or an error", real, how)
                if ka[0] == kb[0] == "Q" and k == "ok":
                    ctx.violation("cmp-dim:" + text, text, "error (different dimensions)", real, how)
            if not ({ka[0], kb[0]} == {"T", "Z"}):      # naive-vs-aware is outside the model (a runtime error in the code)
                cases.append(("cmp %s %s %s" % (op, ka[2], kb[2]), real, text))
    ctx.correspond("cmp", cases)
    # ---- displayed as 0/1, and membership
    shown = 0
    for a, b in pairs[: ctx.n(120, 1200)]:
        ka, kb = vals[a], vals[b]
        if ka[0] != kb[0] or ka[0] not in ("N", "T", "Z") and not (ka[0] == "Q" and ka[3] == kb[3]):
            continue
        op = rng.choice(OPS)
        text = "(%s) %s (%s)" % (a, op, b)
        r = R.execute(text)
        shown += 1
        want = "1" if truth(op, ka[1], kb[1]) else "0"
        if r["escaped"] or r["status"] != 0 or r["out"].strip() != want:
            ctx.violation("cmp-display:" + text, text, "displays " + want, repr((r["status"], r["out"], r["escaped"])), "execute(%r)" % text)
        # membership: x in {b, c}
        c = rng.choice(pools["num"] if ka[0] == "N" else (INSTS if ka[0] == "T" else AWARE if ka[0] == "Z" else
                       ([q for q in QTYS + DIMLESS if vals[q][0] == "Q" and vals[q][3] == ka[3]] or [b])))
        kc = vals[c]
        text2 = "(%s) in {%s, %s}" % (a, b, c)
        k, v = R.value(text2)
        ctx.count(text2, bucket="membership")
        want2 = 1 if (ka[1] == kb[1] or ka[1] == kc[1]) else 0
        if k != "ok" or type(v) is not int or v != want2:
            ctx.violation("in:" + text2, text2, "the number %d" % want2, "%s %r (%s)" % (k, v, type(v).__name__), "execute(%r)" % text2)
    ctx.cov["displayed"] = shown
    # ---- values that come out of AGGREGATES and long float chains at the edge of the float range: whatever such an expression
    # delivers — an overflow error on the reviewed tree — a delivered value is comparable with itself and with 0, coherently
    edge = ["prod({17.5, 1e308, 0})", "prod({2.5, 1e308, 1e308, 0})", "sum({1.5e308, 1.5e308, -1.5e308})", "mean({1.5e308, 1.5e308})", "prod({1.5e200, 1.5e200, 0.0})",
            "sum({x * 1.5e308 : x in {1, 1, -1, -1}})", "prod({x : x in {3.5, 1e308, 0}})", "max({1.5e308 * 10, 1})", "median({1.5e308, 1.5e308 * 10})",
            "prod({1.5e-200, 1.5e-200, 1.5e308, 1.5e308})", "sum({1e308, 1.5}) * 0", "prod({17.5, 1e308}) * 0"]
    for t in edge:
        env = R.new_env()
        r0 = R.execute("p_ = " + t, env=env)
        if r0["status"] != 0 or r0["escaped"]:
            ctx.count("edge:" + t, bucket="edge aggregates/rejected")
            continue
        ctx.count("edge:" + t, bucket="edge aggregates/a value")
        got = {}
        for op in OPS:
            for other in ("0", "p_"):
                k, v = R.value("p_ %s %s" % (op, other), env=env)
                got[(op, other)] = v if k == "ok" else "err"
        for other in ("0", "p_"):
            tri = [got[("<", other)], got[("==", other)], got[(">", other)]]
            ok = all(x in (0, 1) and not isinstance(x, bool) for x in tri) and sum(tri) == 1 and got[("!=", other)] == 1 - got[("==", other)] \
                and got[("<=", other)] == max(got[("<", other)], got[("==", other)]) and got[(">=", other)] == max(got[(">", other)], got[("==", other)])
            if not ok or (other == "p_" and got[("==", "p_")] != 1):
                ctx.violation("cmp-edge:" + t, "p_ = %s; p_ < %s; p_ == %s; p_ > %s" % (t, other, other, other), "exactly one of <, ==, > is 1 (and == with itself)",
                              "< %s, == %s, > %s, <= %s, >= %s, != %s" % tuple(got[(o, other)] for o in ("<", "==", ">", "<=", ">=", "!=")), "one EvalEnvironment")
                break
    # ---- one comparison written once, evaluated over elements of varying kinds (comprehension body): per element as alone
    import callsite_common
    callsite_common.run(ctx, ["x %s y" % o for o in OPS] + ["y %s x" % o for o in OPS] + ["x in {y, 2}", "y in {x}"],
                        ["2", "2.0", "2 m", "#2020-01-01#", "3!", '"a"', "1/2", "200 cm", "0*3!", "[1, 3]"], prefix="cmp-callsite", n=ctx.n(250, 3000))


# ---- refinement lemmas of the unified pipeline model for this property (Props/Pipeline2.lean): the fragment this check's
# theorems are about IS what the whole-program model computes on the fragment's sub-language
import pipeline as _pl
LEAN_MODULES = LEAN_MODULES + [m for m in _pl.LEAN_MODULES2 if m not in LEAN_MODULES]
THEOREMS = THEOREMS + [t for t in _pl.THEOREMS2.get(ID, []) if t not in THEOREMS]
GEN = GEN + [g for g in _pl.GEN if g not in GEN]

# ---- the comparison closures TRANSLATED from the source (`intify(operator.lt)` … on numbers, `register_interval_cmp` and
# `register_quantities_op` closures; Gen/Bodies.lean) are proved equal to the hand-written model bodies (Props/Bodies.lean)
LEAN_MODULES = LEAN_MODULES + [m for m in _pl.BODIES_MODULES if m not in LEAN_MODULES]
THEOREMS = THEOREMS + [t for t in _pl.bodies_theorems(("BODIES_lt_", "BODIES_le_", "BODIES_eq_", "BODIES_ne_", "BODIES_gt_", "BODIES_ge_")) if t not in THEOREMS]
GEN = GEN + [g for g in _pl.BODIES_GEN if g not in GEN]

# ---- refinement lemmas of the unified pipeline model for this property (Props/Pipeline3.lean): the fragment this check's
# theorems are about IS what the whole-program model computes on instant / probability expressions
import pipeline as _pl3
LEAN_MODULES = LEAN_MODULES + [m for m in _pl3.LEAN_MODULES3 if m not in LEAN_MODULES]
THEOREMS = THEOREMS + [t for t in _pl3.THEOREMS3.get(ID, []) if t not in THEOREMS]
GEN = GEN + [g for g in _pl3.GEN3 if g not in GEN]
