"""C05 — lazy combinatorics never changes a value."""
from fractions import Fraction
from collections import Counter
import math, itertools
import core
from core import num_canon

ID = "C05"
# Props/CombBodies: the IntRange methods, the Combinatoric constructor, lazy_factorial / lazy_choose TRANSLATED from the source
# (translate/gen_combbodies.py -> Gen/CombBodies.lean, regenerated on every run) are the definitions of Model/Comb.lean
LEAN_MODULES = ["KaVerif.Props.C05", "KaVerif.Props.C05Table", "KaVerif.Props.CombBodies"]
GEN = ["Registry", "CombBodies"]
THEOREMS = ["KaVerif.C05_range_meaning", "KaVerif.C05_difference", "KaVerif.C05_difference_prod", "KaVerif.C05_mul",
            "KaVerif.C05_resolve", "KaVerif.C05_coerce", "KaVerif.C05_factorial", "KaVerif.C05_choose",
            "KaVerif.C05_eager_is_bigint", "KaVerif.C05_expr", "KaVerif.C05_dispatch_table",
            "KaVerif.BODIES_comb_copy", "KaVerif.BODIES_comb_is_empty", "KaVerif.BODIES_comb_intersects",
            "KaVerif.BODIES_comb_difference", "KaVerif.BODIES_comb_init", "KaVerif.BODIES_comb_lazy_factorial",
            "KaVerif.BODIES_comb_lazy_choose", "KaVerif.BODIES_comb_coverage"]
RULE = ("(1) IntRange.difference/intersects on EVERY quadruple of bounds in a window around 0 (all 13 Allen relations, "
        "single-point, empty, negative and zero bounds) plus random wide ranges; (2) Combinatoric.mul and .resolve called "
        "directly on random lists of non-empty ranges (factorial-shaped [2,n], single points incl. 0 and negatives, general "
        "ranges); (3) random CExp trees over n!, C(n,k), integers (incl. 0 and negatives), m e-k fractions, * and / "
        "(depth<=8, n<=60 quick / <=400 thorough, chains a!/b!/c!*d!), rendered fully parenthesised and with minimal "
        "parentheses through the real tokenise->parse->eval->reduce_result and execute(); (4) boundary uses (+ - "
        "comparisons, sqrt/abs/floor/..., unit tag, arrays, comprehensions, variables, display) compared with the same "
        "input where the lazy sub-expression is replaced by its eager literal. ORACLE on every case: math.factorial / "
        "math.comb / Fraction.  non-trivial = at least one cancellation opportunity (an operator, or intersecting ranges); "
        "distinct = distinct request line / text")
ASSUMPTIONS = ["Python int is unbounded, Fraction is always reduced with a positive denominator (CPython semantics, exercised by the correspondence)",
               "the memo Combinatoric.value is unobservable because ns/ds of an existing Combinatoric are never mutated "
               "(checked on every direct call: inputs compared before/after, resolve() called twice)"]
LEVEL_TEXT = ("Machine-checked proof (Lean 4) over a line-by-line executable model of IntRange.difference, Combinatoric.mul "
              "(work-list with fuel; termination proved by a decreasing measure), Combinatoric.resolve, lazy_factorial, "
              "lazy_choose and the six * / overloads: range subtraction preserves the multiset of factors, mul preserves "
              "the quotient of products and rejects a zero divisor, resolve returns the canonical exact value, and by "
              "induction over expression trees evaluation equals eager big-integer arithmetic (division by zero is an "
              "error). The overload table is regenerated from /repo and re-checked by the kernel; the hand-written "
              "algorithms are tied to the code by differential correspondence on range lists and expression trees, and an "
              "independent math.factorial/math.comb/Fraction oracle searches the real code for a replay.")
LEVEL_NOTE = ("Theorems are about the model (Model/Comb.lean). Boundary uses (+ - comparisons, numeric functions, units, arrays, "
              "display) are proved only up to 'a Number parameter receives the canonical exact value' (C05_coerce + the "
              "dispatch table); beyond that they are checked differentially against the eager literal, not proved.")
TECHNIQUE = ("Lean 4: permutation/count argument for range subtraction, loop invariants for mul/resolve, induction over "
             "expression trees, generated dispatch table (kernel decide) + differential correspondence + eager oracle")


# ----------------------------------------------------------------------------------------------
# helpers
# ----------------------------------------------------------------------------------------------
def rs(ranges):
    return " ".join("%d,%d" % (r.lo, r.hi) for r in ranges)


def rs_t(ranges):
    return " ".join("%d,%d" % r for r in ranges)


def prod_range(lo, hi):
    p = 1
    for i in range(lo, hi + 1):
        p *= i
    return p


def prod_ranges(ranges):
    p = 1
    for lo, hi in ranges:
        p *= prod_range(lo, hi)
    return p


def has_zero(ranges):
    return any(lo <= 0 <= hi for lo, hi in ranges)


def canon_q(q):
    q = Fraction(q)
    return num_canon(q.numerator if q.denominator == 1 else q)


def ecode(e):
    """like core.err_code, but a ZeroDivisionError that was not converted by eval_parse_tree stays visible"""
    if type(e).__name__ == "ZeroDivisionError":
        return "py:ZeroDivisionError"
    return core.err_code(e)


def allen(a, b):
    """the 13 Allen relations of two non-empty integer ranges (as half-open intervals [lo, hi+1))"""
    (s1, e1), (s2, e2) = (a[0], a[1] + 1), (b[0], b[1] + 1)
    if e1 < s2: return "before"
    if e2 < s1: return "after"
    if e1 == s2: return "meets"
    if e2 == s1: return "met-by"
    if s1 == s2 and e1 == e2: return "equals"
    if s1 == s2: return "starts" if e1 < e2 else "started-by"
    if e1 == e2: return "finishes" if s1 > s2 else "finished-by"
    if s2 < s1 and e1 < e2: return "during"
    if s1 < s2 and e2 < e1: return "contains"
    return "overlaps" if s1 < s2 else "overlapped-by"


# ----------------------------------------------------------------------------------------------
# CExp trees
# ----------------------------------------------------------------------------------------------
def gen_n(rng, N):
    r = rng.random()
    if r < 0.25:
        return rng.choice([0, 1, 2, 2, 3, 3, 4, 5, 6])
    if r < 0.29:
        return rng.choice([-1, -2, -7])
    if r < 0.75:
        return rng.randrange(2, min(N, 14) + 1)
    return rng.randrange(2, N + 1)


def gen_leaf(rng, N, near=None):
    r = rng.random()
    if r < 0.42:
        if near is not None and rng.random() < 0.7:
            n = max(-1, near + rng.choice([-3, -2, -1, -1, 0, 1, 1, 2, 3, 5]))
        else:
            n = gen_n(rng, N)
        return ("fact", n)
    if r < 0.62:
        n = gen_n(rng, N)
        q = rng.random()
        if q < 0.8 and n >= 0:
            k = rng.randrange(0, n + 1)
        else:
            k = rng.choice([-1, 0, n, n + 1, n + 3, -2])
        return ("choose", n, k)
    if r < 0.92:
        return ("int", rng.choice([0, 1, 1, -1, 2, 2, 3, 3, -2, -3, 4, 5, 6, 7, 8, 10, 12, -12, 30, 60, 120, 720, 97, -35, 1000]))
    return ("sci", rng.choice([1, 5, 25, 3, 12, 0, 75]), rng.choice([-1, -2, -3, -1, 1, 2]))


def gen_tree(rng, depth, N):
    if depth <= 0 or rng.random() < 0.15:
        return gen_leaf(rng, N)
    op = rng.choice(["mul", "div", "div"])
    return (op, gen_tree(rng, depth - 1, N), gen_tree(rng, rng.randrange(0, depth), N))


def gen_chain(rng, N, length):
    """a!/b!/c!*d! …: left-nested, neighbouring arguments so that the ranges overlap in every way"""
    base = rng.randrange(2, N + 1)
    t = gen_leaf(rng, N, near=base) if rng.random() < 0.8 else ("fact", base)
    for _ in range(length):
        op = rng.choice(["mul", "div", "div"])
        leaf = gen_leaf(rng, N, near=base)
        t = (op, t, leaf) if rng.random() < 0.85 else (op, leaf, t)
    return t


def nops(t):
    return 0 if t[0] in ("int", "sci", "fact", "choose") else 1 + nops(t[1]) + nops(t[2])


def nlazy(t):
    if t[0] in ("fact", "choose"):
        return 1
    if t[0] in ("int", "sci"):
        return 0
    return nlazy(t[1]) + nlazy(t[2])


def sexpr(t):
    if t[0] in ("mul", "div"):
        return "(%s %s %s)" % (t[0], sexpr(t[1]), sexpr(t[2]))
    return "(" + " ".join(str(x) for x in t) + ")"


def lit(z):
    return str(z) if z >= 0 else "(-%d)" % -z


def render_full(t):
    k = t[0]
    if k == "int": return lit(t[1])
    if k == "sci": return "%de%d" % (t[1], t[2])
    if k == "fact": return lit(t[1]) + "!"
    if k == "choose": return "C(%s, %s)" % (lit(t[1]), lit(t[2]))
    return "(%s %s %s)" % (render_full(t[1]), "*" if k == "mul" else "/", render_full(t[2]))


def render_min(t, right=False, top=True):
    """* and / are left-associative with equal precedence: only a right operand that is itself a product needs parentheses"""
    k = t[0]
    if k not in ("mul", "div"):
        return render_full(t)
    s = "%s %s %s" % (render_min(t[1], False, False), "*" if k == "mul" else "/", render_min(t[2], True, False))
    return "(" + s + ")" if right else s


def eager(t):
    k = t[0]
    if k == "int": return Fraction(t[1])
    if k == "sci": return Fraction(t[1]) * Fraction(10) ** t[2]
    if k == "fact": return Fraction(math.factorial(t[1]) if t[1] >= 0 else 1)   # Ka: n < 2 -> 1 (n >= 0 is the property's domain)
    if k == "choose":
        n, kk = t[1], t[2]
        return Fraction(0 if (n < 0 or kk < 0 or kk > n) else math.comb(n, kk))
    a, b = eager(t[1]), eager(t[2])
    if k == "mul":
        return a * b
    if b == 0:
        raise ZeroDivisionError
    return a / b


def lit_q(q):
    """Ka text of an exact rational as eager arithmetic would have it"""
    q = Fraction(q)
    if q.denominator == 1:
        return lit(q.numerator)
    return "(%s/%d)" % (lit(q.numerator), q.denominator)


# ----------------------------------------------------------------------------------------------
# the real code
# ----------------------------------------------------------------------------------------------
def raw_eval(R, text, timeout=5.0):
    """tokenise→parse→eval_parse_tree (NOT reduced).  ('ok', obj) | ('err', code)"""
    try:
        with core.alarm(timeout):
            toks = R.tokens.tokenise(text)
            tree = R.parse.parse_tokens(toks)
            return ("ok", R.eval.eval_parse_tree(tree, None))
    except BaseException as e:  # noqa
        if isinstance(e, (KeyboardInterrupt, SystemExit)):
            raise
        return ("err", ecode(e))


def reduce_real(R, res, timeout=5.0):
    if res[0] == "err":
        return res
    try:
        with core.alarm(timeout):
            return ("ok", R.interpret.reduce_result(res[1]))
    except BaseException as e:  # noqa
        if isinstance(e, (KeyboardInterrupt, SystemExit)):
            raise
        return ("err", ecode(e))


def show_raw(R, res):
    if res[0] == "err":
        return "err " + res[1]
    v = res[1]
    if isinstance(v, R.types.Combinatoric):
        return "ok C " + rs(v.ns) + " ; " + rs(v.ds)
    c = num_canon(v)
    return "ok N " + (c if c is not None else "other:" + type(v).__name__)


def show_num(res):
    if res[0] == "err":
        return "err " + res[1]
    c = num_canon(res[1])
    return "ok " + (c if c is not None else "other:" + type(res[1]).__name__)


def canon_value(R, v):
    """canonical text of any Ka value (for the boundary comparisons)"""
    T = R.types
    c = num_canon(v)
    if c is not None:
        return c
    if isinstance(v, T.Combinatoric):
        return "LAZY(" + str(v) + ")"          # a lazy value must never be visible here
    if isinstance(v, T.Quantity):
        return "Q(%s;%s)" % (canon_value(R, v.mag), str(v.qv))
    if isinstance(v, T.Array):
        return "{" + ", ".join(canon_value(R, x) for x in v.contents) + "}"
    if v is None:
        return "None"
    return type(v).__name__ + ":" + str(v)


# ----------------------------------------------------------------------------------------------
def _check_main(ctx):
    rng = ctx.rng
    R = ctx.real
    T = R.types
    IR, CB = T.IntRange, T.Combinatoric
    how_py = "PYTHONPATH=/repo/src HOME=<empty dir> /venv/bin/python -c %r"

    # ------------------------------------------------------------------ (1) IntRange.difference
    W = ctx.n(range(-3, 5), range(-5, 7))
    quads = list(itertools.product(W, W, W, W))
    corpus_q = [(5, 10, 2, 7), (2, 7, 5, 10), (2, 10, 2, 4), (2, 10, 2, 10), (2, 10, 5, 5), (3, 3, 3, 3), (0, 0, 0, 0),
                (-3, -3, -3, -3), (-4, 2, 0, 0), (2, 9, 4, 5), (4, 5, 2, 9), (2, 4, 5, 9), (5, 9, 2, 4)]
    for _ in range(ctx.n(600, 6000)):
        lo = rng.randrange(-50, 400); ln = rng.choice([0, 0, 1, 2, 5, 20, 100, 399])
        lo2 = lo + rng.randrange(-ln - 3, ln + 4); ln2 = rng.choice([0, 0, 1, 2, 5, 20, 100, ln, max(0, ln - 1), ln + 1])
        corpus_q.append((lo, lo + ln, lo2, lo2 + ln2))
    cases = []
    allen_hist = Counter()
    for (al, ah, bl, bh) in corpus_q + quads:
        a, b = IR(al, ah), IR(bl, bh)
        try:
            with core.alarm(5):
                rn, rd = a.difference(b)
                inter = a.intersects(b)
                ans = "%s|%s|%d|%d|%d" % (rs(rn), rs(rd), int(bool(inter)), int(bool(a.is_empty())), int(bool(b.is_empty())))
                rn_t = [(r.lo, r.hi) for r in rn]; rd_t = [(r.lo, r.hi) for r in rd]
        except BaseException as e:  # noqa
            if isinstance(e, (KeyboardInterrupt, SystemExit)):
                raise
            ans, rn_t, rd_t, inter = "err " + ecode(e), None, None, None
        nonempty = al <= ah and bl <= bh
        rel = allen((al, ah), (bl, bh)) if nonempty else "empty-operand"
        allen_hist[rel] += 1
        req = "combdiff %d %d %d %d" % (al, ah, bl, bh)
        ctx.count(req, nontrivial=nonempty and rel not in ("before", "after", "meets", "met-by"), bucket="diff/" + rel)
        if nonempty:       # an empty IntRange never occurs inside a Combinatoric (lazy_choose filters them): not compared
            cases.append((req, ans, dict(rel=rel)))
        # oracle (C05_difference): for non-empty operands the factors are only moved, never lost or invented
        if nonempty:
            how = how_py % ("from ka.types import IntRange as R; print(*map(lambda l: list(map(str, l)), R(%d,%d).difference(R(%d,%d))))" % (al, ah, bl, bh))
            if rn_t is None:
                ctx.violation("difference:%d,%d,%d,%d" % (al, ah, bl, bh), req, "two lists of ranges", ans, how)
                continue
            lhs = Counter(range(al, ah + 1)); rhs = Counter(range(bl, bh + 1))
            for lo, hi in rd_t: lhs.update(range(lo, hi + 1))
            for lo, hi in rn_t: rhs.update(range(lo, hi + 1))
            ok = lhs == rhs and all(lo <= hi for lo, hi in rn_t + rd_t)
            ok = ok and all(bl <= lo and hi <= bh for lo, hi in rd_t) and all(al <= lo and hi <= ah for lo, hi in rn_t)
            if bool(inter) != (max(al, bl) <= min(ah, bh)):
                ok = False
            if not ok:
                ctx.violation("difference:%d,%d,%d,%d" % (al, ah, bl, bh), req,
                              "elements(a)+elements(rem_b) == elements(b)+elements(rem_a), remainders non-empty sub-ranges",
                              ans, how)
    ctx.cov["allen_relations_hit"] = dict(allen_hist)
    missing = [r for r in ("before", "after", "meets", "met-by", "equals", "starts", "started-by", "finishes", "finished-by",
                           "during", "contains", "overlaps", "overlapped-by") if not allen_hist[r]]
    if missing:
        raise core.Infra("generator does not reach Allen relations " + ",".join(missing))
    ctx.correspond("combdiff", cases, describe=lambda i: i["rel"])
    ctx.sample(dict(stream="combdiff", request="combdiff 5 10 2 7", real=[c for c in cases if c[0] == "combdiff 5 10 2 7"][0][1]))

    # ------------------------------------------------------------------ (2) mul / resolve on range lists
    N = ctx.n(60, 400)

    def rand_range(zero_ok=True):
        r = rng.random()
        if r < 0.4:
            return (2, rng.randrange(2, rng.choice([6, 12, N]) + 1))
        if r < 0.7:
            x = rng.choice([-6, -3, -2, -1, 0, 1, 2, 3, 4, 5, 6, 7, 10, 12, rng.randrange(2, N + 1)])
            if x == 0 and not zero_ok:
                x = 1
            return (x, x)
        lo = rng.randrange(-8, 14); hi = lo + rng.choice([0, 1, 2, 3, 5, 8])
        if lo <= 0 <= hi and not zero_ok:
            lo, hi = 1, hi - lo + 1
        return (lo, hi)

    def rand_list(maxlen, zero_ok=True):
        return [rand_range(zero_ok) for _ in range(rng.randrange(0, maxlen + 1))]

    mul_cases, res_cases = [], []
    mul_corpus = [([(2, 10)], [], [], [(2, 4), (2, 7)]), ([(2, 10)], [(2, 4)], [], [(2, 7)]), ([(2, 5), (0, 0)], [], [], [(2, 5), (0, 0)]),
                  ([(2, 5)], [], [], [(2, 4), (0, 0)]), ([(2, 6)], [], [], [(3, 3)]), ([(2, 6)], [], [(-1, -1)], [(3, 3)]),
                  ([], [], [], []), ([(2, 5)], [(2, 5)], [(2, 5)], [(2, 5)])]
    for i in range(ctx.n(1500, 20000)):
        if i < len(mul_corpus):
            ns, ds, nns, nds = mul_corpus[i]
        else:
            zok = rng.random() < 0.12
            ns, ds, nns, nds = rand_list(4), rand_list(3, zok), rand_list(3), rand_list(3, zok)
        req = "combmul %s ; %s ; %s ; %s" % (rs_t(ns), rs_t(ds), rs_t(nns), rs_t(nds))
        c = CB(ns=[IR(*r) for r in ns], ds=[IR(*r) for r in ds])
        a_ns, a_ds = [IR(*r) for r in nns], [IR(*r) for r in nds]
        out = None
        try:
            with core.alarm(5):
                out = c.mul(a_ns, a_ds)
            ans = "ok " + rs(out.ns) + " ; " + rs(out.ds)
        except BaseException as e:  # noqa
            if isinstance(e, (KeyboardInterrupt, SystemExit)):
                raise
            ans = "err " + core.err_code(e)
        zero = has_zero(ds + nds)
        inter = any(max(a[0], b[0]) <= min(a[1], b[1]) for a in ns + nns for b in ds + nds)
        ctx.count(req, nontrivial=inter, bucket="mul/" + ("zero-divisor" if zero else "cancels" if inter else "disjoint"))
        mul_cases.append((req, ans, None))
        how = how_py % ("from ka.types import IntRange as R, Combinatoric as C; print(C(ns=[R(*r) for r in %r], ds=[R(*r) for r in %r]).mul([R(*r) for r in %r], [R(*r) for r in %r]))" % (ns, ds, nns, nds))
        key = "mul:" + req
        if zero:
            if not ans.startswith("err divzero"):
                ctx.violation(key, req, "ZeroDivisionError (a denominator range contains 0)", ans, how)
        elif out is None:
            ctx.violation(key, req, "a Combinatoric", ans, how)
        else:
            o_ns = [(r.lo, r.hi) for r in out.ns]; o_ds = [(r.lo, r.hi) for r in out.ds]
            want = Fraction(prod_ranges(ns + nns), prod_ranges(ds + nds))
            if has_zero(o_ds) or any(lo > hi for lo, hi in o_ns + o_ds) or Fraction(prod_ranges(o_ns), prod_ranges(o_ds)) != want:
                ctx.violation(key, req, "value %s preserved, no empty range, no zero divisor" % want, ans, how)
            # the inputs must not have been mutated (this is what makes the memo unobservable)
            if [(r.lo, r.hi) for r in c.ns] != ns or [(r.lo, r.hi) for r in c.ds] != ds or \
               [(r.lo, r.hi) for r in a_ns] != nns or [(r.lo, r.hi) for r in a_ds] != nds:
                ctx.violation("mul-mutates:" + req, req, "operands unchanged", "operands mutated", how)
    ctx.correspond("combmul", mul_cases)
    ctx.sample(dict(stream="combmul", request=mul_cases[0][0], real=mul_cases[0][1]))

    res_corpus = [([(2, 10)], [(2, 4), (2, 7)]), ([(8, 10)], [(2, 4)]), ([(2, 5)], []), ([], [(2, 5)]), ([], []), ([(0, 0), (2, 4)], [(3, 3)]),
                  ([(2, 6)], [(-3, -3)]), ([(-4, -2)], [(-3, -2), (5, 5)]), ([(2, 5)], [(0, 0)]), ([(2, 5)], [(-1, 1)]), ([(7, 7)], [(2, 3), (7, 7)])]
    for i in range(ctx.n(1200, 15000)):
        if i < len(res_corpus):
            ns, ds = res_corpus[i]
        else:
            ns, ds = rand_list(4), rand_list(4, rng.random() < 0.08)
        req = "combresolve %s ; %s" % (rs_t(ns), rs_t(ds))
        c = CB(ns=[IR(*r) for r in ns], ds=[IR(*r) for r in ds])
        try:
            with core.alarm(5):
                v1 = c.resolve(); v2 = c.resolve()
            ans = "ok " + str(num_canon(v1))
            if num_canon(v1) != num_canon(v2):
                ans += " THEN " + str(num_canon(v2))
        except BaseException as e:  # noqa
            if isinstance(e, (KeyboardInterrupt, SystemExit)):
                raise
            ans = "err " + core.err_code(e)
        zero = has_zero(ds)
        ctx.count(req, nontrivial=bool(ns and ds), bucket="resolve/" + ("zero-divisor" if zero else "ok"))
        res_cases.append((req, ans, None))
        how = how_py % ("from ka.types import IntRange as R, Combinatoric as C; print(repr(C(ns=[R(*r) for r in %r], ds=[R(*r) for r in %r]).resolve()))" % (ns, ds))
        if zero:
            if not ans.startswith("err"):
                ctx.violation("resolve:" + req, req, "an error (zero divisor)", ans, how)
        else:
            want = "ok " + canon_q(Fraction(prod_ranges(ns), prod_ranges(ds)))
            if ans != want:
                ctx.violation("resolve:" + req, req, want, ans, how)
            if [(r.lo, r.hi) for r in c.ns] != ns or [(r.lo, r.hi) for r in c.ds] != ds:
                ctx.violation("resolve-mutates:" + req, req, "ns/ds unchanged", "mutated", how)
    ctx.correspond("combresolve", res_cases)

    # ------------------------------------------------------------------ (3) expression trees through the real pipeline
    maxd = 8
    corpus_t = [
        ("div", ("div", ("fact", 10), ("fact", 4)), ("fact", 7)),                       # D1: was 1
        ("div", ("fact", 6), ("int", 3)),                                                # D2: was a float ratio
        ("div", ("mul", ("int", 0), ("fact", 5)), ("mul", ("int", 0), ("fact", 5))),    # D3: was 1
        ("div", ("fact", 5), ("mul", ("int", 0), ("fact", 4))),                          # D4: escaped
        ("div", ("fact", 10000 if not ctx.quick() else 300), ("fact", 9999 if not ctx.quick() else 299)),
        ("mul", ("fact", 5), ("div", ("int", 6), ("int", 2))), ("mul", ("int", 3), ("choose", 4, 2)),
        ("fact", 0), ("fact", 1), ("fact", -3), ("choose", 5, 7), ("choose", 5, -1), ("choose", -2, 1), ("choose", 0, 0), ("choose", 1, 1),
        ("choose", 1, 0), ("choose", 7, 0), ("choose", 7, 7), ("choose", 40, 20),
        ("div", ("int", 1), ("fact", 3)), ("div", ("div", ("int", 2), ("int", 3)), ("fact", 3)), ("div", ("fact", 3), ("div", ("int", 2), ("int", 3))),
        ("div", ("fact", 5), ("int", 0)), ("div", ("int", 0), ("fact", 5)), ("div", ("fact", 5), ("choose", 2, 5)), ("div", ("fact", 1), ("int", 0)),
        ("div", ("fact", 6), ("int", -3)), ("mul", ("int", -2), ("div", ("fact", 3), ("int", -3))), ("mul", ("sci", 25, -2), ("choose", 5, 2)),
        ("div", ("choose", 5, 2), ("choose", 5, 3)), ("div", ("fact", 7), ("mul", ("fact", 3), ("fact", 4))),
        ("div", ("mul", ("fact", 7), ("fact", 4)), ("mul", ("fact", 5), ("fact", 6))),
        ("div", ("fact", 5), ("div", ("fact", 4), ("mul", ("int", 0), ("fact", 3)))),
        ("mul", ("div", ("fact", 5), ("int", 5)), ("int", 5)), ("div", ("div", ("fact", 9), ("int", 7)), ("int", 7)),
    ]
    trees = list(corpus_t)
    ntrees = ctx.n(2500, 30000)
    while len(trees) < ntrees:
        r = rng.random()
        if r < 0.45:
            trees.append(gen_chain(rng, N, rng.randrange(1, 8)))
        else:
            trees.append(gen_tree(rng, rng.randrange(1, maxd + 1), N))
    cases, seen = [], set()
    exec_budget = ctx.n(400, 4000)
    for t in trees:
        full, mini = render_full(t), render_min(t)
        if full in seen:
            continue
        seen.add(full)
        try:
            want = ("val", eager(t))
        except ZeroDivisionError:
            want = ("divzero", None)
        raw = raw_eval(R, full)
        red = reduce_real(R, raw)
        raw2 = raw_eval(R, mini)
        red2 = reduce_real(R, raw2)
        ans = show_raw(R, raw) + " | " + show_num(red)
        ctx.count(full, nontrivial=nops(t) >= 1 and nlazy(t) >= 1,
                  bucket="cexp/%s/ops=%d" % (want[0] if want[0] != "val" else ("zero" if want[1] == 0 else "int" if want[1].denominator == 1 else "frac"), min(nops(t), 9)))
        ctx.sample(dict(text=mini, real=ans if len(ans) < 100 else ans[:100] + "…", oracle=want[0]), limit=14)
        how = how_py % ("from ka.interpret import execute; execute(%r)" % full)
        exp = ("ok " + canon_q(want[1])) if want[0] == "val" else "an error, never a value"
        for txt, rr in ((full, red), (mini, red2)):
            got = show_num(rr)
            bad = (got != exp) if want[0] == "val" else (rr[0] != "err")
            if bad:
                ctx.violation("cexp:" + txt, txt, exp, got, how_py % ("from ka.interpret import execute; execute(%r)" % txt))
        cases.append(("cexp " + sexpr(t), ans, dict(text=full, want=exp)))
        # execute(): the displayed text must be the display of the eager value, nothing may escape
        if exec_budget > 0 and (want[0] == "divzero" or want[1].numerator.bit_length() + want[1].denominator.bit_length() < 3000):
            exec_budget -= 1
            r1 = R.execute(mini)
            if want[0] == "val":
                r0 = R.execute(lit_q(want[1]))
                if r1["escaped"] or r1["status"] != 0 or r1["out"] != r0["out"]:
                    ctx.violation("cexp-display:" + mini, mini, "status 0, prints %r" % r0["out"],
                                  str((r1["status"], r1["escaped"], r1["out"][:120], r1["err"][:120])), how_py % ("from ka.interpret import execute; execute(%r)" % mini))
            else:
                if r1["escaped"] or r1["status"] != 1 or r1["out"] != "":
                    ctx.violation("cexp-display:" + mini, mini, "status 1, a diagnosed error, nothing printed on out",
                                  str((r1["status"], r1["escaped"], r1["out"][:120], r1["err"][:120])), how_py % ("from ka.interpret import execute; execute(%r)" % mini))

    # coefficients whose upper argument is far beyond a machine word: oracle only.  Only uses that go through the lazy mul / div
    # (a bare `C(n,k) + 1` multiplies most of n! out before dividing it away — slow on the reviewed tree, not a wrong value)
    big_n = [2 ** 63 + 5, 2 ** 64, 2 ** 70, 10 ** 30, 2 ** 64 - 1]
    for nn in big_n:
        for kk in (1, 2, 3):
            cv = Fraction(math.comb(nn, kk))
            for txt, q in [("1*C(%d,%d)" % (nn, kk), cv), ("C(%d,%d)*(1/3)" % (nn, kk), cv / 3), ("6/C(%d,%d)" % (nn, kk), 6 / cv),
                           ("C(%d,%d)/C(%d,%d)" % (nn, kk + 1, nn, kk), Fraction(math.comb(nn, kk + 1)) / cv),
                           ("x = C(%d,%d)*1; x+1" % (nn, kk), cv + 1)]:
                rr = reduce_real(R, raw_eval(R, txt, timeout=10.0)) if ";" not in txt else None
                if rr is None:
                    k_, v_ = R.value(txt, timeout=10.0)
                    rr = (k_, v_)
                got = show_num(rr)
                ctx.count(txt, bucket="cexp/huge-upper-argument")
                if got != "ok " + canon_q(q):
                    ctx.violation("cexp:" + txt, txt, "ok " + canon_q(q), got, how_py % ("from ka.interpret import execute; execute(%r)" % txt))

    def agree(real_ans, model_ans, info):
        parts = model_ans.split(" | ")
        if len(parts) != 3:
            return False
        if real_ans != parts[0] + " | " + parts[1]:
            # the VALUE must agree; the unreduced lazy form (which ranges sit in numerator and denominator before `resolve`) is the
            # code's own business: a rewrite that cancels earlier or later keeps the property, and is recorded, not reported
            if real_ans.split(" | ")[-1] != parts[1]:
                return False
            raw_differs.append(info["text"])
        # the model's own eager meaning must be the oracle's (ties Lean `eager` to math.factorial/math.comb)
        want = info["want"]
        return parts[2] == ("val " + want[3:] if want.startswith("ok ") else "divzero")
    raw_differs = []
    ctx.correspond("cexp", cases, agree=agree, describe=lambda i: i["text"])
    if raw_differs:
        ctx.cov["unreduced_form_differs_from_model"] = dict(n=len(raw_differs), examples=raw_differs[:5])
        ctx.notes.append("the unreduced lazy form differs from the model's on %d of %d expressions (values agree on all of them): the tie to the "
                         "model's cancellation order is by value only in this run" % (len(raw_differs), len(cases)))

    # ------------------------------------------------------------------ (4) boundary uses: lazy vs eager literal
    templates = [
        "{E} + {F}", "{F} + {E}", "{E} - {F}", "{F} - {E}", "{E} + 1", "1 - {E}",
        "{E} < {F}", "{E} <= {F}", "{E} == {F}", "{E} != {F}", "{E} > {F}", "{E} >= {F}", "{E} == {E}", "{E} < {E}",
        "sqrt({E})", "abs({E})", "floor({E})", "ceil({E})", "round({E})", "int({E})", "float({E})", "-{E}", "+{E}",
        "sin({E})", "ln({E})", "log({E}, {F})",
        "{E} * 1.5", "0.5 * {E}", "{E} / 2.5", "2.5 / {E}", "{E} * pi",
        "{E} ^ 2", "2 ^ {E}", "{E} % 7", "{E} % {F}", "max({E}, {F})", "min({E}, 3, {F})",
        "({E}) m", "({E}) m + ({F}) m", "({E}) kg / ({F}) s", "(({E}) km) to m", "({E}) m < ({F}) m", "({E}) degC",
        "{{{E}}}", "{{{E}, {F}}}", "{{1, {E}, {F} + 1}}", "sum({{{E}, {F}}})", "{E} in {{{E}, {F}}}",
        "{{x * {E} : x in {{1, 2, 3}}}}", "{{{E} / x : x in {{1, 2, 3}}}}", "{{{E} : x in {{1, 2}}}}", "{{x : x in {{{E}, {F}}}, x > 2}}",
        "x = {E}; x * x / {F}", "x = {E}; x * x / x", "x = {E}; (x * x) / ({F} * x)", "x = {E}; y = {F}; x * y * x / y", "x = {E}; x * x * x / ({F} * {F})", "c = {E} * 1; c * c / 5",
        "x = {E}; x + 1", "x = {E}; y = x / {F}; y * 2", "x = {E}; x; x * {F}", "x = {E}; {{x, x}}", "x = {E}; x m",
    ]
    bcases = 0
    for i in range(ctx.n(700, 8000)):
        e = gen_chain(rng, min(N, 25), rng.randrange(0, 4)) if rng.random() < 0.6 else gen_tree(rng, rng.randrange(0, 3), min(N, 25))
        f = gen_chain(rng, min(N, 25), rng.randrange(0, 3))
        if nlazy(e) == 0:
            e = ("mul", e, ("fact", rng.randrange(0, 8)))
        try:
            qe, qf = eager(e), eager(f)
        except ZeroDivisionError:
            continue
        tpl = templates[i % len(templates)]
        if "^" in tpl and (abs(qe) > 64 or qe.denominator > 64):
            tpl = "{E} + {F}"          # keep powers small: 2 ^ 20! is a hang of CPython's pow, not a C05 matter
        lazy_txt = tpl.format(E=render_full(e), F=render_full(f))
        eag_txt = tpl.format(E=lit_q(qe), F=lit_q(qf))
        rl, rg = R.value(lazy_txt), R.value(eag_txt)
        cl = ("ok " + canon_value(R, rl[1])) if rl[0] == "ok" else "err " + rl[1]
        cg = ("ok " + canon_value(R, rg[1])) if rg[0] == "ok" else "err " + rg[1]
        bcases += 1
        ctx.count(lazy_txt, nontrivial=True, bucket="boundary/" + tpl.replace("{E}", "E").replace("{F}", "F").replace("{{", "{").replace("}}", "}"))
        if cl != cg:
            ctx.violation("boundary:" + lazy_txt, lazy_txt, "%s   (value of the eager text %s)" % (cg, eag_txt), cl,
                          how_py % ("from ka.interpret import execute; execute(%r); execute(%r)" % (lazy_txt, eag_txt)))
            continue
        if i % 3 == 0:
            xl, xg = R.execute(lazy_txt), R.execute(eag_txt)
            if (xl["escaped"] and xl["escaped"] != xg["escaped"]) or (xl["status"], xl["out"]) != (xg["status"], xg["out"]):
                ctx.violation("boundary-display:" + lazy_txt, lazy_txt, str((xg["status"], xg["out"][:120])),
                              str((xl["status"], xl["escaped"], xl["out"][:120], xl["err"][:120])),
                              how_py % ("from ka.interpret import execute; execute(%r); execute(%r)" % (lazy_txt, eag_txt)))
    ctx.cov["boundary_cases"] = bcases

    # a lazy value handed to a parameter declared Integral: (3!)!, C(4!, 2), range(1, 3!) …
    itemplates = ["({E})!", "C({E}, 2)", "C(30, {E})", "range(1, {E})", "mean(Binomial({E}, 1/2))", "({E})! / {E}"]
    for i in range(ctx.n(60, 600)):
        e = ("fact", rng.randrange(0, 6)) if rng.random() < 0.5 else ("choose", rng.randrange(0, 7), rng.randrange(0, 4))
        if rng.random() < 0.3:
            e = ("div", ("fact", rng.randrange(3, 7)), ("fact", rng.randrange(0, 3)))
        q = eager(e)
        if q.denominator != 1:
            continue
        tpl = itemplates[i % len(itemplates)]
        lazy_txt, eag_txt = tpl.format(E=render_full(e)), tpl.format(E=lit_q(q))
        rl, rg = R.value(lazy_txt), R.value(eag_txt)
        cl = ("ok " + canon_value(R, rl[1])) if rl[0] == "ok" else "err " + rl[1]
        cg = ("ok " + canon_value(R, rg[1])) if rg[0] == "ok" else "err " + rg[1]
        ctx.count(lazy_txt, nontrivial=True, bucket="integral-param/" + tpl.replace("{E}", "E"))
        if cl != cg:
            ctx.violation("integral-param", lazy_txt, "%s   (value of the eager text %s)" % (cg, eag_txt), cl,
                          how_py % ("from ka.interpret import execute; execute(%r); execute(%r)" % (lazy_txt, eag_txt)))



def check(ctx):
    _check_main(ctx)
    # shared oracle: operators return new values, operands bound to variables are never updated in place
    import alias_common
    alias_common.run(ctx, prefix="alias")


# ---- refinement lemmas of the unified pipeline model for this property (Props/Pipeline2.lean): the fragment this check's
# theorems are about IS what the whole-program model computes on the fragment's sub-language
import pipeline as _pl
LEAN_MODULES = LEAN_MODULES + [m for m in _pl.LEAN_MODULES2 if m not in LEAN_MODULES]
THEOREMS = THEOREMS + [t for t in _pl.THEOREMS2.get(ID, []) if t not in THEOREMS]
GEN = GEN + [g for g in _pl.GEN if g not in GEN]
