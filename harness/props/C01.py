"""C01 — integer and fraction arithmetic is exact and canonical."""
from fractions import Fraction
import math
from core import num_canon, nums_agree
import pipeline

ID = "C01"
LEAN_MODULES = ["KaVerif.Props.C01", "KaVerif.Props.C01Table"] + pipeline.LEAN_MODULES
GEN = ["Registry", "Units", "Tokens"]
THEOREMS = ["KaVerif.C01_exact", "KaVerif.C01_divzero", "KaVerif.C01_never_float", "KaVerif.C01_literal",
            "KaVerif.C01_canonical", "KaVerif.C01_mod_sign",
            "KaVerif.C01_dispatch_table",
            # the same statements lifted to the unified text->value pipeline (Props/Pipeline.lean)
            "KaVerif.PIPE_arith", "KaVerif.PIPE_arith_exact", "KaVerif.PIPE_text_arith", "KaVerif.PIPE_text_arith_lexed"]
RULE = ("random AExp trees (depth<=7 quick / <=11 thorough) over literals {0,1,2,3,small primes,10^k,2^64±1,10^30,"
        "200-digit ints, m e±k}, operators + - * / % ^ and unary + - abs floor ceil round int; rendered fully "
        "parenthesised and with minimal parentheses; pushed through the real tokenise→parse→eval and execute(); "
        "a case is non-trivial when the tree has >=1 operator; distinct = distinct rendered text")
ASSUMPTIONS = ["Python int is unbounded, Fraction is always reduced (CPython semantics, exercised by the correspondence)"]

BIN = {"add": "+", "sub": "-", "mul": "*", "div": "/", "mod": "%", "pow": "^"}
UN_FUN = {"abs": "abs", "floor": "floor", "ceil": "ceil", "round": "round", "int": "int"}
PREC = {"add": 1, "sub": 1, "mul": 2, "div": 2, "mod": 2, "pow": 3}


def gen_lit(rng):
    r = rng.random()
    if r < 0.45:
        return ("lit", rng.choice([0, 1, 1, 2, 2, 3, 4, 5, 6, 7, 8, 9, 10, 11, 12, 13, 17, 60, 100, 1000]))
    if r < 0.55:
        return ("lit", rng.choice([2**64 - 1, 2**64, 2**64 + 1, 10**30, 10**18, 2**31 - 1, 2**53 + 1]))
    if r < 0.60:
        return ("lit", rng.randrange(10**199, 10**200))
    if r < 0.8:
        return ("sci", rng.choice([1, 2, 5, 15, 125, 1000, 3]), rng.choice([-3, -2, -1, 0, 1, 2, 3, 5, -6, -12, 20]))
    return ("lit", rng.randrange(0, 10**rng.randrange(1, 12)))


def gen_tree(rng, depth):
    if depth <= 0 or rng.random() < 0.18:
        return gen_lit(rng)
    r = rng.random()
    if r < 0.72:
        op = rng.choice(["add", "sub", "mul", "div", "mod", "add", "sub", "mul", "div", "mod", "pow"])
        a = gen_tree(rng, depth - 1)
        if op == "pow":
            # exponent: mostly a small non-negative integer (possibly as an expression)
            q = rng.random()
            if q < 0.7:
                b = ("lit", rng.choice([0, 1, 2, 2, 3, 3, 4, 5, 7]))
            elif q < 0.85:
                b = ("bin", "mod", ("lit", rng.randrange(0, 50)), ("lit", rng.choice([2, 3, 4])))
            elif q < 0.93:
                b = ("un", "neg", ("lit", rng.choice([1, 2, 3])))      # out of C01's scope → model-vs-code only
            else:
                b = ("bin", "div", ("lit", 1), ("lit", rng.choice([2, 3])))  # fractional exponent: out of scope
        else:
            b = gen_tree(rng, depth - 1)
        return ("bin", op, a, b)
    op = rng.choice(["neg", "neg", "pos", "abs", "floor", "ceil", "round", "int"])
    return ("un", op, gen_tree(rng, depth - 1))


def size(t):
    if t[0] in ("lit", "sci"):
        return 0
    if t[0] == "bin":
        return 1 + size(t[2]) + size(t[3])
    return 1 + size(t[2])


def sexpr(t):
    if t[0] == "lit":
        return "(lit %d)" % t[1]
    if t[0] == "sci":
        return "(sci %d %d)" % (t[1], t[2])
    if t[0] == "bin":
        return "(bin %s %s %s)" % (t[1], sexpr(t[2]), sexpr(t[3]))
    return "(un %s %s)" % (t[1], sexpr(t[2]))


def sci_text(t, parity):
    """m e k; a non-negative exponent is written with an explicit '+' in one of the two renderings (which one alternates
    with m+k), so that `1e3` and `1e+3` are both exercised and must both denote m*10^k"""
    if t[2] >= 0 and (t[1] + t[2]) % 2 == parity:
        return "%de+%d" % (t[1], t[2])
    return "%de%d" % (t[1], t[2])


def render_full(t):
    if t[0] == "lit":
        return str(t[1])
    if t[0] == "sci":
        return sci_text(t, 1)
    if t[0] == "bin":
        return "(%s %s %s)" % (render_full(t[2]), BIN[t[1]], render_full(t[3]))
    if t[1] in UN_FUN:
        return "%s(%s)" % (UN_FUN[t[1]], render_full(t[2]))
    return "(%s(%s))" % ("-" if t[1] == "neg" else "+", render_full(t[2]))


def render_min(t, ctx=0, right=False):
    """Minimal parentheses by the documented precedence (binary operators left-associative;
    a sign binds tighter than ^ and applies to a primary)."""
    if t[0] == "sci":
        return sci_text(t, 0)
    if t[0] == "lit":
        return render_full(t)
    if t[0] == "un":
        if t[1] in UN_FUN:
            return "%s(%s)" % (UN_FUN[t[1]], render_min(t[2], 0))
        inner = t[2]
        if inner[0] in ("lit", "sci") or (inner[0] == "un" and inner[1] in UN_FUN):
            s = ("-" if t[1] == "neg" else "+") + render_min(inner, 9)
        else:
            s = ("-" if t[1] == "neg" else "+") + "(" + render_min(inner, 0) + ")"
        return s
    p = PREC[t[1]]
    s = "%s %s %s" % (render_min(t[2], p, False), BIN[t[1]], render_min(t[3], p, True))
    if p < ctx or (p == ctx and right):
        return "(" + s + ")"
    return s


class OOS(Exception):
    pass


class TooBig(Exception):
    pass


def floored_mod(a, b):
    return a - b * math.floor(a / b)


def oracle(t):
    """Eager Fraction evaluation: the mathematical reading.  ZeroDivisionError ↦ division by zero."""
    if t[0] == "lit":
        return Fraction(t[1])
    if t[0] == "sci":
        return Fraction(t[1]) * Fraction(10) ** t[2]
    if t[0] == "bin":
        a = oracle(t[2]); b = oracle(t[3])
        op = t[1]
        if op == "add": r = a + b
        elif op == "sub": r = a - b
        elif op == "mul": r = a * b
        elif op == "div":
            if b == 0: raise ZeroDivisionError
            r = a / b
        elif op == "mod":
            if b == 0: raise ZeroDivisionError
            r = floored_mod(a, b)
        else:
            if b.denominator != 1 or b < 0:
                raise OOS
            if b > 64 or (a.numerator.bit_length() + a.denominator.bit_length()) * int(b) > 40000:
                raise TooBig
            r = a ** int(b)
        if r.numerator.bit_length() + r.denominator.bit_length() > 60000:
            raise TooBig
        return r
    a = oracle(t[2]); op = t[1]
    if op == "pos": return a
    if op == "neg": return -a
    if op == "abs": return abs(a)
    if op == "floor": return Fraction(math.floor(a))
    if op == "ceil": return Fraction(math.ceil(a))
    if op == "round": return Fraction(round(a))
    if op == "int": return Fraction(math.trunc(a))
    raise OOS


def real_answer(res):
    k, v = res
    if k == "err":
        return "err " + v
    c = num_canon(v)
    return "ok " + (c if c is not None else "other:" + type(v).__name__)


def check(ctx):
    rng = ctx.rng
    n = ctx.n(2500, 40000)
    maxd = ctx.n(7, 11)
    cases, seen = [], set()
    n_layout = [0]
    # corpus first: hand-picked edge cases
    corpus = [
        ("bin", "mod", ("lit", 7), ("un", "neg", ("lit", 2))),
        ("bin", "mod", ("bin", "div", ("lit", 7), ("lit", 2)), ("un", "neg", ("lit", 2))),
        ("bin", "mod", ("un", "neg", ("lit", 7)), ("bin", "div", ("lit", 2), ("lit", 3))),
        ("bin", "mul", ("sci", 1, -3), ("lit", 1000)),
        ("bin", "pow", ("bin", "div", ("lit", 3), ("lit", 2)), ("lit", 2)),
        ("bin", "sub", ("bin", "div", ("lit", 1), ("lit", 3)), ("bin", "div", ("lit", 1), ("lit", 3))),
        ("bin", "div", ("lit", 4), ("lit", 2)),
        ("bin", "div", ("lit", 1), ("bin", "sub", ("lit", 2), ("lit", 2))),
        ("bin", "mod", ("lit", 1), ("bin", "sub", ("lit", 2), ("lit", 2))),
        ("bin", "pow", ("lit", 0), ("lit", 0)),
        ("un", "round", ("bin", "div", ("lit", 5), ("lit", 2))),
        ("un", "round", ("bin", "div", ("lit", 7), ("lit", 2))),
        ("un", "round", ("un", "neg", ("bin", "div", ("lit", 5), ("lit", 2)))),
        ("un", "int", ("un", "neg", ("bin", "div", ("lit", 7), ("lit", 2)))),
        ("un", "floor", ("un", "neg", ("bin", "div", ("lit", 7), ("lit", 2)))),
        ("bin", "div", ("bin", "pow", ("lit", 10), ("lit", 30)), ("lit", 7)),
        ("bin", "mul", ("bin", "div", ("lit", 2**64 + 1), ("lit", 3)), ("lit", 3)),
        ("sci", 1000, -3), ("sci", 15, 2), ("sci", 0, -5),
        ("bin", "pow", ("bin", "div", ("lit", 1), ("lit", 2)), ("lit", 3)),
        ("bin", "pow", ("bin", "div", ("lit", 5), ("lit", 2)), ("lit", 30)),
        ("bin", "mul", ("bin", "pow", ("bin", "div", ("lit", 5), ("lit", 2)), ("lit", 30)), ("bin", "pow", ("lit", 2), ("lit", 30))),
        ("bin", "pow", ("bin", "div", ("lit", 3), ("lit", 4)), ("lit", 7)), ("bin", "pow", ("lit", 3), ("lit", 5)), ("bin", "pow", ("lit", 10), ("lit", 7)),
    ]
    trees = list(corpus)
    while len(trees) < n:
        trees.append(gen_tree(rng, rng.randrange(1, maxd + 1)))
    real = ctx.real
    # history must not matter: evaluate float powers of dyadic bases FIRST (a result cache keyed on == / hash would
    # hand their float answers to the equal Fraction powers evaluated below)
    for b in ("0.5", "1.5", "2.5", "0.25", "0.75", "3.0", "10.0"):
        for e in (0, 1, 2, 3, 5, 7, 30):
            real.value("%s ^ %d" % (b, e))
            real.value("%s * %d" % (b, e)); real.value("%s + %d" % (b, e)); real.value("%s / 4" % b); real.value("%s %% 4" % b)
    for t in trees:
        try:
            want = ("val", oracle(t))
        except ZeroDivisionError:
            want = ("divzero", None)
        except OOS:
            want = ("oos", None)
        except TooBig:
            continue
        except (OverflowError, ValueError):
            continue
        full, mini = render_full(t), render_min(t)
        if full in seen:
            continue
        seen.add(full)
        r_full = real.value(full)
        r_min = real.value(mini)
        ans = real_answer(r_full)
        ctx.count(full, nontrivial=size(t) >= 1, bucket=want[0] + "/ops=%d" % min(size(t), 8))
        ctx.sample(dict(text=mini, real=ans if len(ans) < 80 else ans[:80] + "…", oracle=want[0]))
        # --- the property itself, on the real code (search for a replay)
        how = "PYTHONPATH=/repo/src HOME=<empty dir> python -c 'from ka.interpret import execute; execute(%r)'" % full
        if want[0] == "val":
            q = want[1]
            exp = "ok " + num_canon(q.numerator if q.denominator == 1 else q)
            for txt, r in ((full, r_full), (mini, r_min)):
                a = real_answer(r)
                if a != exp:
                    ctx.violation("arith:" + txt, txt, exp, a, how)
            # the same expression laid out over several lines (a line break is whitespace): every binary operator starts a line
            nl = mini
            for o in ("+", "-", "*", "/", "%", "^"):
                nl = nl.replace(" %s " % o, "\n%s " % o)
            if nl != mini and n_layout[0] < ctx.n(400, 4000):
                n_layout[0] += 1
                for lay in (nl, nl.replace("\n", "\r\n"), nl.replace("\n", " \n\t")):
                    a = real_answer(real.value(lay))
                    if a != exp:
                        ctx.violation("arith-layout:" + lay, lay, exp, a, "execute(%r)" % lay)
                        break
        elif want[0] == "divzero":
            for txt, r in ((full, r_full), (mini, r_min)):
                # "reported as an error and never produces a value": which diagnosed error is not the property's business
                if r[0] != "err" or r[1].startswith("py:") or r[1] == "diverges":
                    ctx.violation("arith:" + txt, txt, "a diagnosed error (division by zero)", real_answer(r), how)
        else:
            if real_answer(r_min) != ans and not (ans.startswith("ok f:") and nums_agree(ans[3:], real_answer(r_min)[3:])):
                ctx.violation("arith-paren:" + mini, mini, ans, real_answer(r_min), how)
        cases.append(("aexp " + sexpr(t), ans, dict(text=full, want=want[0])))

    # --- "however large the numbers get": the bases whose powers do not grow (1, -1, 0 — written or computed, int or fraction)
    # under exponents far beyond anything that could be multiplied out
    for btxt, bval in [("1", 1), ("(-1)", -1), ("0", 0), ("(3/3)", 1), ("(7 % -2)", -1), ("(5-5)", 0), ("(1/2 - 3/2)", -1), ("(2/4*2)", 1)]:
        for etxt, ev in [("134217729", 2**27 + 1), ("(10^9+1)", 10**9 + 1), ("(10^100)", 10**100), ("(10^100+1)", 10**100 + 1), ("2^64", 2**64), ("4000000001", 4000000001)]:
            for wrap, f in [("%s", lambda v: Fraction(v)), ("%s * 7/3", lambda v: Fraction(v) * 7 / 3), ("5 - %s", lambda v: 5 - Fraction(v))]:
                txt = wrap % ("%s^%s" % (btxt, etxt))
                q = f(bval if ev % 2 else abs(bval))
                exp = "ok " + num_canon(q.numerator if q.denominator == 1 else q)
                a = real_answer(real.value(txt, timeout=10.0))
                ctx.count(txt, bucket="special-base-huge-exponent")
                if a != exp:
                    ctx.violation("arith:" + txt, txt, exp, a, "execute(%r)" % txt)

    def agree(real_ans, model_ans, info):
        m = model_ans.split(" | ")[0]
        if real_ans == m:
            return True
        if real_ans.startswith("ok f:") and m.startswith("ok f:"):
            return nums_agree(real_ans[3:], m[3:], 1e-9)
        return False
    ctx.correspond("aexp", cases, agree=agree, describe=lambda i: i["text"])
    # the same programs as TEXT through the unified pipeline model (lexer -> parser -> evaluator -> display)
    texts = [c[2]["text"] for c in cases[: ctx.n(1200, 12000)]] + [render_min(t) for t in trees[: ctx.n(600, 6000)]]
    pipeline.run(ctx, [t for t in texts if len(t) < 4000], label="run-c01", min_modelled=0.0)
    # execute() level: a sample through the full pipeline incl. display (value must print, status 0)
    k = 0
    for t in trees[: ctx.n(300, 3000)]:
        try:
            q = oracle(t)
        except Exception:
            continue
        if q.numerator.bit_length() > 900 or q.denominator.bit_length() > 900:
            continue   # display of huge values (float approximation, digit limit) is C06/C15's subject
        r = real.execute(render_min(t))
        k += 1
        if r["escaped"] or r["status"] != 0:
            ctx.violation("arith-exec:" + render_min(t), render_min(t), "status 0", str((r["status"], r["escaped"], r["err"][:100])),
                          "execute(%r)" % render_min(t))
            continue
        shown = r["out"].strip().split("    ")[0]
        if q.denominator == 1:
            exp = str(q.numerator)
        else:
            w = abs(q.numerator) // q.denominator
            exp = str(q) if w == 0 else "%d %s" % ((1 if q >= 0 else -1) * w, abs(q) - w)
        if shown != exp:
            ctx.violation("arith-display:" + render_min(t), render_min(t), exp, shown, "execute(%r)" % render_min(t))
    ctx.cov["execute_level_cases"] = k

LEVEL_TEXT = ("Machine-checked proof (Lean 4) over an executable model of Ka's numeric tower: for every expression tree "
              "(structural induction, unbounded Int/Rat operands) evaluation returns the canonical form of the exact "
              "rational, never a float, and division/modulo by zero is an error; the operator→implementation table is "
              "regenerated from /repo and re-checked by the kernel; the hand-written kind rules are tied to the code by "
              "a differential correspondence on random trees, and an independent Fraction oracle searches the real code for a replay.")
LEVEL_NOTE = ("Theorems are about the model (Model/Num.lean, Model/Arith.lean); the model agrees with CPython's int/Fraction "
              "operators on the generated inputs only. Lexing/parsing of the rendered text is exercised, not proved here (C02, C11).")
TECHNIQUE = "Lean 4 proof by induction over expression trees + generated dispatch table (kernel decide) + differential correspondence"
