"""C07 — interval arithmetic encloses every point; interval predicates mean 'for all'."""
from fractions import Fraction
import math
import core
from core import num_canon, num_parse

ID = "C07"
LEAN_MODULES = ["KaVerif.Props.C07", "KaVerif.Props.C07Real"]
GEN = []
THEOREMS = ["KaVerif.C07_rat_model", "KaVerif.C07_wf", "KaVerif.C07_wf_sqrt", "KaVerif.C07_make",
            "KaVerif.C07_encl_linear", "KaVerif.C07_encl_div", "KaVerif.C07_encl_neg_abs",
            "KaVerif.C07_encl_min_max", "KaVerif.C07_pm", "KaVerif.C07_encl_pow_int",
            "KaVerif.C07_encl_pow_real", "KaVerif.C07_encl_sqrt", "KaVerif.C07_encl_log",
            "KaVerif.C07_reject", "KaVerif.C07_cmp_forall", "KaVerif.C07_in", "KaVerif.C07_eq_ne",
            "KaVerif.C07_encl_sqrt_real", "KaVerif.C07_encl_log_real", "KaVerif.C07_encl_ln_real",
            "KaVerif.C07_encl_pow_real_real"]
RULE = ("Ka text through the real tokenise->parse->eval: interval literals [a, b] with bounds from {int, fraction, "
        "decimal float} x {negative, zero-straddling, touching zero, degenerate, positive, reversed}, combined with "
        "+ - * / by a scalar (both operand orders where registered), ^ with exponents {-3..4, +-1/2, 1/3, 3/2, 2.5, -2.5, 0}, "
        "unary - and +, abs, sqrt, ln/log2/log10, log with bases {1/2, 0.9, 1, 2, e, 10, -2, 0, 3/2}, min/max (both "
        "orders), size/lower/upper, the four order predicates against a scalar (both orders) and an interval, in / "
        "contains, == / !=, x +- y and tol(x, y).  Every case: model-vs-code correspondence (exact for int/fraction "
        "results, 1e-9 relative when a float is involved) and the oracle on the real code: >= 40 sample points of the "
        "operand interval pushed through the real scalar dispatch and tested for membership.  A case is non-trivial "
        "when the operand interval is not the collapsed [0, 0] of a reversed literal; distinct = distinct Ka text.")
ASSUMPTIONS = [
    "floats: the model computes with the exact rational value of each double and libm through Lean's Float; results "
    "involving a float are compared with 1e-9 relative tolerance (IEEE rounding is not modelled)",
    "the theorems about sqrt/log/non-integer powers assume the function is monotone (antitone) on the stated domain; "
    "this is proved for the real functions (C07Real) and not for the libm doubles the code calls",
]

TOL = 1e-9
NPTS = 40


# ----------------------------------------------------------------------------- scalars as Ka text
class Sc:
    """A scalar operand: Ka text and the Python value the real pipeline gives it."""
    __slots__ = ("text", "val")

    def __init__(self, text, val):
        self.text, self.val = text, val


def sc_int(n):
    return Sc(str(n) if n >= 0 else "(%d)" % n, n)


def sc_frac(p, q):
    f = Fraction(p, q)
    if f.denominator == 1:
        return sc_int(f.numerator)
    return Sc("(%d/%d)" % (f.numerator, f.denominator), f)


def sc_float(x):
    # a decimal literal with at most 3 places; an integral value is delivered by Ka as an int
    t = "%.3f" % abs(x)
    t = t.rstrip("0")
    if t.endswith("."):
        t += "0"
    v = float(t)
    if x < 0:
        v = -v
        t = "(-%s)" % t
    if v == int(v):
        v = int(v)
    return Sc(t, v)


def gen_scalar(rng, sign=None, kind=None):
    """sign: 'neg' | 'zero' | 'pos' | None."""
    kind = kind or rng.choice(["int", "int", "frac", "frac", "float"])
    sign = sign or rng.choice(["neg", "pos", "pos", "neg", "zero"])
    if sign == "zero":
        return sc_int(0)
    s = -1 if sign == "neg" else 1
    if kind == "int":
        return sc_int(s * rng.choice([1, 1, 2, 2, 3, 4, 5, 7, 10, 12, 25]))
    if kind == "frac":
        return sc_frac(s * rng.choice([1, 1, 2, 3, 5, 7, 9, 22]), rng.choice([2, 3, 4, 5, 7, 8, 10]))
    return sc_float(s * rng.choice([0.1, 0.25, 0.3, 0.5, 0.75, 0.9, 1.5, 2.5, 2.718, 3.3, 7.125, 12.6]))


def as_frac(v):
    return Fraction(v)


def gen_interval(rng):
    """(Sc a, Sc b, shape)"""
    shape = rng.choice(["neg", "straddle", "straddle", "deg", "pos", "pos", "touch0", "reversed", "deg0"])
    kind = rng.choice(["int", "frac", "float", "mixed", "mixed"])

    def k():
        return rng.choice(["int", "frac", "float"]) if kind == "mixed" else kind
    if shape == "deg0":
        z = sc_int(0)
        return z, z, shape
    if shape == "deg":
        x = gen_scalar(rng, rng.choice(["neg", "pos"]), k())
        return x, x, shape
    if shape == "straddle":
        return gen_scalar(rng, "neg", k()), gen_scalar(rng, "pos", k()), shape
    if shape == "touch0":
        if rng.random() < 0.5:
            return sc_int(0), gen_scalar(rng, "pos", k()), shape
        return gen_scalar(rng, "neg", k()), sc_int(0), shape
    x, y = gen_scalar(rng, "neg" if shape == "neg" else "pos", k()), gen_scalar(rng, "neg" if shape == "neg" else "pos", k())
    if shape == "reversed":
        x, y = gen_scalar(rng, rng.choice(["neg", "pos"]), k()), gen_scalar(rng, rng.choice(["neg", "pos"]), k())
        if as_frac(x.val) < as_frac(y.val):
            x, y = y, x
        if as_frac(x.val) == as_frac(y.val):
            y = sc_int(int(math.floor(as_frac(x.val))) - 1)
        return x, y, shape
    if as_frac(x.val) > as_frac(y.val):
        x, y = y, x
    return x, y, shape


def itext(a, b):
    return "[%s, %s]" % (a.text, b.text)


EXPONENTS = [sc_int(k) for k in (-3, -2, -1, 0, 1, 2, 3, 4)] + [
    sc_frac(1, 2), sc_frac(-1, 2), sc_frac(1, 3), sc_frac(3, 2), sc_float(2.5), sc_float(-2.5)]
BASES = [sc_frac(1, 2), sc_float(0.9), sc_int(1), sc_int(2), Sc("e", math.e), sc_int(10), sc_int(-2), sc_int(0),
         sc_frac(3, 2)]
RELS = [("lt", "<"), ("le", "<="), ("gt", ">"), ("ge", ">=")]


# ----------------------------------------------------------------------------- canonical answers
def canon_result(real, res):
    k, v = res
    if k == "err":
        return "err " + v
    if isinstance(v, real.types.Interval):
        ca, cb = num_canon(v.a), num_canon(v.b)
        if ca is None or cb is None:
            return "ok other-bounds"
        return "ok [%s %s]" % (ca, cb)
    c = num_canon(v)
    return "ok " + (c if c is not None else "other:" + type(v).__name__)


def nums_of(ans):
    """canonical numbers inside an 'ok …' answer"""
    body = ans[3:].strip()
    if body.startswith("["):
        body = body[1:-1]
    return body.split()


def agree(real_ans, model_ans, info):
    if real_ans == model_ans:
        return True
    if not (real_ans.startswith("ok ") and model_ans.startswith("ok ")):
        return False
    if real_ans.startswith("ok [") != model_ans.startswith("ok ["):
        return False
    try:
        r, m = nums_of(real_ans), nums_of(model_ans)
        if len(r) != len(m):
            return False
        if not (info["fl"] or any(x.startswith("f:") for x in r)):
            return False          # exact regime: must be identical
        for x, y in zip(r, m):
            xv, yv = num_parse(x), num_parse(y)
            if isinstance(xv, bool) or isinstance(yv, bool):
                return False
            if abs(Fraction(xv) - Fraction(yv)) > Fraction(TOL) * max(1, abs(Fraction(xv)), abs(Fraction(yv))):
                return False
        return True
    except Exception:
        return False


def mk_case(req, txt, ans):
    """real regime (tolerance) iff a float operand is involved or libm is: a float in the request, or
    sqrt / log / a power with a non-integer or negative exponent (int ** negative is a float in Python)"""
    w = req.split()
    fl = "f:" in req or w[0] in ("sqrt", "ln", "log2", "log10", "log")
    if w[0] == "pow":
        y = num_parse(w[3])
        fl = fl or Fraction(y).denominator != 1 or y < 0
    return ("intv " + req, ans, dict(text=txt, fl=fl))


# ----------------------------------------------------------------------------- oracle helpers
def simp(real, q):
    """a sample point as the value Ka would hold (Fractions with denominator 1 are ints)"""
    return real.types.simplify_number(q)


def sample_points(rng, lo, hi, n=NPTS):
    """>= n points of [lo, hi]: the endpoints themselves (their own kind), 0 when inside, and exact rationals between."""
    pts = [lo, hi]
    flo, fhi = Fraction(lo), Fraction(hi)
    if flo <= 0 <= fhi:
        pts.append(0)
    if flo < fhi:
        w = fhi - flo
        pts.append(flo + w / 2)
        for d in (3, 7, 10):
            for k in range(1, d):
                pts.append(flo + w * Fraction(k, d))
        while len(pts) < n + 4:
            pts.append(flo + w * Fraction(rng.randrange(1, 10**6), 10**6))
        # points next to zero, where monotonicity flips
        if flo < 0 < fhi:
            pts.append(max(flo, Fraction(-1, 1000)))
            pts.append(min(fhi, Fraction(1, 1000)))
    return pts


def is_exact(*vs):
    return all(not isinstance(v, float) for v in vs)


def member(y, lo, hi, inputs_exact=True):
    """y in [lo, hi]: exact for exact kinds, 1e-9 relative slack as soon as a float is involved (in the
    operands — an integral float result is delivered as an int — or in the values compared)."""
    if inputs_exact and is_exact(y, lo, hi):
        return lo <= y <= hi
    fy, fl, fh = Fraction(y), Fraction(lo), Fraction(hi)
    slack = Fraction(TOL) * max(1, abs(fy), abs(fl), abs(fh))
    return fl - slack <= fy <= fh + slack


def scalar(real, name, args):
    """the scalar operation through the real dispatch: ('ok', v) | ('err', code)"""
    try:
        with core.alarm(5.0):
            return ("ok", real.functions.dispatch(name, tuple(args)))
    except BaseException as e:   # noqa
        if isinstance(e, (KeyboardInterrupt, SystemExit)):
            raise
        return ("err", core.err_code(e))


HOW = "PYTHONPATH=/repo/src HOME=<empty dir> python -c 'from ka.interpret import execute; execute(\"%s\")'"


def check(ctx):
    rng = ctx.rng
    real = ctx.real
    Interval = real.types.Interval
    n_cases = ctx.n(3000, 40000)
    cases = []           # correspondence
    seen = set()
    vcache = {}

    def realval(sc):
        """the value the real pipeline gives the scalar text (what the model must be fed)"""
        if sc.text not in vcache:
            vcache[sc.text] = real.value(sc.text)
        r = vcache[sc.text]
        if r[0] != "ok" or num_canon(r[1]) is None or isinstance(r[1], bool):
            raise core.Infra("scalar text %r did not evaluate to a number: %r" % (sc.text, r))
        if Fraction(r[1]) != Fraction(sc.val) and not (isinstance(sc.val, float) and abs(r[1] - sc.val) < 1e-12):
            raise core.Infra("scalar text %r evaluated to %r, generator expected %r" % (sc.text, r[1], sc.val))
        return r[1]

    def C(sc):
        return num_canon(realval(sc))

    def operand(a, b):
        """the real value of the literal [a, b] (checked: well-formed, and the literal rule)"""
        txt = itext(a, b)
        r = real.value(txt)
        if r[0] != "ok" or not isinstance(r[1], Interval):
            ctx.violation("literal:" + txt, txt, "an interval", canon_result(real, r), HOW % txt)
            return None
        I = r[1]
        va, vb = realval(a), realval(b)
        exp = (va, vb) if va <= vb else (0, 0)
        if (I.a, I.b) != exp or num_canon(I.a) != num_canon(exp[0]) or num_canon(I.b) != num_canon(exp[1]):
            ctx.violation("literal:" + txt, txt, "[%s, %s]" % exp, str(I), HOW % txt)
        return I

    def wf(txt, res):
        if res[0] == "ok" and isinstance(res[1], Interval):
            if not (res[1].a <= res[1].b):
                ctx.violation("wf:" + txt, txt, "lower <= upper", str(res[1]), HOW % txt)
                return False
        return True

    def enclosure(txt, res, I, fname, mkargs, label, expect_reject=None):
        """res = real result of the interval operation `txt` on operand I.
        mkargs(x) = argument tuple of the scalar operation `fname` for the point x."""
        pts = [simp(real, p) if isinstance(p, Fraction) else p for p in sample_points(rng, I.a, I.b)]
        outs = [(x, scalar(real, fname, mkargs(x))) for x in pts]
        bad_pts = [(x, o) for x, o in outs if o[0] == "err" and o[1] in ("runtime", "divzero", "eval", "overflow")]
        if expect_reject is True and res[0] != "err":
            ctx.violation("reject:" + txt, txt, "an error (the operation is undefined somewhere on the operand)",
                          canon_result(real, res), HOW % txt)
            return
        if res[0] == "err":
            if res[1].startswith("py:") or res[1] == "diverges":      # which diagnosed error it is does not matter
                ctx.violation("errclass:" + txt, txt, "a value or a diagnosed error", "err " + res[1], HOW % txt)
            elif not bad_pts and all(o[0] == "ok" for _, o in outs):
                ctx.violation("spurious-reject:" + txt, txt,
                              "an interval (the scalar operation is defined at all %d sampled points incl. the endpoints)" % len(outs),
                              "err " + res[1], HOW % txt)
            return
        J = res[1]
        inputs_exact = is_exact(I.a, I.b, *mkargs(0))
        if not isinstance(J, Interval):
            ctx.violation("kind:" + txt, txt, "an interval", canon_result(real, res), HOW % txt)
            return
        if bad_pts:
            x, o = bad_pts[0]
            ctx.violation("undefined-point:" + txt, txt,
                          "an error: %s is undefined at the point %s of the operand" % (label, x),
                          canon_result(real, res), HOW % txt)
            return
        for x, o in outs:
            if o[0] != "ok":
                continue
            y = o[1]
            if isinstance(y, bool) or num_canon(y) is None:
                continue
            if inputs_exact and not isinstance(y, float):
                # nothing was rounded on the scalar side (exact operands, exact image): the enclosure is exact too,
                # whatever kind the bounds were delivered in — no slack
                inside = Fraction(J.a) <= Fraction(y) <= Fraction(J.b)
            else:
                inside = member(y, J.a, J.b, inputs_exact)
            if not inside:
                ctx.violation("encl:" + txt, txt, "result contains %s applied to the point %s = %s" % (label, x, y),
                              str(J), HOW % txt)
                return

    def add_case(req, txt, res, shape):
        h = ctx.cov["histogram"]
        k = "outcome/" + (res[1] if res[0] == "err" else "ok")
        h[k] = h.get(k, 0) + 1
        cases.append(mk_case(req, txt, canon_result(real, res)))

    def fresh(txt):
        if txt in seen:
            return False
        seen.add(txt)
        return True

    # ------------------------------------------------------------------ case kinds
    def case_binop():
        a, b, shape = gen_interval(rng)
        I = operand(a, b)
        if I is None:
            return
        op, name, rev = rng.choice([("add", "+", False), ("add", "+", True), ("sub", "-", False),
                                    ("mul", "*", False), ("mul", "*", True), ("div", "/", False), ("div", "/", False),
                                    # number-first `-` and `/` are not offered by the code (no overload): fine — but IF a value comes
                                    # back it must enclose every point, and a divisor interval reaching 0 must be rejected
                                    ("sub", "-", True), ("div", "/", True), ("div", "/", True)])
        n = gen_scalar(rng)
        if op == "div" and rng.random() < 0.85 and n.val == 0:
            n = gen_scalar(rng, rng.choice(["neg", "pos"]))
        txt = "%s %s %s" % ((n.text, name, itext(a, b)) if rev else (itext(a, b), name, n.text))
        if not fresh(txt):
            return
        res = real.value(txt)
        ctx.count(txt, nontrivial=shape != "reversed", bucket="%s%s/%s" % ("r" if rev else "", op, shape))
        ctx.sample(dict(text=txt, real=canon_result(real, res)))
        wf(txt, res)
        nv = realval(n)
        if rev and op in ("sub", "div"):
            if res[0] == "err" and res[1] == "nomatch":
                return                       # not offered: nothing is claimed
            enclosure(txt, res, I, name, lambda x: (nv, x), "n %s x" % name,
                      expect_reject=(op == "div" and Fraction(I.a) <= 0 <= Fraction(I.b)) or None)
            return
        enclosure(txt, res, I, name, (lambda x: (nv, x)) if rev else (lambda x: (x, nv)), "x %s n" % name,
                  expect_reject=(op == "div" and nv == 0) or None)
        if rev:
            add_case("r%s %s %s %s" % (op, C(n), C(a), C(b)), txt, res, shape)
        else:
            add_case("%s %s %s %s" % (op, C(a), C(b), C(n)), txt, res, shape)

    def case_pow(fixed=None):
        a, b, shape = gen_interval(rng) if fixed is None else (fixed[0], fixed[1], "twin")
        I = operand(a, b)
        if I is None:
            return
        y = rng.choice(EXPONENTS) if fixed is None else fixed[2]
        txt = "%s ^ %s" % (itext(a, b), y.text)
        if not fresh(txt):
            return
        res = real.value(txt)
        yv = realval(y)
        fractional = Fraction(yv).denominator != 1
        must_reject = (I.a <= 0 <= I.b and yv < 0) or (fractional and I.a < 0)
        ctx.count(txt, nontrivial=shape != "reversed",
                  bucket="pow/%s/%s" % (shape, "frac" if fractional else ("neg" if yv < 0 else ("even" if yv % 2 == 0 else "odd"))))
        ctx.sample(dict(text=txt, real=canon_result(real, res)))
        wf(txt, res)
        enclosure(txt, res, I, "^", lambda x: (x, yv), "x ^ %s" % y.text, expect_reject=must_reject or None)
        add_case("pow %s %s %s" % (C(a), C(b), C(y)), txt, res, shape)

    def case_pow_twins():
        """operand triples that differ only by -1 versus -2 in a bound or in the exponent, evaluated one after the other in both
        orders (the two integers CPython hashes alike): each power must enclose ITS OWN operand's image"""
        lo, hi = rng.choice([(2, 4), (1, 3), (-4, -2), (3, 7), (-3, -1)]), None
        a, b = sc_int(lo[0]), sc_int(lo[1])
        first, second = rng.sample([sc_int(-1), sc_int(-2)], 2)
        case_pow((a, b, first))
        case_pow((a, b, second))
        e = rng.choice([sc_int(3), sc_int(2), sc_int(5)])
        up = sc_int(rng.choice([3, 4, 6]))
        l1, l2 = rng.sample([sc_int(-1), sc_int(-2)], 2)
        case_pow((l1, up, e))
        case_pow((l2, up, e))

    def case_sqrt_bigsquare():
        """bounds that are huge integers next to a perfect square whose root is beyond 2^53: the scalar function need not be
        exact there, but the interval built from it is ordered and contains sqrt of every point — in particular of the square"""
        k = rng.choice(["(2^53+1)", "(10^20+1)", "(3*2^60+7)", "(2^64-1)", "(10^17+3)"])
        d = rng.choice(["1", "2", "3"])
        for txt in ("sqrt([%s^2, %s^2+%s])" % (k, k, d), "sqrt([%s^2-%s, %s^2])" % (k, d, k), "sqrt([%s^2-%s, %s^2+%s])" % (k, d, k, d)):
            if not fresh(txt):
                continue
            res = real.value(txt)
            ctx.count(txt, bucket="sqrt/next-to-a-huge-square")
            wf(txt, res)
            if res[0] == "err" and (res[1].startswith("py:") or res[1] == "diverges"):
                ctx.violation("errclass:" + txt, txt, "a value or a diagnosed error", "err " + res[1], HOW % txt)
        for txt in ("sqrt(%s^2) in sqrt([1, %s^2+%s])" % (k, k, d), "sqrt(%s^2) in sqrt([%s^2-%s, %s^2+%s])" % (k, k, d, k, d),
                    "sqrt(%s^2+%s) in sqrt([%s^2, %s^2+%s])" % (k, d, k, k, d)):
            if not fresh(txt):
                continue
            res = real.value(txt)
            ctx.count(txt, bucket="sqrt/point-of-the-operand")
            if res[0] != "ok" or res[1] != 1:
                ctx.violation("encl:" + txt, txt, "1 (the operand contains that point, so the result contains its square root)", canon_result(real, res), HOW % txt)

    def case_unary():
        a, b, shape = gen_interval(rng)
        I = operand(a, b)
        if I is None:
            return
        op = rng.choice(["neg", "pos", "abs", "sqrt", "sqrt", "ln", "log2", "log10", "size", "lower", "upper", "make"])
        fn = {"neg": "-", "pos": "+"}.get(op, op)
        txt = itext(a, b) if op == "make" else "%s(%s)" % (fn, itext(a, b))
        if not fresh(txt):
            return
        res = real.value(txt)
        ctx.count(txt, nontrivial=shape != "reversed", bucket="%s/%s" % (op, shape))
        ctx.sample(dict(text=txt, real=canon_result(real, res)))
        wf(txt, res)
        if op in ("neg", "pos", "abs", "sqrt", "ln", "log2", "log10"):
            must = (op == "sqrt" and I.a < 0) or (op in ("ln", "log2", "log10") and I.a <= 0)
            enclosure(txt, res, I, fn, lambda x: (x,), "%s(x)" % fn, expect_reject=must or None)
        elif op == "size":
            exp = Fraction(I.b) - Fraction(I.a)
            if (res[0] != "ok" or isinstance(res[1], (bool, Interval)) or res[1] < 0
                    or not member(res[1], exp, exp, is_exact(I.a, I.b))):
                ctx.violation("size:" + txt, txt, str(exp), canon_result(real, res), HOW % txt)
        elif op in ("lower", "upper"):
            exp = I.a if op == "lower" else I.b
            if res[0] != "ok" or num_canon(res[1]) != num_canon(exp):
                ctx.violation("bound:" + txt, txt, str(exp), canon_result(real, res), HOW % txt)
        add_case("%s %s %s" % (op, C(a), C(b)), txt, res, shape)

    def case_log():
        a, b, shape = gen_interval(rng)
        if rng.random() < 0.6 and shape != "pos":
            a, b, shape = gen_interval(rng)
        I = operand(a, b)
        if I is None:
            return
        base = rng.choice(BASES)
        txt = "log(%s, %s)" % (itext(a, b), base.text)
        if not fresh(txt):
            return
        res = real.value(txt)
        bv = realval(base)
        must = I.a <= 0 or bv <= 0 or bv == 1
        ctx.count(txt, nontrivial=shape != "reversed", bucket="log/%s/base%s" % (shape, base.text))
        ctx.sample(dict(text=txt, real=canon_result(real, res)))
        wf(txt, res)
        enclosure(txt, res, I, "log", lambda x: (x, bv), "log(x, %s)" % base.text, expect_reject=must or None)
        add_case("log %s %s %s" % (C(a), C(b), C(base)), txt, res, shape)

    def scalar_near(I):
        """a scalar at, near, inside or outside the bounds of I (decisive and boundary cases)"""
        r = rng.random()
        if r < 0.3:
            v = rng.choice([I.a, I.b])
        elif r < 0.5:
            v = Fraction(I.a) + (Fraction(I.b) - Fraction(I.a)) * Fraction(rng.randrange(0, 9), 8)
        else:
            return gen_scalar(rng)
        if isinstance(v, float):
            s = sc_float(v)
            return s
        v = Fraction(v).limit_denominator(1000)
        return sc_frac(v.numerator, v.denominator)

    def holds(rel, s, t):
        return {"lt": s < t, "le": s <= t, "gt": s > t, "ge": s >= t}[rel]

    def case_cmp():
        a, b, shape = gen_interval(rng)
        I = operand(a, b)
        if I is None:
            return
        rel, sym = rng.choice(RELS)
        form = rng.choice(["in", "ni", "ii"])
        if form == "ii":
            if rng.random() < 0.4:
                # a second interval sharing / touching a bound of the first
                c = rng.choice([a, b]); d = gen_scalar(rng)
                if Fraction(c.val) > Fraction(d.val):
                    c, d = d, c
                shape2 = "touching"
            else:
                c, d, shape2 = gen_interval(rng)
            J = operand(c, d)
            if J is None:
                return
            txt = "%s %s %s" % (itext(a, b), sym, itext(c, d))
            req = "cmp_ii %s %s %s %s %s" % (rel, C(a), C(b), C(c), C(d))
            P, Q = sample_points(rng, I.a, I.b, 8), sample_points(rng, J.a, J.b, 8)
            pairs = [(s, t) for s in P[:12] for t in Q[:12]]
            decisive = [(s, t) for s in (I.a, I.b) for t in (J.a, J.b)]
        else:
            x = scalar_near(I)
            xv = realval(x)
            P = sample_points(rng, I.a, I.b)
            if form == "in":
                txt = "%s %s %s" % (itext(a, b), sym, x.text)
                req = "cmp_in %s %s %s %s" % (rel, C(a), C(b), C(x))
                pairs = [(s, xv) for s in P]
                decisive = [(I.a, xv), (I.b, xv)]
            else:
                txt = "%s %s %s" % (x.text, sym, itext(a, b))
                req = "cmp_ni %s %s %s %s" % (rel, C(x), C(a), C(b))
                pairs = [(xv, s) for s in P]
                decisive = [(xv, I.a), (xv, I.b)]
        if not fresh(txt):
            return
        res = real.value(txt)
        ctx.count(txt, nontrivial=shape != "reversed", bucket="cmp_%s/%s" % (form, rel))
        ctx.sample(dict(text=txt, real=canon_result(real, res)))
        if res[0] != "ok" or isinstance(res[1], bool) or res[1] not in (0, 1) or not isinstance(res[1], int):
            ctx.violation("cmp-value:" + txt, txt, "0 or 1", canon_result(real, res), HOW % txt)
        elif res[1] == 1:
            for s, t in pairs + decisive:
                if not holds(rel, s, t):
                    ctx.violation("cmp-forall:" + txt, txt, "0 (the relation fails for the points %s, %s)" % (s, t), "1", HOW % txt)
                    break
        else:
            if all(holds(rel, s, t) for s, t in decisive):
                ctx.violation("cmp-forall:" + txt, txt, "1 (the relation holds at every endpoint combination, hence everywhere)", "0", HOW % txt)
        add_case(req, txt, res, shape)

    def case_cmp_chain():
        """`x op1 I op2 y` and the other placements of an interval in a double comparison: on the reviewed tree Ka REJECTS
        them (no signature), and a rejection is no claim — but wherever such a chain is answered, the answer is 1 exactly
        when both relations hold for all points (the property's clause on comparisons, as written)."""
        a, b, shape = gen_interval(rng)
        I = operand(a, b)
        if I is None:
            return
        (r1, s1), (r2, s2) = rng.choice([(x, y) for x in RELS for y in RELS if x[0][0] == y[0][0]])
        def side():
            if rng.random() < 0.3:
                c, d, _ = gen_interval(rng)
                J = operand(c, d)
                if J is not None:
                    return itext(c, d), (J.a, J.b)
            x = scalar_near(I)
            v = realval(x)
            return x.text, (v, v)
        place = rng.choice(["mid", "mid", "mid", "left", "right"])
        L, R = side(), side()
        me = (itext(a, b), (I.a, I.b))
        ops3 = {"mid": (L, me, R), "left": (me, L, R), "right": (L, R, me)}[place]
        txt = "%s %s %s %s %s" % (ops3[0][0], s1, ops3[1][0], s2, ops3[2][0])
        if not fresh(txt):
            return
        res = real.value(txt)
        ctx.count(txt, bucket="cmp_chain/%s/%s" % (place, "answered" if res[0] == "ok" else "rejected"))
        if res[0] != "ok":
            return
        want = int(all(holds(r1, u, v) for u in ops3[0][1] for v in ops3[1][1]) and all(holds(r2, u, v) for u in ops3[1][1] for v in ops3[2][1]))
        if isinstance(res[1], bool) or res[1] not in (0, 1) or not isinstance(res[1], int):
            ctx.violation("cmp-value:" + txt, txt, "0 or 1", canon_result(real, res), HOW % txt)
        elif res[1] != want:
            ctx.violation("cmp-forall:" + txt, txt, "%d (both relations at every combination of end points)" % want, str(res[1]), HOW % txt)

    def case_in():
        a, b, shape = gen_interval(rng)
        I = operand(a, b)
        if I is None:
            return
        x = scalar_near(I)
        xv = realval(x)
        form = rng.choice(["in", "contains"])
        txt = "%s in %s" % (x.text, itext(a, b)) if form == "in" else "contains(%s, %s)" % (itext(a, b), x.text)
        if not fresh(txt):
            return
        res = real.value(txt)
        exp = 1 if I.a <= xv <= I.b else 0
        ctx.count(txt, nontrivial=shape != "reversed", bucket="%s/%s/%d" % (form, shape, exp))
        ctx.sample(dict(text=txt, real=canon_result(real, res)))
        if res[0] != "ok" or isinstance(res[1], bool) or res[1] != exp:
            ctx.violation("in:" + txt, txt, str(exp), canon_result(real, res), HOW % txt)
        if form == "in":
            add_case("in %s %s %s" % (C(x), C(a), C(b)), txt, res, shape)
        else:
            add_case("contains %s %s %s" % (C(a), C(b), C(x)), txt, res, shape)

    def case_eq():
        a, b, shape = gen_interval(rng)
        r = rng.random()
        if r < 0.35:
            c, d = a, b
        elif r < 0.55:
            c, d = a, gen_scalar(rng)
        elif r < 0.7:
            c, d = gen_scalar(rng), b
        else:
            c, d, _ = gen_interval(rng)
        if operand(a, b) is None or operand(c, d) is None:
            return
        t_eq = "%s == %s" % (itext(a, b), itext(c, d))
        t_ne = "%s != %s" % (itext(a, b), itext(c, d))
        if not fresh(t_eq):
            return
        r_eq, r_ne = real.value(t_eq), real.value(t_ne)
        ctx.count(t_eq, nontrivial=shape != "reversed", bucket="eq_ne/%s" % (canon_result(real, r_eq)))
        ctx.sample(dict(text=t_eq, real=canon_result(real, r_eq), ne=canon_result(real, r_ne)))
        ok = (r_eq[0] == "ok" and r_ne[0] == "ok" and not isinstance(r_eq[1], bool) and not isinstance(r_ne[1], bool)
              and r_eq[1] in (0, 1) and r_ne[1] in (0, 1) and r_ne[1] == 1 - r_eq[1])
        if not ok:
            ctx.violation("eq-ne:" + t_eq, t_ne, "1 - (%s) = 1 - %s" % (t_eq, canon_result(real, r_eq)),
                          canon_result(real, r_ne), HOW % t_ne)
        add_case("eq %s %s %s %s" % (C(a), C(b), C(c), C(d)), t_eq, r_eq, shape)
        add_case("ne %s %s %s %s" % (C(a), C(b), C(c), C(d)), t_ne, r_ne, shape)

    def case_eq_scalar():
        """an interval against a NUMBER (either order): whatever == answers, != answers the opposite"""
        x = gen_scalar(rng)
        forms = ["[%s, %s]" % (x.text, x.text), "%s ± 0" % x.text, "tol(%s, 0)" % x.text, "[1, 3]^0", "[1, 3]*0", "min([1, 3], 0)", "max([1, 3], 5)",
                 "[%s, %s + 1]" % (x.text, x.text), "[0, 0]"]
        it = rng.choice(forms)
        y = rng.choice([x.text, "0", "1", "5", gen_scalar(rng).text])
        for l, r in ((it, y), (y, it)):
            t_eq, t_ne = "(%s) == (%s)" % (l, r), "(%s) != (%s)" % (l, r)
            if not fresh(t_eq):
                continue
            r_eq, r_ne = real.value(t_eq), real.value(t_ne)
            ctx.count(t_eq, bucket="eq_ne_scalar/%s" % (canon_result(real, r_eq)))
            if r_eq[0] != "ok" and r_ne[0] != "ok":
                continue            # both rejected: nothing is claimed
            ok = (r_eq[0] == "ok" and r_ne[0] == "ok" and not isinstance(r_eq[1], bool) and not isinstance(r_ne[1], bool)
                  and r_eq[1] in (0, 1) and r_ne[1] in (0, 1) and r_ne[1] == 1 - r_eq[1])
            if not ok:
                ctx.violation("eq-ne:" + t_eq, t_ne, "1 - (%s) = 1 - %s" % (t_eq, canon_result(real, r_eq)), canon_result(real, r_ne), HOW % t_ne)

    def case_near_reversed():
        """bounds written in the wrong order by a hair (relative 1e-9 … one ulp, exact and float): whatever the constructor
        makes of them, what comes out has lower <= upper, and so has everything computed from it"""
        x = gen_scalar(rng, rng.choice(["neg", "pos"]))
        k = rng.choice([9, 10, 12, 15, 17, 20])
        forms = ["[%s + 1/10^%d, %s]" % (x.text, k, x.text), "[%s, %s - 1/10^%d]" % (x.text, x.text, k),
                 "[10^%d + 1, 10^%d]" % (k, k), "[0.1 + 0.2, 0.3]", "[%s*(1 + 1/10^%d), %s]" % (x.text, k, x.text) if x.val > 0 else "[1 + 1/10^%d, 1]" % k,
                 "interval(%s + 1/10^%d, %s)" % (x.text, k, x.text), "[1e-%d, 0]" % k]
        lit = rng.choice(forms)
        for txt in (lit, "-(%s)" % lit, "(%s) + 1" % lit, "(%s) * 2" % lit, "abs(%s)" % lit):
            if not fresh(txt):
                continue
            res = real.value(txt)
            ctx.count(txt, bucket="near-reversed/" + ("ok" if res[0] == "ok" else "err"))
            wf(txt, res)
            if res[0] == "err" and (res[1].startswith("py:") or res[1] == "diverges"):
                ctx.violation("errclass:" + txt, txt, "a value or a diagnosed error", "err " + res[1], HOW % txt)

    def case_minmax():
        a, b, shape = gen_interval(rng)
        I = operand(a, b)
        if I is None:
            return
        x = scalar_near(I)
        xv = realval(x)
        f = rng.choice(["min", "max"])
        rev = rng.random() < 0.5
        txt = "%s(%s, %s)" % ((f, x.text, itext(a, b)) if rev else (f, itext(a, b), x.text))
        if not fresh(txt):
            return
        res = real.value(txt)
        ctx.count(txt, nontrivial=shape != "reversed", bucket="%s%s/%s" % ("r" if rev else "", f, shape))
        ctx.sample(dict(text=txt, real=canon_result(real, res)))
        wf(txt, res)
        enclosure(txt, res, I, f, (lambda p: (xv, p)) if rev else (lambda p: (p, xv)), "%s(x, %s)" % (f, x.text))
        if rev:
            add_case("r%s %s %s %s" % (f, C(x), C(a), C(b)), txt, res, shape)
        else:
            add_case("%s %s %s %s" % (f, C(a), C(b), C(x)), txt, res, shape)

    def case_pm():
        x, y = gen_scalar(rng), gen_scalar(rng)
        form = rng.choice(["pm", "tol"])
        txt = "%s ± %s" % (x.text, y.text) if form == "pm" else "tol(%s, %s)" % (x.text, y.text)
        if not fresh(txt):
            return
        res = real.value(txt)
        ctx.count(txt, nontrivial=True, bucket=form)
        ctx.sample(dict(text=txt, real=canon_result(real, res)))
        wf(txt, res)
        xv, yv = realval(x), realval(y)
        if res[0] != "ok" or not isinstance(res[1], Interval):
            ctx.violation("pm:" + txt, txt, "an interval", canon_result(real, res), HOW % txt)
        else:
            J = res[1]
            fx, fy = Fraction(xv), Fraction(yv)
            ex = is_exact(xv, yv)
            for k in range(-20, 21):
                t = fx + fy * Fraction(k, 20)
                if not member(t, J.a, J.b, ex):
                    ctx.violation("encl:" + txt, txt, "result contains x + y*%d/20 = %s" % (k, t), str(J), HOW % txt)
                    break
            # and nothing more than |t - x| <= |y|: the bounds are x - |y| and x + |y|
            if not (member(J.a, fx - abs(fy), fx - abs(fy), ex) and member(J.b, fx + abs(fy), fx + abs(fy), ex)):
                ctx.violation("pm-bounds:" + txt, txt, "[x - |y|, x + |y|]", str(J), HOW % txt)
        add_case("%s %s %s" % (form, C(x), C(y)), txt, res, "pm")

    kinds = [(case_binop, 26), (case_pow, 18), (case_unary, 14), (case_log, 10), (case_cmp, 16), (case_cmp_chain, 6),
             (case_in, 5), (case_eq, 5), (case_eq_scalar, 3), (case_near_reversed, 2), (case_pow_twins, 2), (case_sqrt_bigsquare, 1), (case_minmax, 6), (case_pm, 4)]
    fns = [f for f, w in kinds for _ in range(w)]

    # corpus first: the two repaired defects and hand-picked edges, as plain text through the same oracles
    corpus_ran = run_corpus(ctx, real, rng, enclosure, wf, operand, cases)
    ctx.cov["corpus_cases"] = corpus_ran
    tries = 0
    while ctx.cov["evaluations"] < n_cases and tries < n_cases * 4:
        tries += 1
        rng.choice(fns)()
    ctx.correspond("intv", cases, agree=agree, describe=lambda i: i["text"])
    # the same interval programs as text through the unified pipeline model — once with the hand-written bodies, once with
    # the bodies TRANSLATED from the Python source (Gen/Bodies.lean): status + exact display against the real execute()
    import pipeline
    texts = sorted({c[2]["text"] for c in cases if isinstance(c[2], dict) and isinstance(c[2].get("text"), str)})
    pipeline.run(ctx, [t for t in texts[: ctx.n(2500, 25000)] if len(t) < 3000], label="run-c07", min_modelled=0.0, bodies=True)


def run_corpus(ctx, real, rng, enclosure, wf, operand, cases):
    """Hand-picked inputs (previous defects D6, D7 and edges).  Each entry: (ka text, request, checker)."""
    Interval = real.types.Interval
    n = 0

    # D6: base below 1
    for (a, b, base) in [(1, 2, (1, 2)), (1, 8, (1, 2)), ((1, 4), 4, (1, 2)), (2, 3, (1, 3))]:
        bs = sc_frac(*base)
        A = sc_frac(*a) if isinstance(a, tuple) else sc_int(a)
        B = sc_int(b)
        txt = "log(%s, %s)" % (itext(A, B), bs.text)
        res = real.value(txt)
        I = operand(A, B)
        ctx.count(txt, bucket="corpus")
        wf(txt, res)
        enclosure(txt, res, I, "log", lambda x, bv=bs.val: (x, bv), "log(x, %s)" % bs.text)
        cases.append(mk_case("log %s %s %s" % (num_canon(A.val), num_canon(B.val), num_canon(bs.val)), txt, canon_result(real, res)))
        n += 1
    # D7: != on equal / different intervals
    for (t1, t2, req) in [("[1, 2] == [1, 2]", "[1, 2] != [1, 2]", "i:1 i:2 i:1 i:2"),
                          ("[1, 2] == [1, 3]", "[1, 2] != [1, 3]", "i:1 i:2 i:1 i:3"),
                          ("[3, 1] == [0, 0]", "[3, 1] != [0, 0]", "i:3 i:1 i:0 i:0")]:
        r1, r2 = real.value(t1), real.value(t2)
        ctx.count(t1, bucket="corpus")
        if not (r1[0] == "ok" and r2[0] == "ok" and r1[1] in (0, 1) and r2[1] == 1 - r1[1]):
            ctx.violation("eq-ne:" + t1, t2, "1 - (%s)" % canon_result(real, r1), canon_result(real, r2), HOW % t2)
        cases.append(mk_case("eq " + req, t1, canon_result(real, r1)))
        cases.append(mk_case("ne " + req, t2, canon_result(real, r2)))
        n += 1
    return n


LEVEL_TEXT = ("Machine-checked proof (Lean 4) over a model of Ka's interval code written once, generically over the type "
              "of the bounds: for an arbitrary linearly ordered field (unbounded quantifiers over bounds, scalars, integer "
              "exponents and points) every operation returns lower <= upper, + - * / by a number, unary -, abs, min, max, "
              "+-/tol and all integer powers enclose the image of every point, the rejections are errors, the order "
              "predicates are 1 exactly for 'all points / all pairs', in is lower<=x<=upper, != is 1-(==); sqrt/log/"
              "non-integer powers enclose for any monotone (antitone) function and this is instantiated over the reals "
              "with Real.sqrt, Real.logb (bases above and below 1), Real.rpow.  The executable instance (core Rat) is "
              "proved to be the alpha:=Q instance of the generic model and is tied to the code by a differential "
              "correspondence through the real pipeline; a point-sampling oracle searches the real code for a replay.")
LEVEL_NOTE = ("Theorems are about the model; the model agrees with the code on the generated inputs only. Float results are "
              "compared with 1e-9 relative tolerance; IEEE rounding and libm monotonicity are not modelled.")
TECHNIQUE = "Lean 4 proof over an arbitrary ordered field + instantiation at R + differential correspondence + sampling oracle"


# ---- the interval function bodies TRANSLATED from /repo/src/ka/functions.py (translate/gen_bodies.py -> Gen/Bodies.lean) are
# proved equal to the hand-written model bodies (Props/Bodies.lean); a changed Python body changes the generated definition
# and the theorem of its descriptor stops checking
import pipeline as _pl
LEAN_MODULES = LEAN_MODULES + [m for m in _pl.BODIES_MODULES if m not in LEAN_MODULES]
THEOREMS = THEOREMS + [t for t in _pl.bodies_theorems(("Interval", "BODIES_interval_", "BODIES_plusminus_", "BODIES_tol_")) if t not in THEOREMS]
GEN = GEN + [g for g in _pl.GEN + _pl.BODIES_GEN if g not in GEN]
