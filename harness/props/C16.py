"""C16 — elementary functions: accurate in-domain, rejected outside, never NaN or inf."""
import os, json, math, re, subprocess
from fractions import Fraction
import core
from core import num_canon, nums_agree, float_of_bits

ID = "C16"
LEAN_MODULES = ["KaVerif.Props.C16"]
GEN = []
THEOREMS = ["KaVerif.C16_floor", "KaVerif.C16_ceil", "KaVerif.C16_round", "KaVerif.C16_round_ties_even", "KaVerif.C16_int",
            "KaVerif.C16_sqrt_guard", "KaVerif.C16_log_guard_arg", "KaVerif.C16_log_guard_base", "KaVerif.C16_pow_guard",
            "KaVerif.C16_zero_pow_neg", "KaVerif.C16_on_quantity", "KaVerif.C16_finite"]
RULE = ("every one-argument numeric function x arguments of every numeric kind (int, fraction, float, lazy combinatoric, "
        "quantity incl. deg/rad) across and outside the domain (0, tiny, huge to 1e300 and 10^400, boundaries), log(x, base) "
        "with bases {-2,0,1/2,1,2,e,10,0.9}, ^ with integer/fractional/float exponents; as Ka text through the real pipeline; "
        "non-trivial = the argument evaluated to a value; distinct = distinct Ka text")
ASSUMPTIONS = ["accuracy to 1e-12 of libm is NOT proved: it is a differential test against mpmath at 60 digits (python3-vt), labelled as a test",
               "the model's Float functions call the same C library as CPython's math module: agreement there checks plumbing only"]
LEVEL_TEXT = ("PARTIAL. Machine-checked (Lean 4) for every argument of every numeric kind: floor/ceil/round/int return an integer with "
              "floor(x) <= x < floor(x)+1, ceil(x)-1 < x <= ceil(x), |round(x)-x| <= 1/2 (ties to even), int truncating toward zero; the "
              "domain guards (sqrt of a negative, log of a non-positive number, base <= 0 or = 1, fractional power of a negative base, "
              "0 to a negative power) yield an error and never a value; functions act on a quantity's base-unit magnitude; whatever "
              "sin/cos/tan/sqrt/ln/log2/log10 deliver is an integer or a finite double. NOT proved: the 1e-12 accuracy of libm — decided "
              "by sampling against mpmath (a test). Model tied to the code by correspondence on the same inputs.")
LEVEL_NOTE = ("No Lean model contains CPython's math module; Lean's Float calls the same libm, so it is no independent oracle. "
              "Finiteness of abs/neg/pos on floats relies on their operands being finite (they are: no infinity is ever delivered).")
TECHNIQUE = "Lean 4 proofs of guards and rounding laws over exact rationals + correspondence; accuracy by mpmath differential test (partial)"

FNS = ["sin", "cos", "tan", "sqrt", "ln", "log2", "log10", "abs", "floor", "ceil", "round", "int", "float"]
ARGS = ["0", "1", "2", "-1", "-2", "3", "10", "100", "1/2", "-1/2", "7/2", "-7/2", "5/2", "-5/2", "3/2", "1/3", "-1/3", "22/7",
        "0.5", "-0.5", "2.5", "3.5", "-2.5", "1e-3", "1e-20", "0.1", "1.5", "-1.5", "2.718281828459045", "3.141592653589793",
        "1e300", "-1e300", "1e-300", "1.7976931348623157e308", "10^400", "-(10^400)", "10^400/3", "1/(10^400)", "2^53+1",
        "9007199254740993", "5!", "C(6,3)", "3!/4!", "123456789.123", "-123456789.5", "1e15", "1e16+1", "0.0", "-0.0",
        "pi", "pi/2", "e", "8", "1000", "1e22", "0.49999999999999994", "4503599627370497.5",
        "pi*1e308", "1/1.5e-200/1.5e-200", "2.5*1e308", "1e308/0.1", "(0-2.5)*1e308",
        # lazy values that are short products at a large offset (what is left after big factorials cancel)
        # ordinary VALUES whose exact form has enormous numerator and denominator (the argument is a double; its components are not)
        "(10^700+1)/10^700", "2+1/10^640", "9/4 - 1/10^1000", "2 + 1/10^30000",
        "100000!/99998!", "1000001!/999999!", "3000000!/2999999!", "C(3000,2)", "20!/18!", "100001!/100000!/100000"]
QARGS = ["90 deg", "180 deg", "45 deg", "2 rad", "-1 rad", "4 m", "-4 m", "(7/2) m", "-7/2 s", "2.5 kg", "0 m", "9 m^2", "1e3 m", "30 deg", "1 dozen"]
BASES = ["-2", "0", "1/2", "1", "2", "e", "10", "0.9", "3", "1.0", "1/10",
         # next to the excluded base 1 and next to 0: in the domain, whatever tolerance an equality test might use
         "1.0000000001", "0.9999999999", "1.000000000000001", "1 + 1/10^12", "1 + 1/10^20", "1 - 1/10^20", "0.0000000001", "-0.0000000001"]
EXPS = ["0", "1", "2", "3", "-1", "-2", "1/2", "-1/2", "1/3", "2.5", "-0.5", "0.5", "10", "100", "1000", "2/3",
        # fractional exponents next to an integer (a negative base must still be rejected)
        "2.0000000001", "1.0000000001", "-3.0000000001", "2.000000000000001", "1.9999999999", "3 + 1/10^12", "-1.0000000001", "0.0000000001",
        # whole exponents far beyond anything that could be multiplied out: the bases 1, -1 and 0 still have a power
        "134217729", "10^9+1", "10^100", "2^64", "-(10^9+1)", "20!"]


def mp_ref(reqs):
    if not reqs:
        return []
    p = subprocess.run(["python3-vt", os.path.join(core.VERIF, "harness", "mpref.py")], input=json.dumps(reqs),
                       stdout=subprocess.PIPE, stderr=subprocess.PIPE, text=True, timeout=600)
    if p.returncode != 0:
        raise core.Infra("mpref failed: " + p.stderr[-500:])
    return json.loads(p.stdout)


def canon_or_other(v):
    c = num_canon(v) if not isinstance(v, complex) else None
    return c if c is not None else "other:" + type(v).__name__


def frac_of(v):
    if isinstance(v, float):
        return Fraction(v) if math.isfinite(v) else None
    return Fraction(v)


def _close_text(a, b):
    """two displayed arrays of numbers agree (numerals to 1e-9 relative: one side may have computed in floating point)"""
    import re as _re
    pat = r"-?\d+(?:\.\d+)?(?:e[-+]?\d+)?(?:/\d+)?"
    na, nb = _re.findall(pat, a), _re.findall(pat, b)
    if len(na) != len(nb):
        return False
    for x, y in zip(na, nb):
        fx, fy = float(Fraction(x)), float(Fraction(y))
        if abs(fx - fy) > 1e-9 * max(1.0, abs(fx)):
            return False
    return True


def check(ctx):
    R = ctx.real
    T = R.types
    rng = ctx.rng
    args = list(ARGS)
    for _ in range(ctx.n(15, 200)):
        k = rng.random()
        if k < 0.3:
            args.append(repr(rng.uniform(-100, 100)))
        elif k < 0.5:
            args.append("%d/%d" % (rng.randrange(-200, 200), rng.randrange(1, 40)))
        elif k < 0.7:
            args.append(repr(10 ** rng.uniform(-12, 12)))
        elif k < 0.85:
            args.append(str(rng.randrange(-10**6, 10**6)))
        else:
            args.append(repr(-10 ** rng.uniform(-5, 5)))
    opv = {}
    for t in args + QARGS + BASES + EXPS:
        if t not in opv:
            opv[t] = R.value(t)
            k0, x0 = opv[t]
            if k0 == "ok" and (isinstance(x0, complex) or (isinstance(x0, float) and not math.isfinite(x0))):
                ctx.violation("elem-nonfinite:" + t, t, "a finite real number or an error", repr(x0), "execute(%r)" % t)
                opv[t] = ("err", "nonfinite")
    cases, refreq, refmeta = [], [], []

    def bad_number(v):
        if isinstance(v, complex):
            return True
        if isinstance(v, float) and not math.isfinite(v):
            return True
        if isinstance(v, T.Quantity):
            return bad_number(v.mag)
        return False

    def canon_operand(v):
        if isinstance(v, T.Quantity):
            return "Q|%s|%s" % (num_canon(v.mag), ",".join(map(str, v.qv.v.xs)))
        return "N|" + num_canon(v)

    # ---------------- one-argument functions
    for fn in FNS:
        for a in args + QARGS:
            k0, x = opv[a]
            if k0 != "ok" or isinstance(x, bool):
                continue
            text = "%s(%s)" % (fn, a)
            k, v = R.value(text)
            ctx.count(text, bucket=fn + ("/err" if k != "ok" else "/ok"))
            how = "execute(%r)" % text
            if k == "ok" and bad_number(v):
                ctx.violation("elem-nonfinite:" + text, text, "a finite real number or an error", repr(v), how)
                continue
            isq = isinstance(x, T.Quantity)
            mag = x.mag if isq else x
            if isq and k == "ok":
                if not isinstance(v, T.Quantity) or v.qv != x.qv:
                    ctx.violation("elem-qty:" + text, text, "a quantity of the same dimension", repr(v), how)
                    continue
                res = v.mag
            else:
                res = v
            q = frac_of(mag)
            # --- domain: rejected outside, a value inside
            indomain = True
            if fn == "sqrt" and q < 0: indomain = False
            if fn in ("ln", "log2", "log10") and q <= 0: indomain = False
            if not indomain:
                if k == "ok":
                    ctx.violation("elem-domain:" + text, text, "an error (outside the real domain)", repr(v), how)
                elif v.startswith("py:") or v == "diverges":
                    ctx.violation("elem-escape:" + text, text, "a diagnosed error", v, how)
            # --- rounding functions: exact laws on every kind
            if fn in ("floor", "ceil", "round", "int", "abs") and k == "ok":
                if fn == "abs":
                    ok = frac_of(res) == abs(q) and (type(res) is not float or isinstance(mag, float))
                    want = "abs"
                else:
                    want = {"floor": math.floor(q), "ceil": math.ceil(q), "round": round(q), "int": math.trunc(q)}[fn]
                    ok = type(res) is int and res == want
                if not ok:
                    ctx.violation("elem-round:" + text, text, str(want), repr(res), how)
            elif fn in ("floor", "ceil", "round", "int", "abs"):
                ctx.violation("elem-round-err:" + text, text, "an integer", "err " + str(v), how)
            # --- accuracy against mpmath (a test, not a proof)
            if fn in ("sin", "cos", "tan", "sqrt", "ln", "log2", "log10") and indomain:
                try:
                    xf = float(q)
                except OverflowError:
                    xf = None
                if xf is not None and math.isfinite(xf) and (fn not in ("sin", "cos", "tan") or abs(xf) <= 1e15):
                    if k != "ok":
                        if fn in ("sin", "cos", "tan", "sqrt") or xf > 0:
                            if not (fn in ("ln", "log2", "log10") and xf == 0):
                                ctx.violation("elem-rejected:" + text, text, "a value (argument inside the domain)", "err " + str(v), how)
                    else:
                        if fn in ("ln", "log2", "log10") and xf == 0:
                            pass
                        else:
                            # the argument the function sees: ints beyond 2^53 are not doubles; log handles big ints exactly
                            arg = q if (fn in ("ln", "log2", "log10") and isinstance(mag, int)) else Fraction(xf)
                            refreq.append([fn, [str(arg)]])
                            refmeta.append((text, res))
            if k == "ok" and len(ctx.cov["samples"]) < 10 and rng.random() < 0.02:
                ctx.sample(dict(text=text, result=repr(v)))
            real = ("ok " + canon_or_other(res) + ("|" + ",".join(map(str, x.qv.v.xs)) if isq else "")) if k == "ok" else "err " + v
            cases.append(("elem %s %s" % (fn, canon_operand(x)), real, text))
    # ---------------- log(x, base)
    for a in args[:40] + ["5!", "10^400"]:
        for b in BASES:
            (k1, x), (k2, y) = opv.get(a, R.value(a)), opv[b]
            if k1 != "ok" or k2 != "ok" or isinstance(x, T.Quantity):
                continue
            text = "log(%s, %s)" % (a, b)
            k, v = R.value(text)
            ctx.count(text, bucket="log/" + ("ok" if k == "ok" else "err"))
            how = "execute(%r)" % text
            qx, qb = frac_of(x), frac_of(y)
            valid = qx > 0 and qb > 0 and qb != 1
            if k == "ok" and bad_number(v):
                ctx.violation("elem-nonfinite:" + text, text, "finite or error", repr(v), how)
            elif not valid and k == "ok":
                ctx.violation("elem-domain:" + text, text, "an error (log domain / invalid base)", repr(v), how)
            elif not valid and (v.startswith("py:") or v == "diverges"):
                ctx.violation("elem-escape:" + text, text, "a diagnosed error", v, how)
            elif valid and k != "ok":
                try:
                    rep = 0 < float(qx) < float("inf") and 0 < float(qb) < float("inf") and float(qb) != 1.0
                except OverflowError:
                    rep = isinstance(x, int) and isinstance(y, int)
                if rep:
                    ctx.violation("elem-rejected:" + text, text, "a value", "err " + v, how)
            elif valid:
                try:
                    ax = qx if isinstance(x, int) else Fraction(float(qx))
                    ab = qb if isinstance(y, int) else Fraction(float(qb))
                    refreq.append(["log", [str(ax), str(ab)]])
                    refmeta.append((text, v))
                except (OverflowError, ValueError):
                    pass            # argument or base not representable as a double: outside the accuracy clause
            real = "ok " + canon_or_other(v) if k == "ok" else "err " + v
            cases.append(("elem log %s %s" % (num_canon(x), num_canon(y)), real, text))
    # ---------------- x ^ y
    for a in args[:36]:
        for e in EXPS:
            (k1, x), (k2, y) = opv[a], opv[e]
            if k1 != "ok" or k2 != "ok" or isinstance(x, T.Quantity):
                continue
            text = "(%s) ^ (%s)" % (a, e)
            try:
                digits = abs(float(frac_of(y))) * (abs(math.log10(abs(frac_of(x).numerator) or 1)) + abs(math.log10(frac_of(x).denominator)))
            except (OverflowError, ValueError):
                digits = 1e9
            if digits > 3000 and not isinstance(x, float):
                continue   # huge exact powers are C01's subject; the line protocol is not built for 100k-digit numbers
            k, v = R.value(text)
            ctx.count(text, bucket="pow/" + ("ok" if k == "ok" else "err"))
            how = "execute(%r)" % text
            qx, qy = frac_of(x), frac_of(y)
            integral = qy.denominator == 1
            if k == "ok" and bad_number(v):
                ctx.violation("elem-nonfinite:" + text, text, "finite or error", repr(v), how)
            elif (qx < 0 and not integral) or (qx == 0 and qy < 0):
                if k == "ok":
                    ctx.violation("elem-domain:" + text, text, "an error", repr(v), how)
                elif v.startswith("py:"):
                    ctx.violation("elem-escape:" + text, text, "a diagnosed error", v, how)
            elif k == "ok":
                try:
                    fx, fy = float(qx), float(qy)
                    est = abs(fy) * (math.log10(abs(fx)) if fx != 0 else 0)
                except (OverflowError, ValueError):
                    est = 1e9
                if abs(est) < 300 and qx != 0:
                    bx = qx if not isinstance(x, float) and integral else Fraction(float(qx))
                    by = qy if integral else Fraction(float(qy))
                    refreq.append(["pow", [str(bx), str(by)]])
                    refmeta.append((text, v))
            elif v.startswith("py:"):
                ctx.violation("elem-escape:" + text, text, "a value or a diagnosed error", v, how)
            else:
                # a diagnosed error although base and exponent are inside the real domain of ^ (base > 0; base 0 with a positive
                # exponent; negative base with an integral exponent) and the result is representable as a double
                try:
                    fx, fy = float(qx), float(qy)
                    est = abs(fy) * (abs(math.log10(abs(fx))) if fx != 0 else 0)
                except (OverflowError, ValueError):
                    est = 1e9
                if est < 290 and not (qx == 0 and qy == 0):
                    ctx.violation("elem-rejected:" + text, text, "the value of %s ^ %s (inside the real domain)" % (qx, qy), "err " + v, how)
            real = "ok " + canon_or_other(v) if k == "ok" else "err " + v
            if abs(qy) > 2 ** 27 and qy.denominator == 1:
                continue            # oracle only: the model's integer power takes its exponent as a machine word
            cases.append(("elem pow %s %s" % (num_canon(x), num_canon(y)), real, text))

    def agree(real, model, info):
        if real == model:
            return True
        ra, ma = real.split("|")[0], model.split("|")[0]
        if ra.startswith("ok f:") and ma.startswith("ok f:"):
            return nums_agree(ra[3:], ma[3:], 1e-12) and real.split("|")[1:] == model.split("|")[1:]
        return False
    ctx.correspond("elem", cases, agree=agree)
    # ---------------- no evaluation yields NaN or an infinity: values that only ARISE from arithmetic outside the function
    # library — a float unit factor times a magnitude near the top of the double range — and what is computed from them
    import json as _json

    def any_bad(v):
        if isinstance(v, T.Array):
            return any(any_bad(x) for x in v.contents)
        if isinstance(v, T.Interval):
            return any_bad(v.a) or any_bad(v.b)
        return bad_number(v)
    try:
        U = _json.load(open(os.path.join(core.LEAN, "KaVerif", "Gen", "units.json")))["units"]
        big_units = sorted({u["symbol"] for u in U if not u["cash"] and u["multiple"][2] == "float" and u["multiple"][0] / u["multiple"][1] > 50
                            and u["symbol"].isascii() and u["symbol"].isalpha() and u["offset"][0] == 0})
    except Exception:  # noqa
        big_units = []
    big_units = [u for u in big_units if u not in ("in", "to", "e")] or ["ly", "pc", "cal", "acre", "hp"]
    qtexts = ["1e300 ly", "-1e300 ly", "2e292 pc", "1e308 cal", "1.7e308 acre", "{1e300 ly}", "x = 1e300 ly; x - x", "x = 1e300 ly; x*0",
              "x = 1e300 ly; x/x", "sin(1e300 ly)", "abs(-1e300 ly)", "1e308 hp + 1e308 hp", "[1e300 ly, 2e300 ly]", "1e300 ly to m",
              "1e300 ly < 2e300 ly", "sqrt(1e300 ly * 1e300 ly)", "1e200 ly * 1e200 ly",
              # the FACTORS of a unit signature overflow on their own, whatever the magnitude (0 * inf would be nan)
              "0 ly^19 ly^19", "0 ly^10 au^30 pc^5", "0.0 ly^19 ly^19", "0 ly^19 ly^19 to m^38", "5 m^38 to ly^19 ly^19", "0 ly^19 ly^19 + 1 m^38",
              "{0 ly^19 ly^19}", "x = 0 ly^19 ly^19; x - x", "0 pc^12 pc^12", "0 ly^-19 ly^-19", "1 ly^-19 ly^-19", "0 ly^19 | ly^-19"]
    for _ in range(ctx.n(60, 1500)):
        m = "%se%d" % (rng.choice(["1", "-1", "1.7", "9.9", "-2.5"]), rng.randrange(285, 309))
        u = rng.choice(big_units)
        qtexts.append(rng.choice(["%s %s", "{%s %s}", "x = %s %s; x - x", "abs(%s %s)", "y = %s %s; y*0", "%s %s^2", "[0 m, %s %s]"]) % (m, u))
    for text in qtexts:
        r = R.execute(text)
        ctx.count("nonfinite:" + text, bucket="nonfinite/" + ("ok" if r["status"] == 0 else "err"))
        how = "execute(%r)" % text
        if r["escaped"]:
            ctx.violation("elem-escape:" + text, text, "a value or a diagnosed error", r["escaped"], how)
        elif r["status"] == 0 and (any_bad(r["value"]) or re.search(r"\b(inf|nan)\b", r["out"])):
            ctx.violation("elem-nonfinite:" + text, text, "finite or error", r["out"].strip()[:80], how)
    # ---------------- numbers that reach a function WITHOUT having been simplified: the elements of sample(Uniform(n, n), k) are raw floats
    # (float(n)); bound by a comprehension they must behave as the number n does (a whole-valued float is in the domain of `^` with a
    # negative base, of log as a base, …)
    for fn in FNS:
        for n_ in ("4", "0-3", "0", "1", "2"):
            a_ = R.execute("{%s(x) : x in sample(Uniform(%s, %s), 1)}" % (fn, n_, n_))
            b_ = R.execute("{%s(%s)}" % (fn, n_))
            ctx.count("rawfloat:%s(%s)" % (fn, n_), bucket="raw-float-from-sample")
            if (a_["status"], a_["escaped"]) != (b_["status"], b_["escaped"]) or (a_["status"] == 0 and not _close_text(a_["out"], b_["out"])):
                ctx.violation("elem-rawfloat:%s(%s)" % (fn, n_), "{%s(x) : x in sample(Uniform(%s, %s), 1)}" % (fn, n_, n_), b_["out"].strip() or "status 1",
                              a_["out"].strip() or "status %s %s %s" % (a_["status"], a_["escaped"] or "", a_["err"].strip()[:80]), "execute of both texts")
    for b0 in ("0-8", "(0-1/2)", "2", "0", "1.5", "0-1"):
        for e0 in ("3", "2", "0", "0-1", "1", "0-2"):
            t1 = "{(%s)^x : x in sample(Uniform(%s, %s), 1)}" % (b0, e0, e0)
            a_ = R.execute(t1)
            b_ = R.execute("{(%s)^(%s)}" % (b0, e0))
            ctx.count("rawfloat-pow:%s^%s" % (b0, e0), bucket="raw-float-from-sample")
            if (a_["status"], a_["escaped"]) != (b_["status"], b_["escaped"]) or (a_["status"] == 0 and not _close_text(a_["out"], b_["out"])):
                ctx.violation("elem-rawfloat-pow:%s^%s" % (b0, e0), t1, b_["out"].strip() or "status 1 " + b_["err"].strip()[:60],
                              a_["out"].strip() or "status %s %s %s" % (a_["status"], a_["escaped"] or "", a_["err"].strip()[:80]), "execute of both texts")
    # ---------------- accuracy clause (test)
    refs = mp_ref(refreq)
    tested = 0
    for (text, res), ref in zip(refmeta, refs):
        if ref[0] != "ok":
            continue
        want = Fraction(ref[1])
        got = frac_of(res)
        if got is None:
            continue
        try:
            float(want)
        except OverflowError:
            continue
        if want != 0 and abs(want) < Fraction(1, 10**300):
            continue
        tested += 1
        err = abs(got - want)
        if err > Fraction(1, 10**12) * max(abs(want), 1) and err > Fraction(1, 10**12):
            ctx.violation("elem-accuracy:" + text, text, "%.17g (mpmath)" % float(want), "%.17g" % float(got), "execute(%r)" % text)
        elif err > Fraction(1, 10**12) * abs(want) and abs(want) >= Fraction(1, 10**6):
            ctx.violation("elem-accuracy:" + text, text, "%.17g (mpmath)" % float(want), "%.17g" % float(got), "execute(%r)" % text)
    ctx.cov["accuracy_tests_vs_mpmath"] = tested


# ---- refinement lemmas of the unified pipeline model for this property (Props/Pipeline2.lean): the fragment this check's
# theorems are about IS what the whole-program model computes on the fragment's sub-language
import pipeline as _pl
LEAN_MODULES = LEAN_MODULES + [m for m in _pl.LEAN_MODULES2 if m not in LEAN_MODULES]
THEOREMS = THEOREMS + [t for t in _pl.THEOREMS2.get(ID, []) if t not in THEOREMS]
GEN = GEN + [g for g in _pl.GEN if g not in GEN]

# ---- `ka_sqrt`, `ka_log` / `ka_ln` / `ka_log10` / `ka_log2`, `strict_pow` and the Quantity versions of the one-argument numeric functions TRANSLATED from the source
# (Gen/Bodies.lean) are proved equal to the hand-written model bodies (Props/Bodies.lean)
LEAN_MODULES = LEAN_MODULES + [m for m in _pl.BODIES_MODULES if m not in LEAN_MODULES]
THEOREMS = THEOREMS + [t for t in _pl.bodies_theorems(("BODIES_sqrt_", "BODIES_pow_Number", "BODIES_numsem_real", "BODIES_log_Number", "BODIES_ln_Number",
                                                      "BODIES_ln_Quantity", "BODIES_log10_Number", "BODIES_log10_Quantity", "BODIES_log2_Number",
                                                      "BODIES_log2_Quantity")) if t not in THEOREMS]
GEN = GEN + [g for g in _pl.BODIES_GEN if g not in GEN]

# ---- floats are this property's subject: `Model/Num.lean`'s rational -> double rounding (`posRatToBits`, the body of `ratToFloat`)
# and double -> rational decoding (`floatToRat`) are PROVED against a specification of IEEE-754 binary64 round-to-nearest,
# ties-to-even, over Rat / Nat at the level of bit patterns (Props/Rounding.lean; the specification `bitsToRat` / `isFiniteBits`
# is at the top of Lemmas/RoundingLemmas.lean)
LEAN_MODULES = LEAN_MODULES + ["KaVerif.Props.Rounding"]
THEOREMS = THEOREMS + ["KaVerif.ROUND_decode", "KaVerif.ROUND_decode_units", "KaVerif.ROUND_monotone_bits", "KaVerif.ROUND_order_iff",
                       "KaVerif.ROUND_nearest", "KaVerif.ROUND_ties_even", "KaVerif.ROUND_overflow", "KaVerif.ROUND_zero",
                       "KaVerif.ROUND_underflow", "KaVerif.ROUND_exact", "KaVerif.ROUND_exact_lowest_terms"]
LEVEL_TEXT = LEVEL_TEXT + (" The model's rational -> double conversion (`float(int)`, `float(Fraction)`; `Num.posRatToBits`) is machine-checked against "
                           "IEEE-754 binary64 round-to-nearest, ties-to-even at the level of bit patterns: nearest finite double, even mantissa on a tie, "
                           "overflow exactly from 2^1024 - 2^970, +0 exactly up to 2^-1075, a double's exact value rounds to itself; the order of finite "
                           "patterns is the order of their values (theorems ROUND_*).")
