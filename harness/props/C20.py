"""C20 — currency conversion is table-consistent and independent of the configured base currency."""
import os, sys, json, math, shutil, tempfile, subprocess, itertools, unicodedata
from fractions import Fraction
from concurrent.futures import ThreadPoolExecutor
import core

ID = "C20"
LEAN_MODULES = ["KaVerif.Props.C20"]
GEN = ["Caught", "ConfigProps", "CurrencyData"]
THEOREMS = ["KaVerif.C20_formula", "KaVerif.C20_roundtrip", "KaVerif.C20_triangle", "KaVerif.C20_base_independent",
            "KaVerif.C20_table_consistent", "KaVerif.C20_export_import", "KaVerif.C20_loaded_table_used"]
RULE = ("in-process, default base: ordered pairs (A,B) and triples (A,B,C) of the currency codes of the loaded table that resolve to a "
        "currency unit (2000 pairs + 1000 triples sampled quick; all ordered pairs + 20000 triples thorough) x amounts "
        "{ints, negative, huge, decimals, scientific, fractions}; `x A to B`, `(x A to B) B to A`, `((x A to B) B to C)` through the real "
        "tokenise/parse/eval; currency names and the signs $ EUR GBP JPY as well as codes; "
        "subprocesses: the same expression list under base-currency in {unset, usd, gbp, jpy, btc, a code not in the table} "
        "(fresh process per base, config file in a prepared HOME), and under a table file produced by the REAL writer "
        "(`--scrape-currency-to` with only the network fetch stubbed) placed at the default path and via currency-path, also with "
        "one of its own codes as base; non-trivial = A != B; distinct = distinct expression text")
ASSUMPTIONS = ["float rounding is not modelled: results are compared at 1e-9 relative against exact rational arithmetic on the table's floats",
               "str(float)/float(str) round-trips (CPython repr) — hypothesis RowOk of C20_export_import; exercised by the writer/reader runs",
               "the network fetch scrape_exchange_rates() is replaced by a stub returning the generated table; writer and reader are the real code",
               "C20_export_import needs symbols/names without ',' '\\n' '\\r' (the writer does not escape them); the scraper strips spaces but "
               "a scraped name containing a comma would make the file unreadable — out of the theorem's hypothesis, reported in the notes"]
LEVEL_TEXT = ("Machine-checked proof (Lean 4, field algebra over Q): with the multiples the registration loop computes "
              "(base.dollar_rate / c.dollar_rate) and the make_quantity / convert_quantity arithmetic, x A to B = x*rate(B)/rate(A), "
              "the round trip returns x, A->B->C = A->C, and the result is the same under any base currency with a non-zero rate; "
              "lifted to the registered units (the registration loop with its clash rules, any table: every registered currency unit "
              "denotes a row of the loaded table with a positive rate); the export writer's text is parsed back to the same table "
              "(induction over rows; repr/float round trip assumed) and start-up with that file runs with exactly that table. "
              "The registration loop, the base selection and the writer are compared with the source as normalised text on every run "
              "(translator fails on any change); the model is tied to the code by correspondence of convert/export/parse/registration and "
              "by fresh-process runs under six base settings and under a writer-produced table.")
LEVEL_NOTE = ("Rates are exact rationals in the model (IEEE rounding is not modelled; 1e-9 tolerance in the check). inf/nan rates are "
              "excluded by hypothesis (finite positive rates).")
TECHNIQUE = "Lean 4 + Mathlib field_simp/ring over Q; induction over table rows; correspondence; fresh-process runs per base setting"

AMOUNTS = [("1", Fraction(1)), ("7", Fraction(7)), ("100", Fraction(100)), ("-3", Fraction(-3)), ("0", Fraction(0)),
           ("2.5", Fraction(5, 2)), ("0.001", Fraction(1, 1000)), ("1e6", Fraction(10**6)), ("1e-7", Fraction(1, 10**7)),
           ("(1/3)", Fraction(1, 3)), ("(22/7)", Fraction(22, 7)), ("(-5/2)", Fraction(-5, 2)), ("123456789", Fraction(123456789)),
           ("(10^20)", Fraction(10**20)), ("12345.6789", Fraction(123456789, 10000))]


def close(a, b, tol=1e-9):
    if a is None or b is None:
        return False
    try:
        a, b = float(a), float(b)
    except (TypeError, ValueError, OverflowError):
        return False
    if a != a or b != b:
        return False
    return abs(a - b) <= tol * max(abs(a), abs(b)) or (a == b)


def sub_env(home):
    return dict(os.environ, HOME=home, PYTHONPATH=os.path.join(core.REPO, "src"), MPLBACKEND="Agg", PYTHONUTF8="1")


BATCH = r'''
import sys, json, io
import ka.interpret as I, ka.units as U
from fractions import Fraction
exprs = json.load(open(sys.argv[1]))
res = []
for e in exprs:
    o, er = io.StringIO(), io.StringIO()
    box = I.ResultBox()
    try:
        st = I.execute(e, out=o, errout=er, result_box=box)
        v = box.value
        res.append([st, float(v) if isinstance(v, (int, float, Fraction)) and not isinstance(v, bool) else None, er.getvalue()[:200]])
    except BaseException as ex:
        res.append([None, None, "ESCAPED " + type(ex).__name__])
print("BATCH " + json.dumps(dict(base=U.BASE_CURRENCY, table=[[c.symbol, c.name, c.dollar_rate] for c in U.CURRENCY_DATA],
      cash=[[u.symbol, u.singular_name, float(u.multiple)] for u in U.UNITS if "cash" in u.quantities], results=res)))
'''

WRITER = r'''
import sys, json
import ka.currency as C
rows = json.load(open(sys.argv[1]))
C.scrape_exchange_rates = lambda: [C.CurrencyData(s, n, r) for s, n, r in rows]     # the network fetch only
target = sys.argv[2]
sys.argv = ["ka", "--scrape-currency-to", target]
import ka.cli
ka.cli.main()
'''


def run_batch(home, exprs, tmp, tag):
    ef = os.path.join(tmp, "exprs-%s.json" % tag)
    json.dump(exprs, open(ef, "w"))
    p = subprocess.run([sys.executable, "-c", BATCH, ef], stdout=subprocess.PIPE, stderr=subprocess.PIPE, env=sub_env(home), timeout=600, cwd=home)
    out = p.stdout.decode("utf-8", "replace")
    line = next((l for l in out.split("\n") if l.startswith("BATCH ")), None)
    if p.returncode != 0 or line is None:
        return dict(crash="rc=%s %s" % (p.returncode, p.stderr.decode("utf-8", "replace")[-600:]))
    return json.loads(line[6:])


def mkhome(root, name, config=None, currency=None):
    home = os.path.join(root, name)
    os.makedirs(os.path.join(home, ".config", "ka"))
    if config is not None:
        open(os.path.join(home, ".config", "ka", "config"), "w", encoding="utf-8").write(config)
    if currency is not None:
        open(os.path.join(home, ".config", "ka", "currency"), "wb").write(currency)
    return home


def dots(s):
    return ".".join(str(ord(c)) for c in s)


def rate_table(rows):
    """code -> rate for the rows a code can denote: first row per symbol, positive finite rate"""
    d = {}
    for s, n, r in rows:
        if s not in d:
            d[s] = r
    return d


def check(ctx):
    tmp = tempfile.mkdtemp(prefix="kaverif-c20-")
    try:
        _check(ctx, tmp)
    finally:
        shutil.rmtree(tmp, ignore_errors=True)


def _check(ctx, tmp):
    rng = ctx.rng
    R = ctx.real
    U = R.units
    import ka.currency as CU
    table = [(c.symbol, c.name, c.dollar_rate) for c in U.CURRENCY_DATA]
    default_rows = [(c.symbol, c.name, c.dollar_rate) for c in CU.parse_currency_data(CU.DEFAULT_CURRENCY_DATA)]
    if table != default_rows:
        ctx.violation("default-table-not-loaded", "empty HOME", "CURRENCY_DATA == parse(DEFAULT_CURRENCY_DATA)", "differs", "import ka.units with an empty HOME")
    base = U.BASE_CURRENCY
    if base != "eur":
        ctx.violation("default-base", "empty HOME", "eur", repr(base), "ka.units.BASE_CURRENCY with an empty HOME")
    rates = rate_table(table)

    # which codes / names denote which row (oracle side: by the table itself, not by the model)
    codes, names = [], {}
    for i, (s, n, r) in enumerate(table):
        if not (r > 0) or math.isinf(r):
            continue
        u = U.lookup_unit(s)
        if u is not None and "cash" in u.quantities and u.symbol == s and rates.get(s) == r and s not in codes:
            codes.append(s)
            if u.singular_name not in names and U.lookup_unit(u.singular_name) is u and R.tokens.VAR_REGEX.fullmatch(u.singular_name) \
                    and u.singular_name not in R.tokens.ALPHA_TOKENS:
                names[u.singular_name] = s
    signs = {k: v for k, v in U.SPECIAL_CURRENCY_SYMBOLS.items() if k in codes}
    ctx.cov["table_rows"] = len(table)
    ctx.cov["codes_resolving_to_their_row"] = len(codes)
    if len(codes) < 0.9 * len(table):
        ctx.violation("codes-unreachable", "default table", ">= 90%% of the %d codes denote a currency unit" % len(table), str(len(codes)), "lookup_unit(code)")

    def spelled(code):
        r = rng.random()
        alts = [n for n, c in names.items() if c == code]
        if r < 0.08 and alts:
            return rng.choice(alts)
        if r < 0.12 and code in signs:
            return signs[code]
        return code

    def expect(x, a, b):
        return x * Fraction(rates[b]) / Fraction(rates[a])

    cases = []
    rb = Fraction(rates[base])

    def one_pair(a, b, amt):
        txt, x = amt
        A, B = spelled(a), spelled(b)
        e = "%s %s to %s" % (txt, A, B)
        st, v = R.value(e)
        want = expect(x, a, b)
        ctx.count(e, nontrivial=(a != b), bucket="pair")
        ok = st == "ok" and isinstance(v, (int, float, Fraction)) and close(v, want)
        if not ok:
            ctx.violation("conversion-formula", e, "x*rate(%s)/rate(%s) = %r" % (b, a, float(want)), repr(v), "ka '%s' (default table, base %s)" % (e, base))
        if st == "ok" and isinstance(v, (int, float, Fraction)):
            cases.append(("curconv %s %s %s %s" % (fr(rb), fr(Fraction(rates[a])), fr(Fraction(rates[b])), fr(x)), float(v), e))
        # round trip
        e2 = "(%s %s to %s) %s to %s" % (txt, A, B, B, A)
        st2, v2 = R.value(e2)
        ctx.count(e2, nontrivial=(a != b), bucket="roundtrip")
        if not (st2 == "ok" and isinstance(v2, (int, float, Fraction)) and close(v2, x)):
            ctx.violation("conversion-roundtrip", e2, repr(float(x)), repr(v2), "ka '%s'" % e2)
        if len(ctx.cov["samples"]) < 10:
            ctx.sample(dict(expr=e, value=float(v) if st == "ok" and isinstance(v, (int, float, Fraction)) else str(v), expected=float(want)))

    if ctx.quick():
        pairs = [tuple(rng.sample(codes, 2)) for _ in range(2000)] + [(c, c) for c in rng.sample(codes, 10)]
    else:
        pairs = [(a, b) for a in codes for b in codes]
    # make sure every code appears on both sides at least once
    for c in codes:
        pairs.append((c, rng.choice(codes)))
        pairs.append((rng.choice(codes), c))
    for a, b in pairs:
        one_pair(a, b, rng.choice(AMOUNTS))
    for _ in range(ctx.n(1000, 20000)):
        a, b, c = rng.sample(codes, 3)
        txt, x = rng.choice(AMOUNTS)
        A, B, C = spelled(a), spelled(b), spelled(c)
        e3 = "((%s %s to %s) %s to %s)" % (txt, A, B, B, C)
        e1 = "%s %s to %s" % (txt, A, C)
        (s3, v3), (s1, v1) = R.value(e3), R.value(e1)
        ctx.count(e3, bucket="triangle")
        okn = s3 == "ok" and s1 == "ok" and isinstance(v3, (int, float, Fraction)) and isinstance(v1, (int, float, Fraction))
        if not (okn and close(v3, v1) and close(v1, expect(x, a, c))):
            ctx.violation("conversion-triangle", e3, "%s = %r" % (e1, float(expect(x, a, c))), "%r vs %r" % (v3, v1), "ka '%s' and ka '%s'" % (e3, e1))

    def agree_conv(real, model, info):
        n, d = model.split("/")
        return close(real, Fraction(int(n), int(d)))
    ctx.correspond("curconv", cases, agree=agree_conv)

    # ---- the registration of the default table vs the model (which unit denotes which row, with which multiple)
    names0 = [k for k, u in U.NAME_TO_UNIT.items() if "cash" not in u.quantities]
    syms0 = [k for k, u in U.SYMBOL_TO_UNIT.items() if "cash" not in u.quantities]
    real_cash = [(u.symbol, u.singular_name, float(u.multiple)) for u in U.UNITS if "cash" in u.quantities]
    req = "curreg %s|%s|%s" % (",".join("s" + dots(x) for x in names0), ",".join("s" + dots(x) for x in syms0),
                               ",".join("s%s/s%s/s%s/%d" % (dots(a), dots(b), dots(unicodedata.normalize("NFKD", b)), 1 if c > 0 else 0) for a, b, c in table))

    def agree_reg(real, model, info):
        if not model.startswith("ok"):
            return False
        items = [x for x in model[3:].split(",") if x]
        if len(items) != len(real):
            return False
        for (sym, name, mul), it in zip(real, items):
            a, b, idx = it.split("/")
            want = Fraction(rates[base]) / Fraction(table[int(idx)][2])
            if a != "s" + dots(sym) or b != "s" + dots(name) or not close(mul, want, 1e-12):
                return False
        return True
    ctx.correspond("curreg-default", [(req, real_cash, "default table")], agree=agree_reg)
    ctx.count("registration:default", bucket="registration")

    # ---- fresh processes: base settings
    root = os.path.join(tmp, "homes")
    os.makedirs(root)
    majors = [c for c in ["usd", "eur", "gbp", "jpy", "btc", "chf", "inr", "xau", "vef", "ves", "kwd", "idr"] if c in codes]
    exprs, meta = [], []
    for a, b in itertools.permutations(majors, 2):
        if len(exprs) >= ctx.n(70, 132):
            break
        txt, x = rng.choice(AMOUNTS[:12])
        exprs.append("%s %s to %s" % (txt, a, b))
        meta.append((x, a, b))
    for code in [c for c in signs if c in majors][:4]:
        exprs.append("3 %s to %s" % (signs[code], "btc"))
        meta.append((Fraction(3), code, "btc"))
    exprs.append("(7 usd to gbp) gbp to usd")
    meta.append((Fraction(7), "usd", "usd"))
    settings = [("unset", None, "eur"), ("usd", "base-currency=usd\n", "usd"), ("gbp", "base-currency = gbp\n", "gbp"),
                ("jpy", "base-currency=jpy\n", "jpy"), ("btc", "base-currency=btc\n", "btc"), ("absent", "base-currency=zzz\n", "eur")]
    # a base whose NAME is shared by another row of the table (vef/ves, sll/sle, zwd/zwg in the built-in table):
    # table names are not unique, only codes are
    for twin in ("ves", "sle", "zwg"):
        if twin in codes:
            settings.append((twin, "base-currency=%s\n" % twin, twin))
            if twin not in majors:
                majors.append(twin)
    homes = [(nm, mkhome(root, "base-" + nm, config=cfg), want) for nm, cfg, want in settings]
    with ThreadPoolExecutor(max_workers=6) as ex:
        outs = list(ex.map(lambda h: run_batch(h[1], exprs, tmp, h[0]), homes))
    ref = None
    for (nm, home, want), out in zip(homes, outs):
        how = "HOME with config %r; execute() of each expression in a fresh process" % (dict((a, b) for a, b, _ in settings)[nm],)
        if "crash" in out:
            ctx.violation("base-setting-crash", nm, "starts", out["crash"], how)
            continue
        if out["base"] != want:
            ctx.violation("base-selection", nm, want, repr(out["base"]), how)
        for e, (x, a, b), (st, v, err) in zip(exprs, meta, out["results"]):
            ctx.count("base=%s:%s" % (nm, e), bucket="base=" + nm)
            want_v = expect(x, a, b)
            if st != 0 or not close(v, want_v):
                ctx.violation("conversion-under-base", "base-currency=%s: %s" % (nm, e), repr(float(want_v)), "status=%r value=%r %s" % (st, v, err), how)
        vals = [r[1] for r in out["results"]]
        if ref is None:
            ref = (nm, vals)
        else:
            for e, v0, v1 in zip(exprs, ref[1], vals):
                if not close(v0, v1):
                    ctx.violation("base-dependence", "%s under base %s vs %s" % (e, ref[0], nm), repr(v0), repr(v1), how)

    # ---- ONE conversion per fresh process: what a code means must not depend on which units the process looked up before.
    # Codes that also spell a prefixed physical unit (php = pico-horsepower, kyd = kilo-yard, ...) first, then a sample.
    phys = [u for u in U.UNITS if "cash" not in u.quantities]
    readings = set()
    for p_ in U.PREFIXES:
        for u in phys:
            readings.add(p_.symbol_prefix + u.symbol)
            readings.add(p_.name_prefix + u.singular_name)
            readings.add(p_.name_prefix + u.plural_name)
    amb = sorted(c for c in codes if c in readings)
    singles = [(c, "usd") for c in amb] + [("usd", c) for c in amb[:3]]
    pool_codes = sorted(codes)
    while len(singles) < len(amb) * 2 + ctx.n(10, 60):
        a, b = rng.sample(pool_codes, 2)
        singles.append((a, b))
    one_home = mkhome(root, "single")
    sexprs = ["%s %s to %s" % (AMOUNTS[3][0], a, b) for a, b in singles]
    with ThreadPoolExecutor(max_workers=8) as ex:
        souts = list(ex.map(lambda ie: run_batch(one_home, [ie[1]], tmp, "single%d" % ie[0]), enumerate(sexprs)))
    for (a, b), e, out in zip(singles, sexprs, souts):
        ctx.count("single:" + e, bucket="one-conversion-per-process" + ("/also-a-prefixed-unit" if a in amb or b in amb else ""))
        how = "a fresh process (default files) whose only input is %r" % e
        if "crash" in out:
            ctx.violation("single-crash", e, "starts", out["crash"], how)
            continue
        st, v, err = out["results"][0]
        want_v = expect(AMOUNTS[3][1], a, b)
        if st != 0 or not close(v, want_v):
            ctx.violation("conversion-first-in-process", e, repr(float(want_v)), "status=%r value=%r %s" % (st, v, err), how)
    ctx.cov["codes_that_also_spell_a_prefixed_unit"] = amb
    # `to` is a keyword whenever no LETTER follows: a currency sign directly after it is the target (`5 usd to€` is `5 usd to €`)
    for sign in ["$", "€", "£", "¥"]:
        if U.lookup_unit(sign) is None:
            continue
        for amount in ("5 usd", "3€", "(7/2) gbp", "12.5 $"):
            glued, spaced = "%s to%s" % (amount, sign), "%s to %s" % (amount, sign)
            rg, rs = R.execute(glued), R.execute(spaced)
            ctx.count("glued:" + glued, bucket="to + currency sign without a blank")
            if rs["status"] == 0 and (rg["status"], rg["out"], rg["escaped"]) != (rs["status"], rs["out"], rs["escaped"]):
                ctx.violation("conversion-glued:" + glued, glued, "as %r: %s" % (spaced, rs["out"].strip()), rg["out"].strip() or "status %s %s %s" % (rg["status"], rg["escaped"] or "", rg["err"].strip()[:80]),
                              "execute(%r)" % glued)

    # ---- the real writer -> the real reader -> conversions use ITS rates
    def rand_word(n):
        return "".join(rng.choice("abcdefghijklmnopqrstuvwxyz") for _ in range(n))
    wt = [("usd", "usdollar", 1.0), ("eur", "euro", round(10 ** rng.uniform(-0.5, 0.5), 6) + 0.123456789)]
    used_s, used_n = {"usd", "eur"}, {"usdollar", "euro", "dollar"}
    odd_seps = ["\x0b", "\x0c", "\x1c", "\x1d", "\x1e", "\x85", "\u2028", "\u2029", "\t", ";", "#", "="]
    rng.shuffle(odd_seps)
    special = [1e-05, 123456.789, 0.1 + 0.2, 1.080078396710183e-05, 5157548.360942523, 3.0, 1 / 3]
    while len(wt) < ctx.n(24, 120):
        s, n = "q" + rand_word(rng.choice([2, 3])), "n" + rand_word(rng.randrange(4, 11))
        if s in used_s or n in used_n or U.lookup_unit(s) is not None or U.lookup_unit(n) is not None or U.lookup_unit(n + "s") is not None:
            continue
        if odd_seps and rng.random() < 0.7:
            # scraped names are written verbatim: characters that some line-splitting rules (str.splitlines) treat as line ends, but
            # that are neither '\n' nor '\r', are ordinary content of a name — the file still holds one row per '\n'-terminated line
            n = n[:3] + odd_seps.pop() + n[3:]
        used_s.add(s); used_n.add(n)
        r = special.pop() if special and rng.random() < 0.4 else 10 ** rng.uniform(-5, 5)
        wt.append((s, n, r))
    # everyday currency WORDS as the names of minor currencies, listed before the majors that share the word (pkr "rupee" before
    # inr "indianrupee" …): a table is data — every row is a currency under its code, whatever names the rows before it took
    words = [("pkr", "rupee", "inr", "indianrupee"), ("clp", "peso", "mxn", "mexicanpeso"), ("xaf", "franc", "chf", "swissfranc"), ("twd", "yuan", "cny", "renminbi"),
             ("kpw", "won", "krw", "southkoreanwon"), ("byn", "ruble", "rub", "russianruble"), ("itl", "lira", "try", "turkishlira"), ("lak", "baht", "thb", "thaibaht"),
             ("xzl", "zloty", "pln", "polishzloty"), ("xsh", "shekel", "ils", "israelishekel"), ("isk", "krona", "sek", "swedishkrona"), ("kwd", "dinar", "rsd", "serbiandinar")]
    for c1, n1, c2, n2 in words:
        if any(x in used_s for x in (c1, c2)) or \
                any((U.lookup_unit(x) is not None and "cash" not in U.lookup_unit(x).quantities) for x in (c1, c2, n1, n1 + "s", n2, n2 + "s")):
            continue
        used_s.update((c1, c2)); used_n.update((n1, n2))
        wt.append((c1, n1, round(10 ** rng.uniform(-2, 3), 4) + 0.0123))
        wt.append((c2, n2, round(10 ** rng.uniform(-2, 3), 4) + 0.0456))
    rng.shuffle(wt)
    # (the minor row of each pair stays before its major)
    for c1, n1, c2, n2 in words:
        i1 = next((i for i, r_ in enumerate(wt) if r_[0] == c1), None)
        i2 = next((i for i, r_ in enumerate(wt) if r_[0] == c2), None)
        if i1 is not None and i2 is not None and i1 > i2:
            wt[i1], wt[i2] = wt[i2], wt[i1]
    wfile = os.path.join(tmp, "written-table")
    rows_json = os.path.join(tmp, "rows.json")
    json.dump(wt, open(rows_json, "w"))
    wh = mkhome(root, "writer")
    p = subprocess.run([sys.executable, "-c", WRITER, rows_json, wfile], stdout=subprocess.PIPE, stderr=subprocess.PIPE, env=sub_env(wh), timeout=120, cwd=wh)
    if p.returncode != 0 or not os.path.exists(wfile):
        ctx.violation("writer-crash", json.dumps(wt[:5]), "file written", "rc=%s %s" % (p.returncode, p.stderr.decode("utf-8", "replace")[-500:]),
                      "ka --scrape-currency-to <file> with scrape_exchange_rates stubbed")
        return
    data = open(wfile, "rb").read()
    text = data.decode("utf-8")
    ctx.count("writer:file", bucket="writer")
    # read back identically (real reader, in-process)
    back = CU.parse_currency_data(text)
    back_rows = None if back is None else [(c.symbol, c.name, c.dollar_rate) for c in back]
    if back_rows != [tuple(r) for r in wt]:
        ctx.violation("export-not-read-back", text[:300], "parse_currency_data(file) == the exported table (%d rows)" % len(wt),
                      "None" if back is None else "%d rows, first difference %r" % (len(back_rows), next((a for a, b in zip(back_rows, wt) if a != tuple(b)), None)),
                      "ka --scrape-currency-to f; ka.currency.parse_currency_data(open(f).read())")
    # model: export text and parse
    ctx.correspond("curexport", [("curexport " + ",".join("s%s/s%s/s%s" % (dots(s), dots(n), dots(repr(r))) for s, n, r in wt), dots(text), "writer")])

    def agree_parse(real, model, info):
        if not model.startswith("ok "):
            return False
        rows = model[3:].split(";")
        if len(rows) != len(real):
            return False
        for (s, n, x), row in zip(real, rows):
            ms, mn, mr = row.split(",")
            if ms != dots(s) or mn != dots(n) or not mr.startswith("fin:"):
                return False
            a, b = mr[4:].split("/")
            if float(Fraction(int(a), int(b))) != x:
                return False
        return True
    ctx.correspond("curparse-export", [("curparse " + data.hex(), [tuple(r) for r in wt], "writer")], agree=agree_parse)
    # fresh processes with that file
    wrates = rate_table(wt)
    wcodes = [s for s, n, r in wt]
    wexprs, wmeta = [], []
    for _ in range(ctx.n(60, 300)):
        a, b = rng.sample(wcodes, 2)
        txt, x = rng.choice(AMOUNTS[:12])
        wexprs.append("%s %s to %s" % (txt, a, b))
        wmeta.append((x, a, b))
    wexprs.append("7 usd to eur")
    wmeta.append((Fraction(7), "usd", "eur"))
    for c_ in wcodes:                      # every row of the table is reachable under its code, in both directions
        if c_ not in ("usd",):
            wexprs.append("7 usd to %s" % c_); wmeta.append((Fraction(7), "usd", c_))
            wexprs.append("3 %s to eur" % c_); wmeta.append((Fraction(3), c_, "eur"))
    other = next(s for s in wcodes if s not in ("usd", "eur"))
    whomes = [("default-path", mkhome(root, "w-default", currency=data), "eur"),
              ("currency-path", mkhome(root, "w-path", config="currency-path=%s\n" % wfile), "eur"),
              ("own-base", mkhome(root, "w-base", config="base-currency=%s\n" % other, currency=data), other)]
    # the same file reached through a path with capital letters and a space (a path is data: it must be used as written)
    import shutil as _sh
    odd_dir = os.path.join(root, "Rates Dir", "XE-Tables")
    os.makedirs(odd_dir)
    odd_file = os.path.join(odd_dir, "Table-2024.CSV")
    _sh.copy(wfile, odd_file)
    whomes.append(("mixed-case-path", mkhome(root, "w-mixed", config="Currency-Path-Is-Not-A-Key = 1\ncurrency-path = %s\n" % odd_file), "eur"))
    # a RELATIVE currency-path means what a relative path means everywhere else in the program (the export writes
    # `--scrape-currency-to rates.csv` into the working directory): the file in the directory Ka is started from
    for j_, rel in enumerate(("rates.csv", "./rates.csv", "tables/rates.csv")):
        h_ = mkhome(root, "w-rel%d" % j_, config="currency-path=%s\n" % rel)
        os.makedirs(os.path.dirname(os.path.join(h_, rel)) or h_, exist_ok=True)
        _sh.copy(wfile, os.path.join(h_, rel))       # run_batch starts Ka with cwd = this home
        whomes.append(("relative-path-%d" % j_, h_, "eur"))
    # a per-dollar table need not carry the dollar itself: the same rows without the usd row are still THE table
    nousd = [r for r in wt if r[0] != "usd"]
    nousd_text = "".join("%s,%s,%r\n" % tuple(r) for r in nousd)
    nousd_home = mkhome(root, "w-nousd", currency=nousd_text.encode())
    nexprs, nmeta = [], []
    ncodes = [s_ for s_, n_, r_ in nousd]
    for _ in range(ctx.n(20, 100)):
        a, b = rng.sample(ncodes, 2)
        txt, x = rng.choice(AMOUNTS[:12])
        nexprs.append("%s %s to %s" % (txt, a, b)); nmeta.append((x, a, b))
    nout = run_batch(nousd_home, nexprs, tmp, "w-nousd")
    if "crash" in nout:
        ctx.violation("written-table-crash", "no-usd-row", "starts", nout["crash"], "the exported table without its usd row as ~/.config/ka/currency")
    else:
        if [tuple(r) for r in nout["table"]] != [tuple(r) for r in nousd]:
            ctx.violation("written-table-not-used", "no-usd-row: " + nousd_text[:200], "CURRENCY_DATA == the file's %d rows" % len(nousd),
                          "%d rows, first %r" % (len(nout["table"]), nout["table"][:1]), "a per-dollar table without a usd row as ~/.config/ka/currency; fresh process")
        for e, (x, a, b), (st, v, err) in zip(nexprs, nmeta, nout["results"]):
            ctx.count("no-usd:%s" % e, bucket="written-table:no-usd-row")
            want_v = x * Fraction(wrates[b]) / Fraction(wrates[a])
            if st != 0 or not close(v, want_v):
                ctx.violation("written-table-rates", "no-usd-row: %s" % e, "%r (from the file's own rates)" % float(want_v), "status=%r value=%r %s" % (st, v, err),
                              "a per-dollar table without a usd row; fresh process")
    # ... and through directories whose names contain a space followed by '#', '=', ';', ',' and non-ASCII letters
    for j, parts in enumerate([("exchange rates", "2026 #3"), ("a=b", "c;d,e"), ("tàux de chänge", "x #"), ("#first", " lead")]):
        d_ = os.path.join(root, *parts)
        os.makedirs(d_)
        f_ = os.path.join(d_, "currency #%d" % j)
        _sh.copy(wfile, f_)
        whomes.append(("odd-path-%d" % j, mkhome(root, "w-odd%d" % j, config="precision=7\ncurrency-path=%s\n" % f_), "eur"))
    with ThreadPoolExecutor(max_workers=4) as ex:
        wouts = list(ex.map(lambda h: run_batch(h[1], wexprs, tmp, "w-" + h[0]), whomes))
    for (nm, home, want), out in zip(whomes, wouts):
        how = "table written by --scrape-currency-to, used via %s; fresh process" % nm
        if "crash" in out:
            ctx.violation("written-table-crash", nm, "starts", out["crash"], how)
            continue
        got_rows = [tuple(r) for r in out["table"]]
        if got_rows != [tuple(r) for r in wt]:
            ctx.violation("written-table-not-used", nm + ": " + text[:200], "CURRENCY_DATA == the written table (%d rows)" % len(wt),
                          "%d rows, first %r" % (len(got_rows), got_rows[:1]), how)
        if out["base"] != want:
            ctx.violation("base-selection", nm, want, repr(out["base"]), how)
        for e, (x, a, b), (st, v, err) in zip(wexprs, wmeta, out["results"]):
            ctx.count("%s:%s" % (nm, e), bucket="written-table:" + nm)
            want_v = x * Fraction(wrates[b]) / Fraction(wrates[a])
            if st != 0 or not close(v, want_v):
                ctx.violation("written-table-rates", "%s: %s" % (nm, e), "%r (from the file's own rates)" % float(want_v),
                              "status=%r value=%r %s" % (st, v, err), how)

    # ---- a table with unusable rows in the MIDDLE (rate 0, negative, nan): those codes simply do not exist; every other
    # row keeps ITS OWN rate (table-consistency for the rows that are usable)
    dt = []
    head_ = wt[: ctx.n(16, 40)]
    head_ += [row for row in wt if row[0] in ("usd", "eur") and row not in head_]      # without eur there is no default base at all
    for i, (s_, n_, r_) in enumerate(head_):
        dt.append((s_, n_, r_))
        if i in (2, 5, 6, 11):
            dt.append(("z" + rand_word(3), "bad" + rand_word(5), [0.0, -1.5, float("nan"), -0.0][len(dt) % 4]))
    dtext = "".join("%s,%s,%r\n" % row for row in dt)
    good = [(s_, n_, r_) for s_, n_, r_ in dt if r_ > 0]
    drates = rate_table(good)
    dexprs, dmeta = [], []
    gcodes = [s_ for s_, n_, r_ in good]
    for a in gcodes:
        b = rng.choice([c for c in gcodes if c != a])
        dexprs.append("3 %s to %s" % (a, b)); dmeta.append((Fraction(3), a, b))
    dbad = [s_ for s_, n_, r_ in dt if not r_ > 0]
    for bcode in dbad:
        dexprs.append("1 %s to usd" % bcode); dmeta.append(None)
    dhomes = [("damaged-rows", mkhome(root, "w-damaged", currency=dtext.encode()), "eur"),
              ("damaged-rows-own-base", mkhome(root, "w-damaged-b", config="base-currency=%s\n" % gcodes[-1], currency=dtext.encode()), gcodes[-1])]
    with ThreadPoolExecutor(max_workers=2) as ex:
        douts = list(ex.map(lambda h: run_batch(h[1], dexprs, tmp, "d-" + h[0]), dhomes))
    for (nm, home, want), out in zip(dhomes, douts):
        how = "currency file %r...; fresh process" % dtext[:120]
        if "crash" in out:
            ctx.violation("damaged-table-crash", nm, "starts", out["crash"], how)
            continue
        for e, mt, (st, v, err) in zip(dexprs, dmeta, out["results"]):
            ctx.count("%s:%s" % (nm, e), bucket="damaged-table")
            if mt is None:
                if st == 0:
                    ctx.violation("damaged-row-usable", "%s: %s" % (nm, e), "an error (the row has no usable rate)", repr(v), how)
                continue
            x, a, b = mt
            want_v = x * Fraction(drates[b]) / Fraction(drates[a])
            if st != 0 or not close(v, want_v):
                ctx.violation("damaged-table-rates", "%s: %s" % (nm, e), "%r (from the rows' own rates)" % float(want_v),
                              "status=%r value=%r %s" % (st, v, err), how)


def fr(q):
    q = Fraction(q)
    return "%d/%d" % (q.numerator, q.denominator)
