"""C15 — displayed text denotes the value, and the re-entry text round-trips."""
import io, re, math, os, datetime, struct
from fractions import Fraction
from decimal import Decimal
import core
from core import alarm, float_of_bits

ID = "C15"
LEAN_MODULES = ["KaVerif.Props.C15"]
GEN = []
THEOREMS = ["KaVerif.C15_int_full", "KaVerif.C15_frac", "KaVerif.C15_float_round", "KaVerif.C15_float_text",
            "KaVerif.C15_float", "KaVerif.C15_precision_total", "KaVerif.C15_approx_total",
            "KaVerif.C15_reentry_exact_partial", "KaVerif.C15_reentry_qty_partial", "KaVerif.C15_qty", "KaVerif.C15_array", "KaVerif.C15_interval", "KaVerif.C15_interval_reentry_ordered", "KaVerif.C15_full_digits_have_point"]
RULE = ("values of every displayable kind (int, Fraction, float, Quantity with each magnitude kind, Array, Interval, str, "
        "Instant), arrays nested to depth 3; ints up to 5000 digits, fractions with whole part 0 / >=1 / negative / huge, "
        "floats by random bit pattern across 1e-300..1e300 plus subnormals, exact rounding ties (k+0.5, 2.5e-5, 999999.5, "
        "9.9999995 ...), powers of ten and their neighbours; precision N drawn from 0..17, 30 and negatives; values are built "
        "both by evaluating Ka text through the real pipeline and by direct construction; compared: exact text of real "
        "execute()/display_result and stringify_result(v, True/False) vs the Lean model, '{:.Ng}' vs the model's exact %g on "
        "random doubles; oracle: an independent reader of the shown text, and real re-evaluation of the re-entry text in a "
        "fresh environment; non-trivial = not a bare small int; distinct = distinct (value, precision)")
ASSUMPTIONS = [
    "CPython's float.__format__ ('g'), str(int), str(Fraction), datetime.isoformat are modelled, not verified "
    "(the %g model is corresponded on random doubles)",
    "the set of result values is what the evaluator can return: strings are those the lexer can produce, interval bounds are numbers, "
    "dimension exponents are integers",
    "a re-entered dimensionless quantity may come back as the bare number (DESIGN C15 interpretation), and a float may come back "
    "as an int/Fraction of the displayed decimal value",
    "floats whose N-digit rounding lies beyond the largest double (|x| > 1.797e308 rounded up) are outside the re-entry clause",
]
LEVEL_TEXT = ("Machine-checked proof (Lean 4) over an executable model of display_result / stringify_result / prettify_frac / "
              "'{:.Ng}'.format: integers print every digit and read back to themselves; the mixed-fraction text reads back to the "
              "fraction for every rational; the %g model's mantissa is the correctly rounded N-digit integer (error <= 1/2 unit, "
              "10^(N-1) <= m < 10^N) and the assembled text reads back to m*10^(e-N+1), hence within half a unit of the N-th "
              "significant digit of the value, with at most N significant digits; the re-entry text of ints and fractions, read by "
              "a small reader of that sub-language, evaluates (C01 model) to the canonical value. The model is tied to /repo by a "
              "differential correspondence on exact output text, and an independent oracle re-reads the shown text and re-evaluates "
              "the re-entry text through the real pipeline.")
LEVEL_NOTE = ("Theorems are about Model/Display.lean; CPython's formatting primitives are modelled (corresponded, not verified). "
              "The re-entry theorem uses a small reader for the number sub-language instead of Ka's full lexer+parser (C11/C02); "
              "arrays / intervals / quantities are proved structurally (element-wise), their re-evaluation is checked on the real code only.")
TECHNIQUE = "Lean 4 proofs about an exact %g / mixed-fraction model + differential text correspondence + re-evaluation oracle on the real code"


# ----------------------------------------------------------------------------------------------
# helpers
# ----------------------------------------------------------------------------------------------
def bits_of(x):
    return struct.unpack("<Q", struct.pack("<d", x))[0]


def esc(t):
    out = []
    for c in t:
        o = ord(c)
        if c == "\\":
            out.append("\\\\")
        elif 32 <= o <= 126:
            out.append(c)
        else:
            out.append("\\u{%x}" % o)
    return "".join(out)


def cps(s):
    return " ".join(str(ord(c)) for c in s)


def floor_log10(q):
    """floor(log10 q) for a positive Fraction, exactly."""
    e = len(str(q.numerator)) - len(str(q.denominator))
    if Fraction(10) ** e <= q:
        while Fraction(10) ** (e + 1) <= q:
            e += 1
        return e
    while Fraction(10) ** e > q:
        e -= 1
    return e


def half_unit(q, P):
    return Fraction(1, 2) * Fraction(10) ** (floor_log10(abs(q)) - P + 1)


DEFAULT_PRECISION = [6]      # replaced by the real ConfigProperties.PRECISION.default in check()


def eff_prec(N):
    """number of significant digits the configured precision N means (interpret.py precisionify_float + CPython's %g)"""
    if N is None or not (0 <= N <= 2 ** 31 - 1):
        N = DEFAULT_PRECISION[0]
    return 1 if N == 0 else N


class Unsupported(Exception):
    pass


class K:
    """kinds bound to the real classes"""
    def __init__(self, R):
        self.Q, self.A, self.I, self.T = R.types.Quantity, R.types.Array, R.types.Interval, R.types.Instant
        self.names = list(R.units.QSPACE.base_units)
        self.R = R

    def qv(self, dim):
        return self.R.units.QuantityVector(self.R.units.Vector(tuple(dim)), self.R.units.QSPACE.base_units)


def is_num(v):
    return isinstance(v, (int, Fraction, float)) and not isinstance(v, bool)


def sx_num(v):
    if isinstance(v, bool):
        raise Unsupported("bool")
    if isinstance(v, int):
        return "(i %d)" % v
    if isinstance(v, Fraction):
        return "(q %d %d)" % (v.numerator, v.denominator)
    if isinstance(v, float):
        return "(f %d)" % bits_of(v)
    raise Unsupported(type(v).__name__)


def sx(k, v):
    if is_num(v):
        return sx_num(v)
    if isinstance(v, k.Q):
        return "(qty %s (d %s))" % (sx_num(v.mag), " ".join(str(int(e)) for e in v.qv.v))
    if isinstance(v, k.A):
        return "(arr %s)" % " ".join(sx(k, e) for e in v.contents)
    if isinstance(v, k.I):
        return "(intv %s %s)" % (sx_num(v.a), sx_num(v.b))
    if isinstance(v, str):
        return "(str %s)" % cps(v)
    if isinstance(v, k.T):
        return "(inst %s)" % cps(v.dt.isoformat())
    raise Unsupported(type(v).__name__)


def kind_of(k, v):
    if isinstance(v, bool): return "bool"
    if isinstance(v, int): return "int"
    if isinstance(v, Fraction): return "frac"
    if isinstance(v, float): return "float"
    if isinstance(v, k.Q): return "qty-" + kind_of(k, v.mag)
    if isinstance(v, k.A): return "array"
    if isinstance(v, k.I): return "interval"
    if isinstance(v, str): return "str"
    if isinstance(v, k.T): return "instant"
    return type(v).__name__


def depth(k, v):
    if isinstance(v, k.A):
        return 1 + max([depth(k, e) for e in v.contents] or [0])
    return 0


def has_float(k, v):
    if isinstance(v, float): return True
    if isinstance(v, k.Q): return isinstance(v.mag, float)
    if isinstance(v, k.A): return any(has_float(k, e) for e in v.contents)
    if isinstance(v, k.I): return isinstance(v.a, float) or isinstance(v.b, float)
    return False


# ----------------------------------------------------------------------------------------------
# generators
# ----------------------------------------------------------------------------------------------
TIES = [0.5, 1.5, 2.5, 3.5, 0.25, 0.125, 2.5e-5, 999999.5, 9.9999995, 99999.95, 0.15, 0.35, 1e22, 1e23, 1e21, 1e16, 1e15,
        123456.5, 1234567.5, 0.0001, 0.00001, 0.000123456789, 5e-324, 1e-323, 2.2250738585072014e-308, 2.225073858507201e-308,
        1.7976931348623157e308, 8.98846567431158e307, 1e300, 1e-300, 9.5, 99.5, 0.95, 0.095, 9.995, 1e-5, 9.9999e-5, 0.1, 0.2, 0.3,
        1 / 3, 2 / 3, math.pi, math.e, 1e100, 1.5e-7, 123456789.123, 4.35, 0.45, 1e-4 * 0.99999999, 6.02214076e23, 1.6e-19,
        100000.5, 1000000.5, 99999.5, 999999.4999999999, 0.30000000000000004, 2.0 ** 53 + 2, 2.0 ** -30, 1e17, 1.2345e16]


def gen_float(rng):
    r = rng.random()
    if r < 0.22:
        x = rng.choice(TIES)
    elif r < 0.30:
        # exact ties: k + 0.5 with k of 1..15 digits
        d = rng.randrange(1, 16)
        x = rng.randrange(10 ** (d - 1), 10 ** d) + 0.5
    elif r < 0.36:
        # (odd) * 2^-j : exactly representable, ties at small digit counts
        x = (2 * rng.randrange(0, 2000) + 1) * 2.0 ** -rng.randrange(1, 40)
    elif r < 0.42:
        # near a power of ten
        e = rng.randrange(-300, 300)
        x = float("1e%d" % e) * (1 + rng.choice([-1, 1]) * 10.0 ** -rng.randrange(2, 17))
    elif r < 0.47:
        x = float_of_bits(rng.randrange(1, 2 ** 52))           # subnormal
    elif r < 0.60:
        x = round(rng.uniform(0, 1000), rng.randrange(0, 6))    # short decimals
    else:
        while True:
            x = float_of_bits(rng.randrange(0, 2 ** 63))
            if math.isfinite(x) and (x == 0 or 1e-300 <= abs(x) <= 1e300):
                break
    if rng.random() < 0.3:
        x = -x
    return x


def gen_int(rng, big=True):
    r = rng.random()
    if r < 0.45:
        n = rng.randrange(0, 1000)
    elif r < 0.7:
        n = rng.randrange(0, 10 ** rng.randrange(1, 25))
    elif r < 0.85 or not big:
        n = rng.choice([10 ** rng.randrange(1, 40), 2 ** 64, 2 ** 63 - 1, 10 ** 15 + 1, 999999, 1000000, 0, 1, 9, 10])
    elif r < 0.95:
        n = rng.randrange(10 ** 199, 10 ** 400)
    else:
        n = rng.randrange(10 ** 4299, 10 ** rng.choice([4301, 5000]))
    return -n if rng.random() < 0.3 else n


def gen_frac(rng, big=True):
    while True:
        r = rng.random()
        if r < 0.3:
            d = rng.randrange(2, 50); n = rng.randrange(1, d)                      # whole part 0
        elif r < 0.6:
            d = rng.randrange(2, 1000); n = rng.randrange(d, d * 1000)              # whole part >= 1
        elif r < 0.8:
            d = rng.randrange(2, 10 ** rng.randrange(1, 30)); n = rng.randrange(1, 10 ** rng.randrange(1, 40))
        elif r < 0.9 or not big:
            d = 10 ** rng.randrange(1, 20); n = rng.randrange(1, 10 ** 22)
        elif r < 0.95:
            d = rng.randrange(2, 1000); n = rng.randrange(10 ** 310, 10 ** 420)    # too large for a float
        else:
            n = rng.randrange(1, 1000); d = rng.randrange(10 ** 310, 10 ** 420)    # underflows to 0.0
        q = Fraction(n, d)
        if q.denominator != 1:
            return -q if rng.random() < 0.4 else q


def gen_num(rng, big=True):
    r = rng.random()
    if r < 0.3:
        return gen_int(rng, big)
    if r < 0.6:
        return gen_frac(rng, big)
    return gen_float(rng)


def gen_dim(rng, n):
    while True:
        d = [0] * n
        for _ in range(rng.choice([1, 1, 1, 2, 2, 3, 4])):
            d[rng.randrange(n)] = rng.choice([1, 1, 1, 2, -1, -1, -2, 3, -3, 10, -12])
        if rng.random() < 0.06:
            d = [0] * n
        return d


STR_ALPHA = ["a", "b", "Z", " ", ",", ", ", "{", "}", "[", "]", "#", "(", ")", "1", "/", "'", "\\\"", "\\", "é", "→", "m", "^", "-", ".", "e+06", "\t"]


def lexable(s):
    """the strings Ka's lexer can deliver as a STRING value (read_string, tokens.py:162-171), re-stated:
    every double quote is consumed as part of a backslash-quote pair when scanning left to right."""
    j = 0
    while j < len(s):
        if s[j] == "\\" and j + 1 < len(s) and s[j + 1] == "\"":
            j += 2
        elif s[j] == "\"":
            return False
        else:
            j += 1
    # the closing quote must not be swallowed by a final backslash
    t = s + "\""
    j = 0
    while j < len(t):
        if t[j] == "\\" and j + 1 < len(t) and t[j + 1] == "\"":
            j += 2
            if j >= len(t):
                return False
        else:
            j += 1
    return True


def gen_str(rng):
    while True:
        s = "".join(rng.choice(STR_ALPHA) for _ in range(rng.randrange(0, 8)))
        if lexable(s) and "\n" not in s:
            return s


def gen_instant(rng, k):
    y = rng.choice([1, 999, 1970, 2020, 2024, 9999, rng.randrange(1, 9999)])
    dt = datetime.datetime(y, rng.randrange(1, 13), rng.randrange(1, 29), rng.randrange(0, 24), rng.randrange(0, 60),
                           rng.randrange(0, 60), rng.choice([0, 0, 1, 500000, 123456, 999999]))
    r = rng.random()
    if r < 0.25:
        dt = datetime.datetime(dt.year, dt.month, dt.day)
    elif r < 0.5 and 2 < y < 9998:
        off = datetime.timedelta(minutes=rng.choice([0, 60, -300, 330, 765, -720]), seconds=rng.choice([0, 0, 0, 30]))
        dt = dt.replace(tzinfo=datetime.timezone(off))
    return k.T(dt)


def gen_interval(rng, k):
    r0 = rng.random()
    if r0 < 0.16:
        # an exact bound that is a SHORT DECIMAL (1/10, 797/1000, 1/20000 = 5e-05) or a hair (1e-18 .. 1e-27) off one, and a float
        # bound within a few ulps of it: the float's displayed text is that short decimal, and what the tokeniser reads back from
        # it (the nearest float when the text has a decimal point, the exact decimal when it has none) may lie on the other side
        q = Fraction(rng.randrange(1, 1000), 10 ** rng.randrange(1, 8))
        if rng.random() < 0.5:
            q = Fraction(rng.randrange(1, 10), 10 ** rng.randrange(5, 40))     # shown as `5e-05`: a text WITHOUT a decimal point is read exactly
        x = float(q)
        for _ in range(rng.choice([0, 0, 0, 1, 2])):
            x = math.nextafter(x, rng.choice([0.0, 2.0 * x]))
        if rng.random() < 0.4:
            x = float("%.6g" % x) - rng.choice([1e-8, 1e-9, 1e-10]) * x        # 0.09999999-like: rounds up onto the short decimal
        e = q + Fraction(rng.choice([0, 0, 1, -1]), 10 ** rng.randrange(18, 28))
        gap = Fraction(float(q)) - q            # the short decimal and its nearest double differ by this much
        if gap != 0 and rng.random() < 0.6:
            e = q + gap * rng.choice([Fraction(1, 2), Fraction(1, 3), Fraction(2, 3), Fraction(-1, 2), Fraction(3, 2), Fraction(9, 10)])   # strictly between them, or just outside
        if rng.random() < 0.3:
            e, x = -e, -x
        e = int(e) if e.denominator == 1 else e
        return k.I(e, x) if Fraction(e) <= Fraction(x) else k.I(x, e)
    if r0 < 0.28:
        # an exact bound and a float bound a hair apart: rounding the float to the display precision must not carry it across
        q = Fraction(rng.randrange(1, 40), rng.choice([3, 7, 9, 11, 13, 6, 17]))
        if q.denominator == 1:
            q = q + Fraction(1, 3)
        eps = 10.0 ** -rng.randrange(5, 13) * max(1.0, float(q))
        if rng.random() < 0.5:
            return k.I(q, float(q) + eps)
        lo = float(q) - eps
        return k.I(lo, q) if Fraction(lo) <= q else k.I(q, q)
    a, b = gen_num(rng, big=False), gen_num(rng, big=False)
    if Fraction(a) > Fraction(b):
        a, b = b, a
    return k.I(a, b)


def gen_value(rng, k, d):
    r = rng.random()
    if d > 0 and r < 0.30:
        return k.A([gen_value(rng, k, d - 1) for _ in range(rng.choice([0, 1, 1, 2, 2, 3, 4]))])
    if r < 0.55:
        return gen_num(rng)
    if r < 0.75:
        return k.Q(gen_num(rng, big=rng.random() < 0.2), k.qv(gen_dim(rng, len(k.names))))
    if r < 0.85:
        return gen_interval(rng, k)
    if r < 0.93:
        return gen_str(rng)
    return gen_instant(rng, k)


# ---- Ka text whose evaluation yields values (the values then come from the real evaluator)
UNITS_TXT = ["m", "s", "kg", "km", "N", "J", "W", "eur", "ft", "m^2", "s^-1", "K", "A", "mol", "cd", "Hz", "g", "mm", "minute", "Pa"]


def txt_num(rng):
    r = rng.random()
    if r < 0.2:
        return str(rng.randrange(0, 10 ** rng.randrange(1, 12)))
    if r < 0.4:
        return "%d/%d" % (rng.randrange(1, 500), rng.randrange(2, 60))
    if r < 0.5:
        return "(-%d/%d)" % (rng.randrange(1, 500), rng.randrange(2, 60))
    if r < 0.65:
        return repr(round(rng.uniform(0, 100), rng.randrange(1, 8)))
    if r < 0.72:
        return "%d.%de%s%d" % (rng.randrange(1, 10), rng.randrange(0, 1000), rng.choice(["-", "+", ""]), rng.randrange(0, 30))
    if r < 0.78:
        return "%d^%d" % (rng.randrange(2, 12), rng.randrange(2, 200))
    if r < 0.84:
        return "(10^%d/%d)" % (rng.randrange(1, 60), rng.choice([3, 7, 9, 11, 13]))
    if r < 0.9:
        return "(%s + %s)" % (rng.choice(["0.1", "1/3", "2", "1e-7", "2.5"]), rng.choice(["0.2", "1/6", "1e20", "3.7", "1/2"]))
    if r < 0.95:
        return "-%d" % rng.randrange(1, 1000)
    return "2^-%d" % rng.randrange(1, 1075)


def txt_value(rng, d):
    r = rng.random()
    if d > 0 and r < 0.3:
        return "{" + ", ".join(txt_value(rng, d - 1) for _ in range(rng.choice([0, 1, 2, 2, 3]))) + "}"
    if r < 0.5:
        return txt_num(rng)
    if r < 0.72:
        u = rng.choice(UNITS_TXT)
        t = "(%s) %s" % (txt_num(rng), u)
        q = rng.random()
        if q < 0.2:
            t = "(%s) / (%d %s)" % (t, rng.randrange(1, 9), rng.choice(UNITS_TXT))
        elif q < 0.3:
            t = "(%s) * (%d %s)" % (t, rng.randrange(1, 9), rng.choice(UNITS_TXT))
        elif q < 0.35:
            t = "(%s) / (%d %s)" % (t, rng.randrange(1, 9), u)           # dimensionless
        return t
    if r < 0.84:
        a, b = sorted([rng.randrange(-50, 50), rng.randrange(-50, 50)])
        form = rng.choice(["[%d, %d]", "[%d/7, %d/7]", "[%d, %d]*0.1", "[%d, %d]/3", "[%d.5, %d.75]", "[%d, %d] + 1/3"])
        return form % (a, b + 1)
    if r < 0.92:
        return "\"" + gen_str(rng) + "\""
    return rng.choice(["#2020#", "#2021-03#", "#2020-02-29#", "#1999-12-31T23:59:59#", "#2020-01-01T10:00:00.123456#",
                       "#2020-01-01T10:00:00+02:00#", "#2020-06-01T00:00:00-05:30#", "#2020-01-01# + 1", "#2020-01-01# + 1.5 s",
                       "#2020-01-01T00:00:00# + 0.000001 s", "#0001-01-01#", "#9999-12-31T23:59:59.999999#", "floor(#2020-05-05T05:05:05#)"])


CORPUS_TEXT = [
    "1/3", "-7/3", "7/3", "(10^400+1)/3", "-(10^400+1)/3", "1/10^400", "2^20000", "-(2^15000)", "10^4300", "1234567.5", "1e-7*1.5",
    "0.1+0.2", "(1/3) m", "(-1/3) m", "-1/3 m", "(7/3) m^2", "(-7/3) kg m / (1 s^2)", "2.5 m", "1 m / 1 m", "2.5 m / 1 m",
    "(1/3) m / 1 m", "5 eur", "1 N", "1 J", "1 ft", "1 m^2 / 1 s", "1 / 1 s", "{1/3, 2.5 m, [1, 2]}", "{1 m}", "{(1/3) m, 2.5 m}",
    "{-5 m, (-1/2) m}", "{{1/3}, \"x\"}", "{[1,2],[3,4]}", "{}", "{{}}", "{{{1/3, 0.1}}}", "[1/3, 1/2]", "[-1/2, -1/3]", "[-2, -1]",
    "[0.1, 0.2]*3", "[1, 2]*0.1", "[2.5, 3.5]", "[1/3, 2.5]", "\"a\\\"b\"", "\"it's\"", "\"\"", "\"#\"", "\"a, b}\"",
    "#2020-01-01T10:00:00.123456#", "#2020-01-01T10:00:00+02:00#", "#2020#", "1==1", "{1<2}", "{#2020# == #2020#}", "{3!}", "3! m",
    "2^-1074", "2^-1060 * 3", "1.7976931348623157e308", "-1e22*1.5", "999999.5", "9.9999995", "2.5e-5", "0.5", "100000.5",
    "1 kg^-1", "1 m^-1 s", "(1 kg)^-2 * (1 cd)", "1 mol * 1 A", "{1 m / 1 m}", "{2.5 m / 1 m, 1}", "1e-5 m", "1.5e20 s",
    # results that are still LAZY when they reach the interpreter (n!, C(n,k), their products and quotients): what is handed
    # on for re-entry must be the number, not the lazy object
    "5!", "20!", "C(10,3)", "10!/8!", "3*C(4,2)", "5!/7!", "x = 6!", "0!", "C(5,0)", "25!/23!/7", "-(4!)", "2*3!/9", "170!", "C(40,20)/3!",
    "(1/3) m^-2", "{1e22*1.5}", "(1/2) km", "(15/18) minute", "{(1/2) km}", "(3/2) hour", "2.5 km", "(1/3) km", "3 m * (1/3)", "0.1 m * 3", "{\"a\", #2020#, [0.1, 0.7], {1/2 s}}",
]


# ----------------------------------------------------------------------------------------------
# the independent reader of displayed text (oracle a)
# ----------------------------------------------------------------------------------------------
DEC_RE = re.compile(r"-?\d+(?:\.\d+)?(?:e[+-]\d\d+)?")
INT_RE = re.compile(r"-?\d+")
FRAC_RE = re.compile(r"-?\d+/\d+")
MIXED_RE = re.compile(r"(-?)(\d+) (\d+)/(\d+)")
UNIT_RE = re.compile(r"([A-Za-z]+)(?:\^(-?\d+))?")


def sig_digits(text):
    mant = text.split("e")[0].lstrip("-").replace(".", "").lstrip("0")
    return len(mant)


class Bad(Exception):
    pass


REENTRY_TEXT = [False]      # set while the RE-ENTRY text (not the displayed text) is being read


def read_float_text(text, v, P, slack=Fraction(0)):
    """the decimal numeral `text` denotes the float v to P significant digits"""
    if v != v or v in (float("inf"), float("-inf")):
        raise Bad("non-finite float shown as %r" % text)
    if not DEC_RE.fullmatch(text):
        raise Bad("not a decimal numeral: %r" % text)
    if sig_digits(text) > P and not REENTRY_TEXT[0]:
        # (the digit limit is a claim about DISPLAYED text; the re-entry text only has to evaluate to the value — to the
        # displayed precision for floats — so more digits there are more than is promised, never less)
        raise Bad("%r shows %d significant digits, precision is %d" % (text, sig_digits(text), P))
    d = Fraction(Decimal(text))
    q = Fraction(v)
    if q == 0:
        if d != 0:
            raise Bad("zero shown as %r" % text)
        return
    if abs(d - q) > half_unit(q, P) + slack:
        raise Bad("%r is not %r rounded to %d significant digits" % (text, v, P))
    if (d < 0) != (q < 0) and d != 0:
        raise Bad("sign of %r" % text)


def read_frac_text(text, q):
    """`n/d`, or mixed `w n/d` meaning sign*(|w| + n/d)"""
    m = MIXED_RE.fullmatch(text)
    if m:
        val = int(m.group(2)) + Fraction(int(m.group(3)), int(m.group(4)))
        if int(m.group(2)) == 0 or not (0 < Fraction(int(m.group(3)), int(m.group(4))) < 1):
            raise Bad("improper mixed fraction %r" % text)
        if m.group(1):
            val = -val
    elif FRAC_RE.fullmatch(text):
        n, d = text.split("/")
        val = Fraction(int(n), int(d))
        if abs(val) >= 1:
            raise Bad("fraction >= 1 not shown as a mixed number: %r" % text)
    else:
        raise Bad("not a fraction: %r" % text)
    if val != q:
        raise Bad("%r denotes %s, value is %s" % (text[:60], str(val)[:40], str(q)[:40]))


def read_approx(text, q, P):
    """the decimal approximation shown after a fraction"""
    if text.startswith("~"):
        m = re.fullmatch(r"~(-?)1e(\d+)", text)
        if not m:
            raise Bad("bad magnitude approximation %r" % text)
        if (m.group(1) == "-") != (q < 0) or int(m.group(2)) != floor_log10(abs(q)):
            raise Bad("%r is not the order of magnitude of the value" % text)
        return
    if not DEC_RE.fullmatch(text):
        raise Bad("not a decimal numeral: %r" % text)
    if sig_digits(text) > P:
        raise Bad("approximation %r shows more than %d digits" % (text, P))
    d = Fraction(Decimal(text))
    # float(q) is within 2^-53 relative (or 2^-1075 absolute) of q, then rounded to P digits (at a power of ten the unit may be the larger one)
    tol = max(half_unit(q, P), half_unit(d, P) if d != 0 else 0) + abs(q) * Fraction(1, 2 ** 52) + Fraction(1, 2 ** 1074)
    if abs(d - q) > tol:
        raise Bad("approximation %r is not %s to %d digits" % (text, str(q)[:40], P))


def read_units(text, dim, names):
    got = [0] * len(names)
    if text != "":
        for part in text.split(" "):
            m = UNIT_RE.fullmatch(part)
            if not m or m.group(1) not in names:
                raise Bad("bad unit text %r" % text)
            i = names.index(m.group(1))
            if got[i] != 0:
                raise Bad("base unit repeated in %r" % text)
            got[i] = int(m.group(2)) if m.group(2) is not None else 1
            if got[i] == 0:
                raise Bad("zero exponent shown in %r" % text)
    if got != [int(e) for e in dim]:
        raise Bad("unit text %r denotes %s, dimension is %s" % (text, got, list(dim)))


def read_num_elem(text, v, P):
    """a number as shown inside an array / interval / as a quantity magnitude (brackets allowed around a fraction)"""
    if isinstance(v, bool):
        raise Bad("bool")
    if isinstance(v, int):
        if not INT_RE.fullmatch(text) or int(text) != v:
            raise Bad("%r does not denote the int %s" % (text[:50], str(v)[:50]))
    elif isinstance(v, Fraction):
        t = text[1:-1] if text.startswith("(") and text.endswith(")") else text
        if not FRAC_RE.fullmatch(t):
            raise Bad("not a fraction: %r" % text)
        n, d = t.split("/")
        if Fraction(int(n), int(d)) != v:
            raise Bad("%r does not denote %s" % (text[:50], v))
    else:
        read_float_text(text, v, P)


def split_top(body):
    """split the inside of {...} at top-level ', ' (strings, instants, nested brackets respected)"""
    parts, cur, i, depth_ = [], [], 0, 0
    n = len(body)
    while i < n:
        c = body[i]
        if c == "\"":
            j = i + 1
            while j < n:
                if body[j] == "\\" and j + 1 < n and body[j + 1] == "\"":
                    j += 2
                elif body[j] == "\"":
                    break
                else:
                    j += 1
            cur.append(body[i:j + 1]); i = j + 1; continue
        if c == "#":
            j = body.index("#", i + 1)
            cur.append(body[i:j + 1]); i = j + 1; continue
        if c in "{[":
            depth_ += 1
        elif c in "}]":
            depth_ -= 1
        if depth_ == 0 and body.startswith(", ", i):
            parts.append("".join(cur)); cur = []; i += 2; continue
        cur.append(c); i += 1
    parts.append("".join(cur))
    return parts


def read_elem(k, text, v, P):
    """element syntax (what appears inside arrays; also stringify_result's output)"""
    if is_num(v):
        read_num_elem(text, v, P)
    elif isinstance(v, k.Q):
        if text.startswith("("):
            j = text.index(")")
            mag, rest = text[:j + 1], text[j + 1:]
        else:
            j = text.find(" ")
            if j < 0:
                raise Bad("quantity without unit part: %r" % text)
            mag, rest = text[:j], text[j:]
            if isinstance(v.mag, Fraction):
                pass
        if not rest.startswith(" "):
            raise Bad("no space between magnitude and units in %r" % text)
        read_num_elem(mag, v.mag, P)
        read_units(rest[1:], v.qv.v, k.names)
    elif isinstance(v, k.A):
        if not (text.startswith("{") and text.endswith("}")):
            raise Bad("array not in braces: %r" % text[:60])
        body = text[1:-1]
        parts = split_top(body) if body != "" else []
        if len(parts) != len(v.contents):
            raise Bad("array of %d elements shown with %d parts" % (len(v.contents), len(parts)))
        for p, e in zip(parts, v.contents):
            read_elem(k, p, e, P)
    elif isinstance(v, k.I):
        if not (text.startswith("[") and text.endswith("]")):
            raise Bad("interval not in brackets: %r" % text[:60])
        parts = text[1:-1].split(", ")
        if len(parts) != 2:
            raise Bad("interval with %d parts" % len(parts))
        read_num_elem(parts[0], v.a, P)
        read_num_elem(parts[1], v.b, P)
    elif isinstance(v, str):
        if text != "\"" + v + "\"":
            raise Bad("string %r shown as %r" % (v, text))
    elif isinstance(v, k.T):
        if not (text.startswith("#") and text.endswith("#")) or datetime.datetime.fromisoformat(text[1:-1]) != v.dt \
                or datetime.datetime.fromisoformat(text[1:-1]).utcoffset() != v.dt.utcoffset():
            raise Bad("instant %s shown as %r" % (v.dt.isoformat(), text))
    else:
        raise Bad("undisplayable kind %s" % type(v).__name__)


def read_top(k, out, v, P, brackets):
    """what execute()/display_result wrote for the result v"""
    if not out.endswith("\n") or out.count("\n") != 1:
        raise Bad("output is not one line: %r" % out[:80])
    text = out[:-1]
    if isinstance(v, Fraction):
        m = re.fullmatch(r"(.*?)     \((.*)\)", text)
        if not m:
            raise Bad("fraction line has no approximation: %r" % text[:80])
        read_frac_text(m.group(1), v)
        read_approx(m.group(2), v, P)
    elif isinstance(v, k.Q) and isinstance(v.mag, Fraction):
        m = re.fullmatch(r"(.*?)    \((.*)\)", text)
        if not m:
            raise Bad("fraction quantity line has no approximation: %r" % text[:80])
        left, ap = m.group(1), m.group(2)
        if brackets:
            if not left.startswith("("):
                raise Bad("no brackets round the fraction: %r" % left[:60])
            j = left.index(")")
            mag, rest = left[1:j], left[j + 1:]
        else:
            mm = re.match(r"-?\d+ \d+/\d+|-?\d+/\d+", left)
            if not mm:
                raise Bad("no fraction at the start of %r" % left[:60])
            mag, rest = mm.group(0), left[mm.end():]
        if not rest.startswith(" "):
            raise Bad("no space before the units in %r" % left[:60])
        read_frac_text(mag, v.mag)
        read_units(rest[1:], v.qv.v, k.names)
        j = ap.find(" ")
        if j < 0:
            raise Bad("approximation without units: %r" % ap)
        read_approx(ap[:j], v.mag, P)
        read_units(ap[j + 1:], v.qv.v, k.names)
    elif isinstance(v, str):
        if text != v:
            raise Bad("string %r shown as %r" % (v, text))
    elif isinstance(v, k.T):
        if datetime.datetime.fromisoformat(text) != v.dt:
            raise Bad("instant shown as %r" % text)
    else:
        read_elem(k, text, v, P)


# ----------------------------------------------------------------------------------------------
# value comparison for the re-entry clause (oracle b)
# ----------------------------------------------------------------------------------------------
def same_num(orig, back, P):
    if isinstance(back, bool) or not is_num(back):
        return "came back as %s" % type(back).__name__
    if isinstance(orig, float):
        q = Fraction(orig)
        if not isinstance(back, float) or math.isfinite(back):
            b = Fraction(back)
        else:
            return "came back non-finite"
        if q == 0:
            return None if b == 0 else "zero came back as %r" % back
        tol = half_unit(q, P) + abs(q) * Fraction(1, 2 ** 50)
        return None if abs(b - q) <= tol else "float %r came back as %r (precision %d)" % (orig, back, P)
    if type(back) is not type(orig) or back != orig:
        return "%s %s came back as %s %s" % (type(orig).__name__, str(orig)[:40], type(back).__name__, str(back)[:40])
    return None


def same(k, orig, back, P):
    if is_num(orig):
        return same_num(orig, back, P)
    if isinstance(orig, k.Q):
        if all(e == 0 for e in orig.qv.v) and is_num(back):
            return same_num(orig.mag, back, P)          # dimensionless quantity ≈ its magnitude
        if not isinstance(back, k.Q):
            return "quantity came back as %s" % type(back).__name__
        if list(back.qv.v) != list(orig.qv.v):
            return "dimension %s came back as %s" % (list(orig.qv.v), list(back.qv.v))
        return same_num(orig.mag, back.mag, P)
    if isinstance(orig, k.A):
        if not isinstance(back, k.A) or len(back.contents) != len(orig.contents):
            return "array of %d came back as %s" % (len(orig.contents), type(back).__name__)
        for a, b in zip(orig.contents, back.contents):
            r = same(k, a, b, P)
            if r:
                return r
        return None
    if isinstance(orig, k.I):
        if not isinstance(back, k.I):
            return "interval came back as %s" % type(back).__name__
        return same_num(orig.a, back.a, P) or same_num(orig.b, back.b, P)
    if isinstance(orig, str):
        return None if (isinstance(back, str) and back == orig) else "string %r came back as %r" % (orig, back)
    if isinstance(orig, k.T):
        if not isinstance(back, k.T) or back.dt.isoformat() != orig.dt.isoformat():
            return "instant %s came back as %s" % (orig.dt.isoformat(), back)
        return None
    return "undisplayable kind %s" % type(orig).__name__


def out_of_float_range(k, v, P):
    """a float whose P-digit rounding exceeds the largest double cannot be re-entered by any decimal reader"""
    def one(x):
        if not isinstance(x, float) or x == 0 or not math.isfinite(x):
            return False
        return Fraction(Decimal(("%." + str(P) + "g") % abs(x))) > Fraction(1.7976931348623157e308)
    if isinstance(v, float): return one(v)
    if isinstance(v, k.Q): return one(v.mag)
    if isinstance(v, k.A): return any(out_of_float_range(k, e, P) for e in v.contents)
    if isinstance(v, k.I): return one(v.a) or one(v.b)
    return False


def tiny_float_inside(k, v):
    """floats below 1e-306: the lexer computes mantissa*float(Fraction(1,10**k)), which loses the value in the subnormal range"""
    def one(x):
        return isinstance(x, float) and x != 0 and abs(x) < 1e-306
    if isinstance(v, float): return one(v)
    if isinstance(v, k.Q): return one(v.mag)
    if isinstance(v, k.A): return any(tiny_float_inside(k, e) for e in v.contents)
    if isinstance(v, k.I): return one(v.a) or one(v.b)
    return False


def noncanonical(k, v):
    """a Fraction with denominator 1 somewhere in the value: the evaluator must deliver such a number as an int"""
    if isinstance(v, Fraction): return v.denominator == 1
    if isinstance(v, k.Q): return noncanonical(k, v.mag)
    if isinstance(v, k.A): return any(noncanonical(k, e) for e in v.contents)
    if isinstance(v, k.I): return noncanonical(k, v.a) or noncanonical(k, v.b)
    return False


def interval_float_bound(k, v):
    return isinstance(v, k.I) and (isinstance(v.a, float) or isinstance(v.b, float))


# ----------------------------------------------------------------------------------------------
class Precision:
    """set ka.config.CONFIG['precision'] in-process and restore it afterwards"""
    def __init__(self, R):
        import ka.config
        self.cfg = ka.config
        self.cfg.get(self.cfg.ConfigProperties.PRECISION)      # force the (empty-HOME) config read now
        self.saved = dict(self.cfg.CONFIG)

    def set(self, N):
        if N is None:
            self.cfg.CONFIG.pop("precision", None)      # unset: the default applies
        else:
            self.cfg.CONFIG["precision"] = N

    def restore(self):
        self.cfg.CONFIG.clear()
        self.cfg.CONFIG.update(self.saved)


def call(fn, *a, **kw):
    """run a real function under the watchdog; ('ok', result) | ('err', class name)"""
    try:
        with alarm(10.0), core.real_mode():
            return ("ok", fn(*a, **kw))
    except BaseException as e:   # noqa
        if isinstance(e, (KeyboardInterrupt, SystemExit)):
            raise
        return ("err", "diverges" if isinstance(e, core.Timeout) else type(e).__name__)


def real_display(R, v, brackets):
    out = io.StringIO()
    r = call(R.interpret.display_result, v, out, brackets_for_frac=brackets)
    return ("ok " + esc(out.getvalue())) if r[0] == "ok" else "err py:" + r[1]


def real_stringify(R, v, brackets):
    r = call(R.interpret.stringify_result, v, brackets_for_frac=brackets)
    return ("ok " + esc(r[1])) if r[0] == "ok" else "err py:" + r[1]


def pick_precision(rng):
    r = rng.random()
    if r < 0.25:
        return 6
    if r < 0.85:
        return rng.randrange(1, 18)
    if r < 0.89:
        return 0
    if r < 0.94:
        return rng.choice([18, 20, 30, 60, 400])
    if r < 0.97:
        return rng.choice([-1, -6, 2 ** 31, 10 ** 12])     # out of range: the default applies
    return None                                            # not configured


def nreq(N):
    """precision as sent to the model: 'not configured' is sent as an out-of-range value (the model then uses ITS default)"""
    return -1 if N is None else N


def check(ctx):
    rng = ctx.rng
    R = ctx.real
    k = K(R)
    prec = Precision(R)
    names_sx = "(names %s)" % " ".join("(%s)" % cps(n) for n in k.names)
    I = R.interpret
    DEFAULT_PRECISION[0] = prec.cfg.ConfigProperties.PRECISION.default
    try:
        _check(ctx, rng, R, k, prec, names_sx, I)
    finally:
        prec.restore()


def _check(ctx, rng, R, k, prec, names_sx, I):
    # ------------------------------------------------------------------ 1. %g on doubles
    fmt_cases = []
    nf = ctx.n(6000, 80000)
    floats = list(TIES) + [-x for x in TIES[:20]] + [0.0, -0.0]
    while len(floats) < nf:
        floats.append(gen_float(rng))
    for i, x in enumerate(floats):
        Ns = [6, pick_precision(rng)] if i >= len(TIES) else [1, 2, 3, 5, 6, 7, 8, 15, 16, 17, 0, 25, -1, None, 2 ** 31]
        for N in Ns:
            prec.set(N)
            r = call(I.precisionify_float, x)
            real = ("ok " + esc(r[1])) if r[0] == "ok" else "err py:" + r[1]
            fmt_cases.append(("fmt %d %d" % (nreq(N), bits_of(x)), real, dict(x=repr(x), N=N)))
            ctx.count(("fmt", x, N), bucket="fmt/N=%s" % ("unset" if N is None else "out-of-range" if not 0 <= N < 2 ** 31 else min(N, 18)))
            # oracle on the real formatter: at most P digits, within half a unit
            if r[0] == "ok":
                try:
                    read_float_text(r[1], x, eff_prec(N))
                except Bad as e:
                    ctx.violation("display:float", "precision=%s float=%r" % (N, x), "a %d-significant-digit rounding" % eff_prec(N),
                                  r[1], "ka.config.CONFIG['precision']=%s; ka.interpret.precisionify_float(%r)" % (N, x))
            else:
                ctx.violation("display:float-raises", "precision=%s float=%r" % (N, x), "text", r[1], "precisionify_float")
    ctx.correspond("fmt", fmt_cases, describe=lambda i: "%s @%s" % (i["x"], i["N"]))

    prec.set(6)

    # ------------------------------------------------------------------ 2. values
    values = []          # (origin text or None, value)
    for t in CORPUS_TEXT:
        values.append((t, None))
    nt = ctx.n(1500, 15000)
    for _ in range(nt):
        values.append((txt_value(rng, rng.choice([0, 0, 1, 2, 3])), None))
    nd = ctx.n(2500, 30000)
    for _ in range(nd):
        values.append((None, gen_value(rng, k, rng.choice([0, 0, 0, 1, 2, 3]))))

    disp_cases, str_cases = [], []
    n_reentry = 0
    kinds_seen = set()
    for text, v in values:
        N = pick_precision(rng)
        P = eff_prec(N)
        prec.set(N)
        brackets = rng.random() < 0.7          # the GUI passes True, the CLI False
        label = text if text is not None else None
        if text is not None:
            ex = R.execute(text, brackets_for_frac=brackets)
            if ex["escaped"]:
                ctx.violation("display:escaped", "precision=%s; %s" % (N, text), "a result or a diagnosed error", ex["escaped"],
                              "execute(%r)" % text)
                continue
            if ex["status"] != 0 or ex["value"] is None:
                ctx.count(("text-error", text), nontrivial=False, bucket="text/error")
                continue
            v = ex["value"]
            shown = ex["out"]
        else:
            out = io.StringIO()
            r = call(I.display_result, v, out, brackets_for_frac=brackets)
            shown = out.getvalue()
            if r[0] != "ok":
                label = "direct:" + kind_of(k, v)
                ctx.violation("display:escaped", "precision=%s; %s %s" % (N, label, sx(k, v)[:200]), "text", r[1], "display_result(<value>)")
                continue
        try:
            vsx = sx(k, v)
        except Unsupported as e:
            ctx.violation("display:kind", text or "direct", "a displayable value", "result contains %s" % e, "execute(%r)" % text)
            continue
        kd = kind_of(k, v)
        kinds_seen.add(kd)
        desc = text if text is not None else "direct %s" % vsx[:300]
        how = ("ka.config.CONFIG['precision']=%s; " % N) + (
            "execute(%r, brackets_for_frac=%s)" % (text, brackets) if text is not None else "display_result(<%s>)" % vsx[:300])
        ctx.count((vsx, N), nontrivial=not (isinstance(v, int) and abs(v) < 1000),
                  bucket="%s/%s/depth=%d" % ("text" if text is not None else "direct", kd, depth(k, v)))
        ctx.sample(dict(input=desc[:100], precision=N, shown=shown[:100]))

        # ---- correspondence: exact text of display and of both stringify variants
        disp_cases.append(("display (req %d %d %s %s)" % (nreq(N), 1 if brackets else 0, names_sx, vsx), "ok " + esc(shown),
                           dict(desc=desc[:200], N=N)))
        if text is not None:
            # execute() and display_result must print the same thing for the same value
            r2 = real_display(R, v, brackets)
            if r2 != "ok " + esc(shown):
                ctx.broken("execute() and display_result() print different text", "%s: %r vs %r" % (desc[:100], shown[:100], r2[:100]))
        for b in (True, False):
            str_cases.append(("stringify (req %d %d %s %s)" % (nreq(N), 1 if b else 0, names_sx, vsx), real_stringify(R, v, b),
                              dict(desc=desc[:200], N=N)))

        if text is not None and noncanonical(k, v):
            # e.g. (1/2) km = Fraction(500, 1) m, shown as "500 0 m": no reading of "500 0" is 500
            ctx.violation("noncanonical-fraction-magnitude", "precision=%s; %s" % (N, desc),
                          "an integral magnitude delivered as an int and shown as such", shown[:200], how)
            continue

        # ---- oracle (a): the shown text denotes the value
        try:
            read_top(k, shown, v, P, brackets)
        except Bad as e:
            key = "display:" + kd
            if interval_float_bound(k, v) and "significant digits" in str(e):
                key = "display:interval-float-digits"
            ctx.violation(key, "precision=%s; %s" % (N, desc), "text denoting the value: " + str(e), shown[:200], how)
        except Exception as e:   # reader could not even parse
            ctx.violation("display:" + kd, "precision=%s; %s" % (N, desc), "readable text (%s)" % type(e).__name__, shown[:200], how)

        # ---- oracle (b): the re-entry text evaluates to the value (fresh environment, real pipeline)
        rs = call(I.stringify_result, v, brackets_for_frac=True)
        if rs[0] != "ok":
            ctx.violation("reentry:stringify-raises", "precision=%s; %s" % (N, desc), "text", rs[1], "stringify_result(<value>, True)")
            continue
        rt = rs[1]
        # the re-entry text read as text: denotes the value too (element syntax)
        try:
            REENTRY_TEXT[0] = True
            try:
                read_elem(k, rt, v, P)
            finally:
                REENTRY_TEXT[0] = False
        except Bad as e:
            ctx.violation("reentry-text:" + kd, "precision=%s; %s" % (N, desc), "re-entry text denoting the value: " + str(e), rt[:200], how)
        except Exception as e:
            ctx.violation("reentry-text:" + kd, "precision=%s; %s" % (N, desc), "readable re-entry text (%s)" % type(e).__name__, rt[:200], how)
        if out_of_float_range(k, v, P):
            ctx.count(("oor", vsx), nontrivial=False, bucket="reentry/out-of-double-range (excluded)")
            continue
        ex2 = R.execute(rt, brackets_for_frac=True)
        n_reentry += 1
        problem = None
        if ex2["escaped"]:
            problem = "escaped " + ex2["escaped"]
        elif ex2["status"] != 0:
            problem = "error: " + ex2["err"].strip().split("\n")[0][:100]
        elif ex2["value"] is None:
            problem = "no value"
        else:
            problem = same(k, v, ex2["value"], P)
        if problem:
            key = "reentry:" + kd
            if tiny_float_inside(k, v):
                key = "reentry:tiny-float"
            ctx.violation(key, "precision=%s; %s" % (N, desc), "re-entry text %r evaluates to the value" % rt[:120], problem,
                          how + "; then execute(stringify_result(result_box.value, True)) in a fresh environment")
    prec.set(6)
    # results that come straight out of == / != / in on kinds without an ordering (strings, arrays, mixed): whichever of 0 and 1 the
    # answer is, it is a NUMBER — displayed as digits, element-wise inside arrays, and its re-entry text is valid Ka for the same value
    import re as _re
    for text in ['"a" == "a"', '"a" != "a"', '"a" == "b"', "{1, 2} == {1, 2}", "{1, 2} != {2, 1}", '"a" == 1', "{1} == 1", '{"a" == "a", 7}', '{{"a" != "b"}, {1, 2} == {1, 2}}',
                 '"a" in {"a", "b"}', "{1} in {{1}, {2}}", '("a" == "a") + 1', '{("x" == "x") * 3, "x" == "y"}', "#2020-01-01# == \"a\"", "[1, 2] == \"a\"", "x = \"a\" == \"a\"; x"]:
        r = R.execute(text)
        ctx.count("cmp-result:" + text, bucket="results of == / != / in on unordered kinds")
        if r["status"] != 0 or r["escaped"] or r["value"] is None:
            continue
        shown = r["out"].strip()
        if not _re.fullmatch(r"[0-9{}, ]+", shown):
            ctx.violation("display:comparison-result", text, "digits (0 / 1), element-wise", shown[:80], "execute(%r)" % text)
            continue
        rs2 = call(I.stringify_result, r["value"], brackets_for_frac=True)
        back = R.execute(rs2[1], brackets_for_frac=True) if rs2[0] == "ok" else None
        if back is None or back["status"] != 0 or back["escaped"] or back["out"] != r["out"]:
            ctx.violation("reentry:comparison-result", text, "re-entry text that evaluates to the value shown as %s" % shown,
                          "%r -> %s" % (rs2[1] if rs2[0] == "ok" else rs2, "none" if back is None else (back["out"].strip() or back["err"].strip()[:80])), "execute(stringify_result(value, True))")
    # the re-entry text goes back into the SAME session (that is where the GUI puts it): a session whose variables are named like
    # units — also like the base-unit symbols the display spells results with — must get the value back from it
    import namespace_common
    namespace_common.run(ctx, "ns", reentry=True)
    namespace_common.run(ctx, "ns", reentry=True)
    ctx.cov["reentry_evaluations"] = n_reentry
    ctx.cov["kinds_seen"] = sorted(kinds_seen)
    ctx.correspond("display", disp_cases, describe=lambda i: "%s @%s" % (i["desc"], i["N"]))
    ctx.correspond("stringify", str_cases, describe=lambda i: "%s @%s" % (i["desc"], i["N"]))


# ---- refinement lemmas of the unified pipeline model for this property (Props/Pipeline2.lean): the fragment this check's
# theorems are about IS what the whole-program model computes on the fragment's sub-language
import pipeline as _pl
LEAN_MODULES = LEAN_MODULES + [m for m in _pl.LEAN_MODULES2 if m not in LEAN_MODULES]
THEOREMS = THEOREMS + [t for t in _pl.THEOREMS2.get(ID, []) if t not in THEOREMS]
GEN = GEN + [g for g in _pl.GEN if g not in GEN]


# ---- refinement lemmas of the unified pipeline model for this property (Props/Pipeline3.lean): the fragment this check's
# theorems are about IS what the whole-program model computes on instant / probability expressions
import pipeline as _pl3
LEAN_MODULES = LEAN_MODULES + [m for m in _pl3.LEAN_MODULES3 if m not in LEAN_MODULES]
THEOREMS = THEOREMS + [t for t in _pl3.THEOREMS3.get(ID, []) if t not in THEOREMS]
GEN = GEN + [g for g in _pl3.GEN3 if g not in GEN]
