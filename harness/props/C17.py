"""C17 — instant arithmetic obeys calendar laws."""
import calendar, datetime as _dt, math, struct
from fractions import Fraction
import core
from core import num_canon

ID = "C17"
LEAN_MODULES = ["KaVerif.Props.C17"]
GEN = []
THEOREMS = ["KaVerif.C17_civil_roundtrip", "KaVerif.C17_days", "KaVerif.C17_add_sub", "KaVerif.C17_span_rounding",
            "KaVerif.C17_diff", "KaVerif.C17_cmp_sign", "KaVerif.C17_floor_ceil", "KaVerif.C17_ceil_last_day",
            "KaVerif.C17_fields", "KaVerif.C17_non_time_rejected", "KaVerif.C17_out_of_range"]
RULE = ("instant literals with boundary bias (days 28-31, February of leap / non-leap / century years, Dec 31, years 1, 2, 9998, "
        "9999; forms YYYY, YYYY-MM, YYYY-MM-DD, date(T| )HH:MM[:SS[.f{1..7}]]; invalid fields), spans in "
        "microseconds…fortnights with int / fraction / float magnitudes of either sign from 0.1 us to beyond the calendar, whole-day "
        "counts to +-4e6 and beyond the timedelta limit, pairs (equal, equal in another spelling, 1 us apart, same day, random); "
        "every case is Ka text through the real tokenise->parse->eval (+, -, six comparisons, floor, ceil, year…second), "
        "compared with the Lean model (stream inst) and judged by a datetime/Fraction oracle; thorough tier: floor/ceil/fields "
        "for every date of 1896-2104 and every month end of years 1-9999; non-trivial = the case reaches instant arithmetic "
        "(everything but plain literals); distinct = distinct Ka text")
ASSUMPTIONS = [
    "CPython 3.12 datetime/timedelta (proleptic Gregorian calendar, years 1..9999, timedelta(seconds=float) rounding, "
    "fromisoformat forms) is modelled, not verified; the streams inst/parse and inst/span exercise exactly these assumptions",
    "only naive instants are modelled and generated; literals with a UTC offset are outside the model "
    "(aware-vs-naive comparison/subtraction is a recorded known finding)",
    "'to the microsecond' is read as: the exact microsecond count of (I+q)-I is within 0.5 us (+ the double rounding of "
    "float(q.mag), 2^-52 relative) of q; the float-seconds quantity Ka returns for a difference is the correctly rounded quotient",
]
LEVEL_TEXT = ("Machine-checked proof (Lean 4) over an executable model of CPython's calendar and timedelta arithmetic as Ka uses it: "
              "the day-number <-> civil-date round trip for all years 1..9999 (direct arithmetic proof, no enumeration), floor <= I < ceil "
              "at midnight one day apart for every instant, day-count and microsecond-span add/subtract laws, antisymmetry of differences, "
              "the six comparisons vs the sign of the difference, the ISO-text field theorems and the rejection of non-time quantities; "
              "the model is tied to the code by a differential correspondence through the real pipeline and a datetime/Fraction oracle "
              "searches the real code for a replay.")
LEVEL_NOTE = ("Theorems are about the model (Model/Instant.lean). The two float steps (float(q.mag) and the float quotient returned by "
              "I-J) are modelled by correctly rounded rational arithmetic and covered by correspondence only; UTC offsets are not modelled.")
TECHNIQUE = "Lean 4: arithmetic (omega) proofs over CPython's ord_to_ymd/ymd_to_ord + differential correspondence + datetime oracle"

US_DAY = 86400 * 10**6
MIN_DT = _dt.datetime(1, 1, 1)
MAX_TOTAL = 3652059 * US_DAY - 1          # 9999-12-31T23:59:59.999999 in us since 0001-01-01


def total_us(dt):
    d = dt - MIN_DT
    return (d.days * 86400 + d.seconds) * 10**6 + d.microseconds


def from_total(t):
    return MIN_DT + _dt.timedelta(days=t // US_DAY, seconds=(t % US_DAY) // 10**6, microseconds=t % 10**6)


def key_of(dt):
    return "%d-%d-%d-%d-%d-%d-%d" % (dt.year, dt.month, dt.day, dt.hour, dt.minute, dt.second, dt.microsecond)


# ---------------------------------------------------------------------------------------------
# generators
# ---------------------------------------------------------------------------------------------
BOUND_YEARS = [1, 1, 2, 9998, 9999, 9999]
LEAPISH = [4, 100, 400, 1600, 1700, 1896, 1900, 1904, 2000, 2019, 2020, 2023, 2024, 2100, 2104, 2400, 9996]


def dim(y, m):
    return calendar.monthrange(y, m)[1]


def gen_ymd(rng):
    r = rng.random()
    if r < 0.18: y = rng.choice(BOUND_YEARS)
    elif r < 0.45: y = rng.choice(LEAPISH)
    elif r < 0.70: y = rng.randint(1896, 2104)
    else: y = rng.randint(1, 9999)
    r = rng.random()
    if r < 0.30: m = 2
    elif r < 0.45: m = 12
    elif r < 0.55: m = 1
    else: m = rng.randint(1, 12)
    n = dim(y, m)
    r = rng.random()
    if r < 0.35: d = n
    elif r < 0.55: d = min(n, rng.choice([28, 29, 30, 31]))
    elif r < 0.65: d = 1
    else: d = rng.randint(1, n)
    return y, m, d


def gen_time(rng):
    """(h, mi, s, us, text) — text '' means a date-only literal"""
    r = rng.random()
    if r < 0.2:
        return 0, 0, 0, 0, ""
    r = rng.random()
    if r < 0.12: h, mi, s = 0, 0, 0
    elif r < 0.30: h, mi, s = 23, 59, 59
    elif r < 0.36: h, mi, s = 12, 0, 0
    else: h, mi, s = rng.randint(0, 23), rng.randint(0, 59), rng.randint(0, 59)
    form = rng.random()
    if form < 0.2:
        return h, mi, 0, 0, "%02d:%02d" % (h, mi)
    if form < 0.45:
        return h, mi, s, 0, "%02d:%02d:%02d" % (h, mi, s)
    k = rng.choice([1, 2, 3, 6, 6, 6, 6, 7, rng.randint(1, 9)])
    r = rng.random()
    if r < 0.25: digs = "9" * k
    elif r < 0.4: digs = "0" * (k - 1) + "1"
    elif r < 0.5: digs = "5" + "0" * (k - 1)
    elif r < 0.55: digs = "0" * k
    else: digs = "".join(rng.choice("0123456789") for _ in range(k))
    us = int((digs + "000000")[:6])
    return h, mi, s, us, "%02d:%02d:%02d.%s" % (h, mi, s, digs)


class Lit:
    __slots__ = ("text", "dt", "form")

    def __init__(self, text, dt, form):
        self.text, self.dt, self.form = text, dt, form

    @property
    def ka(self):
        return "#" + self.text + "#"


def lit_of(y, m, d, h=0, mi=0, s=0, us=0, ttext="", sep="T", short=None):
    dt = _dt.datetime(y, m, d, h, mi, s, us)
    if short == "y":
        return Lit("%04d" % y, dt, "Y")
    if short == "ym":
        return Lit("%04d-%02d" % (y, m), dt, "YM")
    date = "%04d-%02d-%02d" % (y, m, d)
    if not ttext:
        return Lit(date, dt, "date")
    form = {5: "HM", 8: "HMS"}.get(len(ttext), "HMSf")
    return Lit(date + sep + ttext, dt, form + ("sp" if sep == " " else ""))


def gen_lit(rng):
    y, m, d = gen_ymd(rng)
    r = rng.random()
    if r < 0.05:
        return lit_of(y, 1, 1, short="y")
    if r < 0.10:
        return lit_of(y, m, 1, short="ym")
    h, mi, s, us, tt = gen_time(rng)
    return lit_of(y, m, d, h, mi, s, us, tt, sep=" " if rng.random() < 0.25 else "T")


def gen_bad_lit(rng):
    """a literal of a modelled shape with one field out of range → must be 'Invalid ISO-8601' (KaRuntimeError)"""
    y, m, d = gen_ymd(rng)
    k = rng.randrange(9)
    date = "%04d-%02d-%02d" % (y, m, d)
    if k == 0: return "%04d-%02d-%02d" % (y, m, dim(y, m) + 1)
    if k == 1: return "%04d-%02d-00" % (y, m)
    if k == 2: return "%04d-%02d-01" % (y, rng.choice([0, 13, 99]))
    if k == 3: return "0000-%02d-%02d" % (m, min(d, 28))
    if k == 4: return date + "T24:00"
    if k == 5: return date + "T10:60:00"
    if k == 6: return date + " 10:00:60"
    if k == 7: return "%04d-%02d" % (y, rng.choice([0, 13, 20]))
    yy = rng.choice([1900, 2100, 2023, 1, 9999, 1700])
    return "%04d-02-29" % yy


UNITS = [("microseconds", Fraction(1, 10**6)), ("μs", Fraction(1, 10**6)), ("ms", Fraction(1, 1000)),
         ("milliseconds", Fraction(1, 1000)), ("s", 1), ("seconds", 1), ("min", 60), ("minutes", 60),
         ("h", 3600), ("hours", 3600), ("d", 86400), ("days", 86400), ("weeks", 604800), ("fortnights", 1209600)]


def dec_text(x):
    """a decimal literal Ka lexes as a float with exactly this double value"""
    s = repr(float(x))
    if "e" in s or "E" in s or "inf" in s or "nan" in s:
        s = "%.30f" % x
        s = s.rstrip("0")
        if s.endswith("."):
            s += "0"
    return s


def gen_span(rng):
    """Ka text of a time span (parenthesised), with sign and magnitude kind drawn at random"""
    unit, mult = rng.choice(UNITS)
    r = rng.random()
    if r < 0.25:
        secs = Fraction(rng.choice([0, 1, 1, 2, 59, 60, 90, 3599, 86399, 86400, 86401, 1209600, 31536000]))
    elif r < 0.45:
        secs = Fraction(rng.randrange(1, 10**7), 10**6) * rng.choice([1, 1, 60, 3600])
    elif r < 0.60:
        secs = Fraction(2 * rng.randrange(0, 10**6) + 1, 2 * 10**6)      # odd number of half-microseconds
    else:
        secs = Fraction(10) ** rng.randrange(-7, 12) * Fraction(rng.randrange(1, 10**6), 10**5)
    mag = secs / mult
    kind = rng.choice(["int", "frac", "float"])
    neg = rng.random() < 0.3
    if kind == "int":
        n = int(mag) if mag >= 1 else rng.choice([0, 1, 2, 3])
        txt = str(n)
    elif kind == "frac":
        den = rng.choice([2, 3, 7, 1000, 10**6, 10**6 + 1, rng.randrange(2, 10**4)])
        n = int(mag * den) or 1
        txt = "%d/%d" % (n, den)
    else:
        x = float(mag) if rng.random() < 0.7 else float(mag) * (1 + rng.uniform(-1e-9, 1e-9))
        txt = dec_text(abs(x))
    if neg:
        txt = "-" + txt
    return "((%s) %s)" % (txt, unit), kind


NON_TIME = ["3 m", "2 kg", "(1 m/s)", "1 s^2", "1 Hz", "(1 m / 1 m)", "5 A", "1 K", "(1/2) m", "2.5 kg", "(1 s / 1 s)",
            "1 J", "(3 m * 1 s)", "1 s^-1", "(1 s)^2", "60 km/h", "1 mol", "1 cd",
            # dimensionless units and signatures that cancel, with whole and fractional magnitudes
            "3 rad", "2 sr", "1 dozen", "2 B", "8 b", "1 hundred", "3 m|m", "(6 m / 2 m)", "90 deg", "(1/2) dozen", "2.5 rad", "(3 s / 1 s)",
            # zero base-unit magnitude: still not a time span
            "0 m", "0.0 kg", "(0/3) J", "(3 m - 3 m)", "(2 km - 2000 m)", "(0-273.15) degC", "0 dozen", "0 K", "(0 m / 1 s)", "0 s^2"]


def gen_days(rng, base_dt):
    r = rng.random()
    if r < 0.25:
        n = rng.choice([0, 1, 1, 2, 28, 29, 30, 31, 59, 60, 365, 366, 1461, 36524, 36525, 146097])
    elif r < 0.5:
        n = rng.randrange(0, 4 * 10**6)
    elif r < 0.62:
        # land on / next to the calendar's ends
        o = base_dt.toordinal()
        n = rng.choice([1 - o, -o, 3652059 - o, 3652060 - o, 2 - o, 3652058 - o])
        return n
    elif r < 0.7:
        n = rng.choice([999999999, 10**9, 10**9 + 1, 10**12, 10**30, 2**63, 2**31])
    else:
        n = rng.randrange(0, 10**rng.randrange(1, 7))
    return -n if rng.random() < 0.4 else n


def gen_partner(rng, a):
    """an instant to pair with a: equal / equal in another spelling / 1 us apart / same day / random"""
    r = rng.random()
    dt = a.dt
    if r < 0.15:
        return Lit(a.text, a.dt, a.form)
    if r < 0.30:
        if dt.microsecond:
            tt = "%02d:%02d:%02d.%06d" % (dt.hour, dt.minute, dt.second, dt.microsecond)
        elif dt.second or rng.random() < 0.5:
            tt = "%02d:%02d:%02d" % (dt.hour, dt.minute, dt.second)
        else:
            tt = "%02d:%02d" % (dt.hour, dt.minute)
        return lit_of(dt.year, dt.month, dt.day, dt.hour, dt.minute, dt.second, dt.microsecond, tt, sep=rng.choice("T "))
    if r < 0.45:
        t = total_us(dt) + rng.choice([-1, 1, -10**6, 10**6, US_DAY, -US_DAY])
        t = min(max(t, 0), MAX_TOTAL)
        d2 = from_total(t)
        return lit_of(d2.year, d2.month, d2.day, d2.hour, d2.minute, d2.second, d2.microsecond,
                      "%02d:%02d:%02d.%06d" % (d2.hour, d2.minute, d2.second, d2.microsecond))
    if r < 0.6:
        h, mi, s, us, tt = gen_time(rng)
        return lit_of(dt.year, dt.month, dt.day, h, mi, s, us, tt)
    return gen_lit(rng)


# ---------------------------------------------------------------------------------------------
# canonical answers
# ---------------------------------------------------------------------------------------------
def make_canon(R):
    T = R.types

    def canon(res):
        k, v = res
        if k == "err":
            return "err " + v
        if isinstance(v, T.Instant):
            if v.dt.tzinfo is not None:
                return "ok aware"
            return "ok " + key_of(v.dt)
        if isinstance(v, T.Quantity):
            c = num_canon(v.mag)
            if v.qv == T.SECONDS:
                return "ok S " + (c or "other")
            return "ok Q " + (c or "other")
        c = num_canon(v)
        return "ok " + (c if c is not None else "other:" + type(v).__name__)
    return canon


def dim_text(qv):
    return ",".join(str(Fraction(x)) for x in qv.v.xs)


def agree(real_ans, model_ans, info):
    if real_ans == model_ans:
        return True
    a, b = real_ans.split(" "), model_ans.split(" ")
    if len(a) == 3 and len(b) == 3 and a[:2] == b[:2] == ["ok", "S"]:
        return core.nums_agree(a[2], b[2], 0.0)        # bit-exact floats required: same kind, same value
    return False


HOW = "PYTHONPATH=/repo/src HOME=<empty dir> python -c 'from ka.interpret import execute; execute(%r)'"


# ---------------------------------------------------------------------------------------------
# the check
# ---------------------------------------------------------------------------------------------
def _check_main(ctx):
    rng, R = ctx.rng, ctx.real
    T = R.types
    canon = make_canon(R)
    cases = []
    seen = set()

    def run(text):
        return R.value(text)

    def viol(key, text, expected, actual):
        ctx.violation(key, text, expected, actual, HOW % text)

    def is_err(res):
        """a diagnosed error (not a value, not an escaping host exception, not a hang)"""
        return res[0] == "err" and not res[1].startswith("py:") and res[1] != "diverges"

    def note(text, fam, real_ans, nontrivial=True):
        ctx.count(text, nontrivial=nontrivial, bucket=fam + "/" + ("err" if real_ans.startswith("err") else "ok"))

    qcache = {}

    def quantity(qtext):
        if qtext not in qcache:
            r = run(qtext)
            qcache[qtext] = r[1] if r[0] == "ok" and isinstance(r[1], T.Quantity) else None
        return qcache[qtext]

    # ---------------------------------------------------------------- literals and fields
    def do_literal(L):
        text = L.ka
        if text in seen:
            return
        seen.add(text)
        res = run(text)
        a = canon(res)
        note(text, "literal:" + L.form, a, nontrivial=False)
        exp = "ok " + key_of(L.dt)
        if a != exp:
            viol("fields:literal", text, exp, a)
        cases.append(("inst parse " + ",".join(str(ord(c)) for c in L.text), a, text))

    def do_fields(L, ops=("year", "month", "day", "hour", "minute", "second")):
        dt = L.dt
        want = dict(year=dt.year, month=dt.month, day=dt.day, hour=dt.hour, minute=dt.minute, second=dt.second)
        for op in ops:
            text = "%s(%s)" % (op, L.ka)
            res = run(text)
            a = canon(res)
            note(text, "field", a)
            if a != "ok i:%d" % want[op]:
                viol("fields:" + op, text, "ok i:%d" % want[op], a)
            cases.append(("inst %s %s" % (op, key_of(dt)), a, text))

    def do_bad_literal(t):
        text = "#" + t + "#"
        res = run(text)
        a = canon(res)
        note(text, "literal:invalid", a, nontrivial=False)
        if not is_err(res):
            viol("fields:invalid-literal", text, "a diagnosed error", a)
        cases.append(("inst parse " + ",".join(str(ord(c)) for c in t), a, text))

    # ---------------------------------------------------------------- floor / ceil
    def do_floor_ceil(L, light=False):
        dt = L.dt
        F = _dt.datetime(dt.year, dt.month, dt.day)
        ft, ct = "floor(%s)" % L.ka, "ceil(%s)" % L.ka
        rf, rc = run(ft), run(ct)
        af, ac = canon(rf), canon(rc)
        note(ft, "floor", af); note(ct, "ceil", ac)
        cases.append(("inst floor " + key_of(dt), af, ft))
        cases.append(("inst ceil " + key_of(dt), ac, ct))
        if af != "ok " + key_of(F):
            viol("floor_ceil:floor", ft, "ok " + key_of(F), af)
        last = (dt.year, dt.month, dt.day) == (9999, 12, 31)
        if last:
            if not is_err(rc):
                viol("floor_ceil:ceil-last-day", ct, "a diagnosed error (result beyond year 9999)", ac)
        else:
            C = F + _dt.timedelta(days=1)
            if ac != "ok " + key_of(C):
                viol("floor_ceil:ceil", ct, "ok " + key_of(C), ac)
        if light or last:
            return
        # the law itself through Ka: floor <= I < ceil, one day apart
        for text, exp in (("floor(%s) <= %s" % (L.ka, L.ka), "ok i:1"), ("%s < ceil(%s)" % (L.ka, L.ka), "ok i:1"),
                          ("ceil(%s) - floor(%s)" % (L.ka, L.ka), "ok S i:86400"),
                          ("hour(ceil(%s)) + minute(ceil(%s)) + second(ceil(%s)) + hour(floor(%s)) + minute(floor(%s)) + second(floor(%s))"
                           % ((L.ka,) * 6), "ok i:0"),
                          ("ceil(%s) == floor(%s) + 1" % (L.ka, L.ka), "ok i:1")):
            a = canon(run(text))
            note(text, "floor_ceil-law", a)
            if a != exp:
                viol("floor_ceil:law", text, exp, a)

    # ---------------------------------------------------------------- instant ± span
    def span_bounds(q, mag):
        """integers k with |k - q·10^6| <= 0.5 + tolerance.  The tolerance covers the double arithmetic on the
        way: the product 1e6*fracpart (2^-30 us is generous) and, for a Fraction (or an int beyond 2^53) magnitude,
        the conversion float(q.mag) (relative 2^-52)."""
        qus = q * 10**6
        tol = Fraction(1, 2**30)
        if isinstance(mag, Fraction) or (isinstance(mag, int) and abs(mag) >= 2**53):
            tol += abs(qus) / 2**52
        lo, hi = math.ceil(qus - Fraction(1, 2) - tol), math.floor(qus + Fraction(1, 2) + tol)
        return lo, hi

    def do_span(L, qtext, kind):
        Q = quantity(qtext)
        if Q is None or not (Q.qv == T.SECONDS):
            ctx.notes.append("span text did not evaluate to a time quantity: " + qtext)
            return
        try:
            q = Fraction(Q.mag)
        except (ValueError, OverflowError):
            return
        t0 = total_us(L.dt)
        lo, hi = span_bounds(q, Q.mag)
        magc, dimc = num_canon(Q.mag), dim_text(Q.qv)
        for op, tmpl, sign in (("addq", "%s + %s", 1), ("qadd", "%s + %s", 1), ("subq", "%s - %s", -1)):
            text = tmpl % ((qtext, L.ka) if op == "qadd" else (L.ka, qtext))
            res = run(text)
            a = canon(res)
            note(text, "%s:%s" % (op, kind), a)
            cases.append(("inst %s %s %s %s" % (op, key_of(L.dt), magc, dimc), a, text))
            c_lo, c_hi = (t0 + lo, t0 + hi) if sign > 0 else (t0 - hi, t0 - lo)     # admissible results (us since 0001-01-01)
            inr = c_hi >= 0 and c_lo <= MAX_TOTAL            # some admissible result is inside the calendar
            outr = c_lo < 0 or c_hi > MAX_TOTAL              # some admissible result is outside
            want = "I %s q to the microsecond: %s%s" % ("+" if sign > 0 else "-",
                   key_of(from_total(min(max(c_lo, 0), MAX_TOTAL))) if inr else "out of range",
                   "" if c_lo == c_hi or not inr else " .. " + key_of(from_total(min(max(c_hi, 0), MAX_TOTAL))))
            if res[0] == "ok" and isinstance(res[1], T.Instant) and res[1].dt.tzinfo is None:
                got = total_us(res[1].dt)
                if not (c_lo <= got <= c_hi):
                    viol("add_sub:" + op, text, want, a)
            elif is_err(res):
                if not outr:
                    viol("add_sub:" + op, text, want, a)
            else:
                viol("add_sub:" + op, text, "an instant or a diagnosed out-of-range error", a)
        # (I + q) - I == q   and   (I - q) + q == I, through Ka
        text = "(%s + %s) - %s" % (L.ka, qtext, L.ka)
        res = run(text); a = canon(res)
        note(text, "add_sub-law", a)
        inner = run("%s + %s" % (L.ka, qtext))
        if inner[0] == "ok":
            ok = False
            if res[0] == "ok" and isinstance(res[1], T.Quantity) and res[1].qv == T.SECONDS and not isinstance(res[1].mag, bool):
                d = abs(Fraction(res[1].mag) - q)
                ok = d <= Fraction(1, 2 * 10**6) + Fraction(1, 10**6 * 2**30) + abs(q) / 2**50
            if not ok:
                viol("add_sub:plus-then-diff", text, "q = %s s to the microsecond" % (float(q),), a)
        elif not is_err(res):
            viol("add_sub:plus-then-diff", text, "a diagnosed error (I + q is out of range)", a)
        text = "(%s - %s) + %s" % (L.ka, qtext, qtext)
        res = run(text); a = canon(res)
        note(text, "add_sub-law", a)
        inner = run("%s - %s" % (L.ka, qtext))
        if inner[0] == "ok":
            if a != "ok " + key_of(L.dt):
                viol("add_sub:minus-then-plus", text, "ok " + key_of(L.dt), a)
        elif not is_err(res):
            viol("add_sub:minus-then-plus", text, "a diagnosed error (I - q is out of range)", a)

    # ---------------------------------------------------------------- instant ± whole days
    def do_days(L, n):
        t0 = total_us(L.dt)
        for op, text, sign in (("addi", "%s + (%d)" % (L.ka, n), 1), ("iadd", "(%d) + %s" % (n, L.ka), 1),
                               ("subi", "%s - (%d)" % (L.ka, n), -1)):
            res = run(text); a = canon(res)
            note(text, op, a)
            cases.append(("inst %s %s %d" % (op, key_of(L.dt), n), a, text))
            t = t0 + sign * n * US_DAY
            if 0 <= t <= MAX_TOTAL:
                exp = "ok " + key_of(from_total(t))
                if a != exp:
                    viol("days:" + op, text, exp, a)
            elif not is_err(res):
                viol("days:" + op, text, "a diagnosed error (result outside years 1..9999)", a)
        t = t0 + n * US_DAY
        if 0 <= t <= MAX_TOTAL:
            for text, exp in (("(%s + (%d)) - (%d)" % (L.ka, n, n), "ok " + key_of(L.dt)),
                              ("(%s + (%d)) == (%s + ((%d) * 86400) s)" % (L.ka, n, L.ka, n), "ok i:1"),
                              ("(%s + (%d)) == (%s + ((%d) days))" % (L.ka, n, L.ka, n), "ok i:1"),
                              ("(%s + (%d)) - %s" % (L.ka, n, L.ka), "ok S i:%d" % (n * 86400))):
                a = canon(run(text))
                note(text, "days-law", a)
                if a != exp:
                    viol("days:law", text, exp, a)

    # ---------------------------------------------------------------- pairs
    CMP = [("lt", "<", lambda s: s < 0), ("le", "<=", lambda s: s <= 0), ("gt", ">", lambda s: s > 0),
           ("ge", ">=", lambda s: s >= 0), ("eq", "==", lambda s: s == 0), ("ne", "!=", lambda s: s != 0)]

    def do_pair(A, B):
        d = total_us(A.dt) - total_us(B.dt)
        ka, kb = key_of(A.dt), key_of(B.dt)
        t1, t2 = "%s - %s" % (A.ka, B.ka), "%s - %s" % (B.ka, A.ka)
        r1, r2 = run(t1), run(t2)
        a1, a2 = canon(r1), canon(r2)
        note(t1, "diff", a1); note(t2, "diff", a2)
        cases.append(("inst sub %s %s" % (ka, kb), a1, t1))
        cases.append(("inst sub %s %s" % (kb, ka), a2, t2))
        for text, res, a, dd in ((t1, r1, a1, d), (t2, r2, a2, -d)):
            ok = False
            if res[0] == "ok" and isinstance(res[1], T.Quantity) and res[1].qv == T.SECONDS and type(res[1].mag) in (int, float):
                exact = Fraction(dd, 10**6)
                ok = abs(Fraction(res[1].mag) - exact) <= abs(exact) / 2**52
            if not ok:
                viol("diff:elapsed", text, "%s s (elapsed seconds)" % (Fraction(dd, 10**6),), a)
        if r1[0] == "ok" and r2[0] == "ok" and isinstance(r1[1], T.Quantity) and isinstance(r2[1], T.Quantity):
            if r1[1].mag != -r2[1].mag:
                viol("diff:antisymmetry", t1, "-(%s)" % a2, a1)
        for op, sym, pred in CMP:
            text = "%s %s %s" % (A.ka, sym, B.ka)
            res = run(text); a = canon(res)
            note(text, "cmp:" + op, a)
            cases.append(("inst %s %s %s" % (op, ka, kb), a, text))
            exp = "ok i:%d" % (1 if pred(d) else 0)
            if a != exp:
                viol("cmp_sign:" + op, text, exp + " (I - J = %s us)" % d, a)
            # against the sign of Ka's own difference
            if r1[0] == "ok" and isinstance(r1[1], T.Quantity) and res[0] == "ok" and type(res[1]) is int:
                m = r1[1].mag
                s = (m > 0) - (m < 0)
                if res[1] != (1 if pred(s) else 0):
                    viol("cmp_sign:" + op, text, "agreement with the sign of %s = %r" % (t1, m), a)
        # the six REGISTERED comparisons, called through dispatch: the parser rewrites `a > b` / `a >= b` into
        # `b < a` / `b <= a`, so the text above never reaches the functions registered under ">" and ">=".
        ia, ib = run(A.ka), run(B.ka)
        if ia[0] == "ok" and ib[0] == "ok":
            for op, sym, pred in CMP:
                try:
                    with core.alarm(5):
                        res = ("ok", R.functions.dispatch(sym, [ia[1], ib[1]]))
                except BaseException as e:  # noqa
                    if isinstance(e, (KeyboardInterrupt, SystemExit)):
                        raise
                    res = ("err", core.err_code(e))
                a = canon(res)
                text = "dispatch(%r, [%s, %s])" % (sym, A.ka, B.ka)
                note(text, "cmp-registered:" + op, a)
                cases.append(("inst %s %s %s" % (op, ka, kb), a, text))
                exp = "ok i:%d" % (1 if pred(d) else 0)
                if a != exp:
                    ctx.violation("cmp_sign:registered-" + op, text, exp + " (I - J = %s us)" % d, a,
                                  "PYTHONPATH=/repo/src HOME=<empty dir> python -c \"from ka.functions import dispatch; "
                                  "from ka.types import instant_from_iso as i; print(dispatch(%r, [i(%r), i(%r)]))\"" % (sym, A.text, B.text))

    # ---------------------------------------------------------------- non-time quantities
    def do_non_time(L, qtext):
        # qtext comes from NON_TIME: not a time span BY CONSTRUCTION (never ask the code under test what the operand is —
        # a result-simplification that turns a dimensionless quantity into a plain number would hide exactly these cases)
        Q = quantity(qtext)
        if Q is not None and Q.qv == T.SECONDS:
            return
        magc, dimc = (num_canon(Q.mag), dim_text(Q.qv)) if Q is not None else (None, None)
        for op, text in (("addq", "%s + %s" % (L.ka, qtext)), ("qadd", "%s + %s" % (qtext, L.ka)),
                         ("subq", "%s - %s" % (L.ka, qtext))):
            res = run(text); a = canon(res)
            note(text, "non-time", a)
            if not is_err(res):
                viol("non_time:" + op, text, "rejected with an error", a)
            if magc is not None:
                cases.append(("inst %s %s %s %s" % (op, key_of(L.dt), magc, dimc), a, text))

    # ================================================================ corpus (hand-picked, run first)
    corpus = [lit_of(2020, 1, 31, 10, 0, 0, 0, "10:00:00"), lit_of(2020, 2, 29), lit_of(2019, 2, 28), lit_of(1900, 2, 28),
              lit_of(2000, 2, 29), lit_of(2100, 2, 28), lit_of(2020, 12, 31, 23, 59, 59, 999999, "23:59:59.999999"),
              lit_of(1, 1, 1), lit_of(9999, 12, 31, 23, 59, 59, 999999, "23:59:59.999999"), lit_of(9999, 12, 31),
              lit_of(9999, 12, 30, 12, 0, 0, 0, "12:00"), lit_of(2020, 1, 1, short="y"), lit_of(2020, 2, 1, short="ym"),
              lit_of(1, 1, 1, short="y"), lit_of(9999, 12, 1, short="ym"), lit_of(2020, 4, 30, 0, 0, 0, 1, "00:00:00.000001", sep=" "),
              lit_of(2024, 2, 29, 12, 30, 0, 0, "12:30"), lit_of(400, 2, 29), lit_of(100, 3, 1), lit_of(2, 1, 1)]
    for L in corpus:
        do_literal(L); do_fields(L); do_floor_ceil(L)
    for L, qt, kind in ((corpus[0], "(90 min)", "int"), (corpus[0], "(1 ms)", "frac"), (corpus[0], "((1/3) s)", "frac"),
                        (corpus[0], "(1.5 ms)", "float"), (corpus[0], "((-1/2) μs)", "frac"), (corpus[0], "(0.0000005 s)", "float"),
                        (corpus[0], "(0.0000015 s)", "float"), (corpus[0], "(0.0000025 s)", "float"), (corpus[7], "((-1) μs)", "frac"),
                        (corpus[8], "(1 μs)", "frac"), (corpus[8], "(0.4 μs)", "float"), (corpus[1], "(1 fortnights)", "int"),
                        (corpus[1], "((10^20) s)", "int"), (corpus[1], "((10^400) s)", "int"), (corpus[1], "(1e300 s)", "float"),
                        (corpus[1], "(315537897599 s)", "int"), (corpus[7], "(315537897599 s)", "int"),
                        (corpus[7], "(315537897600 s)", "int"), (corpus[7], "((946613692799999999/3) μs)", "frac")):
        do_span(L, qt, kind)
    for L, n in ((corpus[0], 1), (corpus[1], 366), (corpus[1], -60), (corpus[7], -1), (corpus[7], 3652058), (corpus[7], 3652059),
                 (corpus[8], 1), (corpus[8], -3652058), (corpus[0], 10**9), (corpus[0], 10**30), (corpus[0], 0)):
        do_days(L, n)
    do_pair(corpus[0], corpus[0]); do_pair(corpus[7], corpus[8]); do_pair(corpus[11], lit_of(2020, 1, 1, 0, 0, 0, 0, "00:00"))
    do_pair(corpus[12], lit_of(2020, 1, 1, short="ym"))
    for qt in NON_TIME:
        do_non_time(corpus[0], qt)
    for t in ["2020-02-30", "2019-02-29", "0000-01-01", "2020-13", "2020-00-10", "2020-01-01T24:00", "2020-01-01T10:60",
              "2020-01-01 10:00:60", "2020-01-01T10:00:00."]:
        do_bad_literal(t)

    # ================================================================ generated
    n = ctx.n(600, 6000)
    for i in range(n):
        L = gen_lit(rng)
        do_literal(L)
        if i % 3 == 0:
            do_fields(L)
        else:
            do_fields(L, ops=(rng.choice(["year", "month", "day"]), rng.choice(["hour", "minute", "second"])))
        do_floor_ceil(L, light=(i % 4 != 0))
        qt, kind = gen_span(rng)
        do_span(L, qt, kind)
        do_days(L, gen_days(rng, L.dt))
        do_pair(L, gen_partner(rng, L))
        if i % 5 == 0:
            do_non_time(L, rng.choice(NON_TIME))
        if i % 6 == 0:
            do_bad_literal(gen_bad_lit(rng))
        ctx.sample(dict(literal=L.ka, span=qt))

    # ================================================================ thorough sweeps
    if not ctx.quick():
        sweep = 0
        d = _dt.date(1896, 1, 1)
        end = _dt.date(2105, 1, 1)
        while d < end:
            h, mi, s, us, tt = gen_time(rng)
            L = lit_of(d.year, d.month, d.day, h, mi, s, us, tt)
            do_floor_ceil(L, light=True)
            do_fields(L, ops=("year", "month", "day", rng.choice(["hour", "minute", "second"])))
            d += _dt.timedelta(days=1)
            sweep += 1
        for y in range(1, 10000):
            for m in range(1, 13):
                h, mi, s, us, tt = gen_time(rng)
                L = lit_of(y, m, dim(y, m), h, mi, s, us, tt)
                do_floor_ceil(L, light=True)
                if m == 2 or m == 12:
                    do_fields(L, ops=("year", "month", "day"))
                sweep += 1
        ctx.cov["sweep_dates"] = sweep

    # ================================================================ CPython assumption: timedelta(seconds=float)
    span_cases = []
    m = ctx.n(1500, 40000)

    def td_us(x):
        try:
            with core.alarm(5):
                t = _dt.timedelta(seconds=x)
            return "ok us %d" % ((t.days * 86400 + t.seconds) * 10**6 + t.microseconds)
        except OverflowError:
            return "err overflow"
        except ValueError:
            return "err py:ValueError"
    specials = [0.5e-6, 1.5e-6, 2.5e-6, -0.5e-6, -1.5e-6, -2.5e-6, 0.0, -0.0, 1e-7, 4.9999999e-7, 5e-324, 1e15 + 0.5,
                2.0**52 + 0.5, 2.0**33 + 2.0**-20, 86399999999999.0, 8.64e13, 8.64e13 + 1, -8.64e13, 1e300, float("inf"),
                float("-inf"), float("nan"), 0.1, 0.2, 0.3, 1 / 3, 2 / 3, 1e-6, 1e-3, 0.001, 0.0015]
    vals = list(specials)
    while len(vals) < m:
        k = rng.random()
        if k < 0.2: x = rng.uniform(-10, 10)
        elif k < 0.4: x = rng.randrange(-10**7, 10**7) / 10**6 + rng.choice([0, 5e-7, -5e-7, 1.5e-6])
        elif k < 0.6: x = (rng.randrange(-10**12, 10**12) * 2 + 1) / 2e6
        elif k < 0.7: x = Fraction(rng.randrange(-10**9, 10**9), rng.randrange(1, 10**6))
        elif k < 0.8: x = rng.uniform(-1, 1) * 10.0**rng.randrange(-12, 16)
        elif k < 0.9: x = struct.unpack("<d", struct.pack("<Q", rng.getrandbits(64)))[0]
        else: x = rng.randrange(-10**15, 10**15)
        vals.append(x)
    for x in vals:
        try:
            fx = float(x)
            a = td_us(fx)
        except OverflowError:
            a = "err overflow"
        ctx.count("span:" + repr(x), nontrivial=True, bucket="cpython-timedelta/" + a.split(" ")[0])
        span_cases.append(("inst span " + num_canon(x), a, repr(x)))

    # ================================================================ known finding: aware vs naive instants
    for text in ("#2020-01-01T10:00:00+01:00# < #2020-01-01#", "#2020-01-01# - #2020-01-01T10:00+00:00#"):
        res = run(text)
        ctx.count(text, nontrivial=True, bucket="aware-vs-naive/" + res[0])
        if not (res[0] == "ok" or is_err(res)):
            ctx.violation("aware-vs-naive", text, "a value or a diagnosed error", canon(res), HOW % text)

    # ================================================================ display (execute level)
    shown = 0
    for L in corpus[:12]:
        text = "%s + 0 s" % L.ka
        r = R.execute(text)
        exp = L.dt.isoformat()
        ctx.count("exec:" + text, nontrivial=True, bucket="execute")
        if r["escaped"] or r["status"] != 0 or r["out"].strip() != exp:
            ctx.violation("display:instant", text, exp, str((r["status"], r["escaped"], r["out"].strip(), r["err"][:80])), HOW % text)
        shown += 1
    ctx.cov["execute_level_cases"] = shown

    # ================================================================ model correspondence
    ctx.correspond("inst", cases, agree=agree, describe=lambda i: i)
    ctx.correspond("inst-span", span_cases, agree=agree, describe=lambda i: i)


def replay(ctx, data):
    """./check C17 --replay <file>: re-run the recorded failing input on the real code.
    Exit 1 while the recorded (wrong) answer is still produced, 0 once it is gone."""
    import re
    R = ctx.real
    canon = make_canon(R)
    v = data.get("first") or {}
    text = v.get("input")
    if not isinstance(text, str):
        print("replay: nothing to re-run (broken obligation, no failing input): %s" % data.get("no_longer_checks"))
        return 1
    m = re.match(r"dispatch\('([^']+)', \[#([^#]*)#, #([^#]*)#\]\)$", text)
    if m:
        try:
            with core.alarm(5):
                res = ("ok", R.functions.dispatch(m.group(1), [R.types.instant_from_iso(m.group(2)),
                                                                R.types.instant_from_iso(m.group(3))]))
        except BaseException as e:  # noqa
            res = ("err", core.err_code(e))
    else:
        res = R.value(text)
    got = canon(res)
    print("replay input:    %s" % text)
    print("replay expected: %s" % v.get("expected"))
    print("replay recorded: %s" % v.get("actual"))
    print("replay now:      %s" % got)
    still = got == v.get("actual")
    if still:
        print("VIOLATION property=C17 replay reproduces")
    return 1 if still else 0



def check(ctx):
    _check_main(ctx)
    # shared oracle: operators return new values, operands bound to variables are never updated in place
    import alias_common
    alias_common.run(ctx, prefix="alias")


# ---- refinement lemmas of the unified pipeline model for this property (Props/Pipeline3.lean): the fragment this check's
# theorems are about IS what the whole-program model computes on instant / probability expressions
import pipeline as _pl3
LEAN_MODULES = LEAN_MODULES + [m for m in _pl3.LEAN_MODULES3 if m not in LEAN_MODULES]
THEOREMS = THEOREMS + [t for t in _pl3.THEOREMS3.get(ID, []) if t not in THEOREMS]
GEN = GEN + [g for g in _pl3.GEN3 if g not in GEN]
