"""C08 — event probabilities equal the distribution's mass on the condition as written."""
import math, json, itertools
from fractions import Fraction
import core

ID = "C08"
LEAN_MODULES = ["KaVerif.Props.C08"]
GEN = ["ProbTable"]
THEOREMS = ["KaVerif.C08_single_upper", "KaVerif.C08_single_lower", "KaVerif.C08_single_eq",
            "KaVerif.C08_single_eq_rejected", "KaVerif.C08_double", "KaVerif.C08_double_mixed_rejected",
            "KaVerif.C08_single_closed_form", "KaVerif.C08_single_finite", "KaVerif.C08_eq_double_finite",
            "KaVerif.C08_single_cont", "KaVerif.C08_double_cont", "KaVerif.C08_double_cont_ordered",
            "KaVerif.C08_rows_range_disc", "KaVerif.C08_rows_range_cont", "KaVerif.C08_range",
            "KaVerif.C08_complement", "KaVerif.C08_dist_law", "KaVerif.C08_dist_finite",
            "KaVerif.C08_geometric_cdf", "KaVerif.C08_choose_factorial", "KaVerif.C08_dist_events",
            "KaVerif.C08_dist_range", "KaVerif.C08_mean", "KaVerif.C08_invalid_params_rejected",
            "KaVerif.C08_cdf_props"]
RULE = ("5 discrete + 3 continuous distributions x parameter grids (p in {0,1} where valid, n=1, lo=hi, float and "
        "rational parameters) x thresholds {support-3 .. support+3, k+1/2, k+1/3, 7/2-style fractions, negative "
        "non-integers, large} x the 8 single forms (4 operators x 2 sides), X = k, and the 8 double forms (both "
        "directions) plus the rejected forms, written as Ka TEXT (inline distribution and through a variable) and run "
        "through tokenise/parse/eval; each value is compared (a) with the Lean model (generated decision table + "
        "hand-written pmf/cdf, exact rational arithmetic) and (b) by the oracle with the brute-force sum of the REAL "
        "pmf over the integers satisfying the condition as written (continuous: independent reference CDFs); "
        "non-trivial = the event has probability strictly between 0 and 1; distinct = distinct (distribution, "
        "parameters, form, thresholds)")
ASSUMPTIONS = ["floats are modelled by their exact rational value and real arithmetic; agreement is checked to 1e-9",
               "Poisson: the model's constant E is instantiated with the double math.exp(-mu)",
               "exp / erf / sqrt(2) of the continuous distributions are abstract in the theorems; the oracle uses libm"]
LEVEL_TEXT = ("Machine-checked proof (Lean 4). The decision table of eval_probability / DoubleEvent.probability (which cdf/pmf "
              "call, with which floor / ceil / -1 adjustment, for which operator, side and kind of variable), the parser's "
              "rewriting of > / >= chains and the registered event constructors are re-extracted from the live code on every run "
              "by symbolic execution on recording stubs (Gen/ProbTable.lean). Over that generated table it is proved, for ANY "
              "discrete law (pmf with a lower bound, cdf = partial sums) and ANY rational thresholds, that every single form "
              "(4 operators x 2 sides, and X = k) and every double form (8, both directions) evaluates to the sum of the pmf over "
              "exactly the integers satisfying the condition as written (complements: 1 - the mass of the negation; with finite "
              "support and total mass 1: the mass of the condition); continuous variables: F t / 1 - F t / max(F b - F a, 0). "
              "Range [0,1] is proved for every chain the pipeline accepts, complement pairs sum to exactly 1. For each "
              "distribution it is proved that the code's cdf is the partial sum of its pmf for every integer, pmf >= 0, total mass 1 "
              "(Binomial via utils.choose = binomial coefficient and the binomial theorem, Geometric via the finite geometric "
              "sum, Bernoulli, UniformInt; Poisson up to the constant exp(-mu)), the means, and the parameter domains. The "
              "hand-written pmf/cdf formulas are tied to the code by differential correspondence in exact rational arithmetic.")
LEVEL_NOTE = ("Not proved: Poisson's total mass (needs the exponential series; E = exp(-mu) is an abstract constant), the limit "
              "statements for the Geometric mean (the exact tail term is proved), properties of libm's exp/erf (hypotheses of "
              "C08_cdf_props), IEEE rounding. Trusted: the symbolic extractor translate/gen_prob.py.")
TECHNIQUE = "Lean 4: symbolic-execution-generated decision table + generic theorems over any discrete law; exact differential correspondence; brute-force pmf oracle"

OPW = {"<": "lt", "<=": "le", ">": "gt", ">=": "ge", "=": "eq"}
TOL = 1e-9


# ------------------------------------------------------------------------------------------------
# numbers <-> Ka text / canonical text
# ------------------------------------------------------------------------------------------------
def ktext(v):
    """Ka source text of a number (int, Fraction, float)."""
    if isinstance(v, Fraction):
        if v.denominator == 1:
            return ktext(v.numerator)
        s = "%d/%d" % (abs(v.numerator), v.denominator)
        return "(-%s)" % s if v < 0 else "(%s)" % s
    if isinstance(v, float):
        s = repr(abs(v))
        if "inf" in s or "nan" in s:
            raise ValueError(v)
        if "e" in s:                      # positional spelling of the shortest repr (a Ka literal `1e-7` would be an exact fraction)
            from decimal import Decimal
            s = format(Decimal(s), "f")
            if "." not in s:
                s += ".0"
            assert float(s) == abs(v)
        return "(-%s)" % s if v < 0 else s
    return "(-%d)" % -v if v < 0 else str(v)


def canon(v):
    """canonical number as Ka delivers it: an integral Fraction/float is an int."""
    if isinstance(v, Fraction) and v.denominator == 1:
        return core.num_canon(v.numerator)
    if isinstance(v, float) and v == int(v):
        return core.num_canon(int(v))
    return core.num_canon(v)


def exact(v):
    return Fraction(v)


def is_exact(v):
    return isinstance(v, (int, Fraction)) and not isinstance(v, bool)


# ------------------------------------------------------------------------------------------------
# the distributions of the grid
# ------------------------------------------------------------------------------------------------
class D:
    def __init__(self, kind, params, disc):
        self.kind, self.params, self.disc = kind, params, disc

    def text(self):
        return "%s(%s)" % (self.kind, ", ".join(ktext(p) for p in self.params))

    def key(self):
        return "%s(%s)" % (self.kind, ",".join(str(p) for p in self.params))

    def exact(self):
        """results are exact rationals in the real code (so the comparison is exact)"""
        return self.kind in ("Binomial", "Geometric", "Bernoulli") and all(is_exact(p) for p in self.params)

    def spec(self):
        """request prefix for the model driver"""
        ps = [canon(p) for p in self.params]
        if self.kind == "Poisson":
            ps.append(core.num_canon(Fraction(math.exp(-self.params[0]))))
        return "%s %s" % (self.kind.lower(), " ".join(ps))

    def real(self, P):
        return getattr(P, self.kind)(*self.params)

    def support(self):
        """(lo, hi or None)"""
        k, p = self.kind, self.params
        if k == "Binomial":
            return 0, p[0]
        if k == "Poisson":
            return 0, None
        if k == "Geometric":
            return 1, None
        if k == "Bernoulli":
            return 0, 1
        if k == "UniformInt":
            return p[0], p[1]

    def window(self):
        """integers carrying all mass but a tail < 1e-13"""
        lo, hi = self.support()
        if hi is not None:
            return lo - 4, hi + 4
        if self.kind == "Poisson":
            mu = self.params[0]
            return -4, int(mu + 12 * math.sqrt(mu) + 40)
        p = float(self.params[0])
        if p >= 1:
            return -3, 6
        return -3, int(math.log(1e-14) / math.log(1 - p)) + 6

    def mean(self):
        k, p = self.kind, self.params
        if k == "Binomial":
            return exact(p[0]) * exact(p[1])
        if k in ("Poisson", "Gaussian"):
            return exact(p[0])
        if k in ("Geometric", "Exponential"):
            return 1 / exact(p[0])
        if k == "Bernoulli":
            return exact(p[0])
        return (exact(p[0]) + exact(p[1])) / 2

    def ref_pmf(self, k):
        """independent textbook probability mass (exact Fraction; Poisson as a float through lgamma)"""
        kd, p = self.kind, self.params
        lo, hi = self.support()
        if k < lo or (hi is not None and k > hi):
            return Fraction(0)
        if kd == "Binomial":
            n, q = p[0], exact(p[1])
            return math.comb(n, k) * q ** k * (1 - q) ** (n - k)
        if kd == "Geometric":
            q = exact(p[0])
            return (1 - q) ** (k - 1) * q
        if kd == "Bernoulli":
            q = exact(p[0])
            return q if k == 1 else 1 - q
        if kd == "UniformInt":
            return Fraction(1, p[1] - p[0] + 1)
        mu = float(p[0])
        return math.exp(k * math.log(mu) - mu - math.lgamma(k + 1))

    def ref_cdf(self, x):
        """independent reference distribution function (continuous)"""
        k, p = self.kind, self.params
        x = float(x)
        if k == "Uniform":
            lo, hi = float(p[0]), float(p[1])
            if x < lo:
                return 0.0
            if x >= hi:
                return 1.0
            return (x - lo) / (hi - lo)
        if k == "Exponential":
            return 0.0 if x < 0 else -math.expm1(-float(p[0]) * x)
        if k == "Gaussian":
            return 0.5 * math.erfc(-(x - float(p[0])) / (float(p[1]) * math.sqrt(2.0)))


def F(a, b):
    return Fraction(a, b)


def grid(ctx):
    g = []
    thorough = not ctx.quick()
    for n in [1, 2, 5, 10, 23] + ([40, 60] if thorough else []):
        for p in [0, 1, F(1, 2), F(3, 10), F(1, 3), F(99, 100), 0.3, 0.75] + ([F(2, 7), 0.999, 1e-3] if thorough else []):
            g.append(D("Binomial", (n, p), True))
    # float parameters that are tiny, next to 1, or not a multiple of 1e-6 (a "rationalised" p is a different distribution)
    for n, p in [(2, 1e-7), (23, 7e-7), (23, 0.9999999), (5, 0.00000033)] + ([(60, 1e-9), (40, 1 - 1e-12)] if thorough else []):
        g.append(D("Binomial", (n, p), True))
    g.append(D("Bernoulli", (1e-7,), True))
    for mu in [1, 3, 10, 25] + ([2, 60, 100] if thorough else []):
        g.append(D("Poisson", (mu,), True))
    for p in [1, F(1, 2), F(1, 3), F(9, 10), F(1, 10), 0.25, 0.7] + ([F(1, 40), 0.05] if thorough else []):
        g.append(D("Geometric", (p,), True))
    for p in [0, 1, F(1, 3), F(1, 2), 0.3] + ([F(7, 9), 0.999] if thorough else []):
        g.append(D("Bernoulli", (p,), True))
    for lo, hi in [(1, 10), (0, 0), (3, 3), (-5, 4), (-3, -3), (2, 3), (-10, -4), (1, 6)] + ([(0, 100), (-1, 0)] if thorough else []):
        g.append(D("UniformInt", (lo, hi), True))
    for lo, hi in [(0, 10), (1, 1), (-2.5, 3), (F(1, 3), F(7, 2)), (-4, -1)]:
        g.append(D("Uniform", (lo, hi), False))
    for lam in [1, 2, F(1, 2), 0.1, 7]:
        g.append(D("Exponential", (lam,), False))
    for mu, sd in [(0, 1), (1.5, 2), (-3, F(1, 2)), (10, 0.01), (F(1, 3), 3)]:
        g.append(D("Gaussian", (mu, sd), False))
    return g


def thresholds(d, rng, ctx):
    """support - 3 .. support + 3 (all integers for small supports), non-integers, large"""
    if d.disc:
        lo, hi = d.support()
        top = hi if hi is not None else int(float(d.mean()) * 2 + 6)
        ints = list(range(lo - 3, min(top, lo + 14) + 1)) + list(range(max(top - 3, lo + 15), top + 4))
        ints = sorted(set(ints))
        if len(ints) > 26:
            ints = sorted(set(ints[:8] + ints[-8:] + rng.sample(ints[8:-8], 8)))
        nonint = []
        for k in rng.sample(ints, min(5, len(ints))):
            nonint += [k + 0.5, F(2 * k + 1, 2), k + F(1, 3), k - F(1, 7)]
        nonint += [2.5, F(7, 2), -2.5, F(-1, 2), 0.999999, lo - 0.25, top + 0.75]
        nonint = rng.sample(nonint, min(len(nonint), ctx.n(9, 20)))
        # thresholds a hair away from an integer of the support, as FLOATS: `t - 1` or `t + 1` in float arithmetic absorbs them
        nonint += rng.sample([1e-20, 5e-17, -1e-20, 2.0 ** -70, lo + 1e-20 if lo == 0 else lo - 1e-13, lo + 1 - 1e-16, 4.9e-324], 3)
        loops = d.kind in ("Binomial", "Poisson", "Geometric")   # the exact model (and Fraction powers) need moderate exponents
        large = [300, 299.5, -1000] if loops else [10 ** 12, 1e15, -10 ** 9, F(10 ** 12 + 1, 2)]
        return ints, nonint, large
    m = float(d.mean())
    if d.kind == "Uniform":
        lo, hi = float(d.params[0]), float(d.params[1])
        pts = [lo - 1, lo, (lo + hi) / 2, hi, hi + 1, lo + (hi - lo) / 4, F(7, 2), 2.5, 0, -3]
    elif d.kind == "Exponential":
        pts = [-1, 0, m / 2, m, 2 * m, 10 * m, F(1, 3), 2.5, 40 * m, 3]
    else:
        sd = float(d.params[1])
        pts = [m - 3 * sd, m - sd, m, m + sd / 2, m + 2 * sd, m + 6 * sd, m - 8 * sd, F(7, 2), 0, int(m) + 1]
    pts = [p if not isinstance(p, float) or p != int(p) else int(p) for p in pts]
    return [], pts, [10 ** 9, -10 ** 9]


# ------------------------------------------------------------------------------------------------
# the written condition
# ------------------------------------------------------------------------------------------------
PYOP = {"<": lambda a, b: a < b, "<=": lambda a, b: a <= b, ">": lambda a, b: a > b, ">=": lambda a, b: a >= b,
        "=": lambda a, b: a == b}


def holds(terms, ops, k):
    """the chain as written with X := k (exact comparisons: int vs Fraction/float are exact in Python)"""
    vals = [k if t == "X" else t for t in terms]
    return all(PYOP[o](vals[i], vals[i + 1]) for i, o in enumerate(ops))


def chain_text(terms, ops, xtext):
    out = [xtext if terms[0] == "X" else ktext(terms[0])]
    for o, t in zip(ops, terms[1:]):
        out += [o, xtext if t == "X" else ktext(t)]
    return " ".join(out)


def chain_req(terms, ops):
    out = ["X" if terms[0] == "X" else canon(terms[0])]
    for o, t in zip(ops, terms[1:]):
        out += [OPW[o], "X" if t == "X" else canon(t)]
    return " ".join(out)


def expected_kind(terms, ops):
    """what the registry/parser accept: 'num' | 'nomatch' | 'unknownfn'"""
    if len(ops) == 1:
        o = ops[0]
        if o == "=":
            t = terms[1]
            if terms[0] == "X" and (isinstance(t, int) or (not isinstance(t, int) and t == int(t))):
                return "num"
            return "nomatch"
        return "num"
    fw = [o in ("<", "<=") for o in ops]
    bw = [o in (">", ">=") for o in ops]
    if all(fw) or all(bw):
        return "num"
    return "unknownfn"


# ------------------------------------------------------------------------------------------------
def check(ctx):
    R = ctx.real
    rng = ctx.rng
    import ka.probability as P
    cases = []          # (request, real answer, info)
    pend = []           # deferred per-case info for the oracle, filled while running the real code

    def run(text):
        return R.value(text, env=None, timeout=20.0)

    def real_answer(r):
        if r[0] == "ok":
            c = core.num_canon(r[1])
            return ("ok " + c) if c else "ok ?" + type(r[1]).__name__
        return "err " + r[1]

    dists = grid(ctx)
    npairs = ctx.n(28, 80)

    for d in dists:
        dk = d.key()
        rv = None
        try:
            with core.alarm(10):
                rv = d.real(P)
        except BaseException as e:  # noqa
            if isinstance(e, (KeyboardInterrupt, SystemExit)):
                raise
            ctx.violation("valid-rejected:%s" % d.kind, d.text(), "a distribution", "raised " + core.err_code(e),
                          "ka.probability.%s(%s)" % (d.kind, ", ".join(map(repr, d.params))))
            continue
        ints, nonint, large = thresholds(d, rng, ctx)
        ths = ints + nonint + large
        exact_d = d.exact()
        tol_exact = exact_d

        # ---------------- (1) distribution layer on the real pmf / cdf (discrete) ----------------
        if d.disc:
            wlo, whi = d.window()
            lo, hi = d.support()
            crashed = None
            pm = {}
            try:
                with core.alarm(60):
                    for k in range(wlo, whi + 1):
                        crashed = "pmf(%d)" % k
                        pm[k] = rv.pmf(k)
                        crashed = "cdf(%d)" % k
                        rv.cdf(k)
                    crashed = None
            except BaseException as e:  # noqa
                if isinstance(e, (KeyboardInterrupt, SystemExit)):
                    raise
                ctx.violation("pmf-cdf-raises:%s" % d.kind, "%s.%s" % (d.text(), crashed), "a number", "raised " + core.err_code(e),
                              "ka.probability.%s(%s).%s" % (d.kind, ", ".join(map(repr, d.params)), crashed))
                continue
            with core.alarm(60):
                acc = 0
                for k in range(wlo, whi + 1):
                    acc = acc + pm[k]
                    c = rv.cdf(k)
                    ctx.count("cdf:%s:%d" % (dk, k), nontrivial=(0 < c < 1), bucket="cdf-vs-sum-of-pmf")
                    bad = (c != acc) if exact_d else abs(float(c) - float(acc)) > TOL
                    if bad:
                        ctx.violation("cdf-sum:%s" % d.kind, "%s.cdf(%d)" % (d.text(), k), "sum of pmf(j), j <= %d = %r" % (k, acc),
                                      repr(c), "ka.probability.%s(%s).cdf(%d) vs sum of .pmf" % (d.kind, ", ".join(map(repr, d.params)), k))
                    want_pm = d.ref_pmf(k)
                    if (pm[k] != want_pm) if (exact_d and d.kind != "Poisson") else abs(float(pm[k]) - float(want_pm)) > TOL + 1e-9 * float(want_pm):
                        ctx.violation("pmf-value:%s" % d.kind, "%s.pmf(%d)" % (d.text(), k), "the textbook mass %r" % (float(want_pm),), repr(pm[k]),
                                      "ka.probability.%s(%s).pmf(%d)" % (d.kind, ", ".join(map(repr, d.params)), k))
                    if pm[k] < 0 or (k < lo and pm[k] != 0) or (hi is not None and k > hi and pm[k] != 0):
                        ctx.violation("pmf-support:%s" % d.kind, "%s.pmf(%d)" % (d.text(), k), "0 outside the support, >= 0 inside",
                                      repr(pm[k]), "ka.probability pmf")
                    if k % 3 == 0 or abs(k - lo) < 4 or (hi is not None and abs(k - hi) < 4):
                        cases.append(("prob %s | pmf %s" % (d.spec(), canon(k)), "ok " + core.num_canon(pm[k]), ("pmf", d, k)))
                        cases.append(("prob %s | cdf %s" % (d.spec(), canon(k)), "ok " + core.num_canon(c), ("cdf", d, k)))
            total = sum(pm.values())
            if (total != 1) if (exact_d and hi is not None) else abs(float(total) - 1) > 1e-9:
                ctx.violation("total-mass:%s" % d.kind, d.text(), "total mass 1", repr(total), "sum of pmf over %d..%d" % (wlo, whi))

        # ---------------- mean ----------------
        for fn in ("E", "mean"):
            t = "%s(%s)" % (fn, d.text())
            r = run(t)
            ctx.count("mean:%s:%s" % (fn, dk), bucket="mean")
            m = d.mean()
            ok = r[0] == "ok" and ((Fraction(r[1]) == m) if (is_exact(r[1]) and all(is_exact(p) for p in d.params) and d.kind not in ("UniformInt", "Uniform", "Exponential"))
                                   else abs(float(r[1]) - float(m)) <= TOL * max(1.0, abs(float(m))))
            if not ok:
                ctx.violation("mean:%s" % d.kind, t, "textbook mean %s" % m, repr(r), "ctx.real.value(%r)" % t)
            cases.append(("prob %s | mean" % d.spec(), real_answer(r), ("mean", d, None)))

        # ---------------- events ----------------
        def event(terms, ops, via_var):
            xt = "X" if via_var else d.text()
            text = ("X = %s; " % d.text() if via_var else "") + "P(%s)" % chain_text(terms, ops, xt)
            r = run(text)
            kind = expected_kind(terms, ops)
            form = "%s|%s" % (" ".join(ops), "".join("X" if t == "X" else "t" for t in terms))
            key = "%s:%s:%s" % (dk, form, ",".join(str(t) for t in terms if t != "X"))
            val = None
            if kind != "num":
                ctx.count(key, nontrivial=False, bucket="rejected:" + kind)
                if r[0] == "ok":
                    # the property does not forbid a number here, but the model says there is none
                    pass
            else:
                # ---- oracle
                if d.disc:
                    wlo, whi = d.window()
                    if exact_d and d.support()[1] is not None:
                        exp = sum((pm[k] for k in range(wlo, whi + 1) if holds(terms, ops, k)), Fraction(0))
                    else:
                        exp = math.fsum(float(pm[k]) for k in range(wlo, whi + 1) if holds(terms, ops, k))
                else:
                    nums = [t for t in terms if t != "X"]
                    if len(ops) == 1:
                        upper = (ops[0] in ("<", "<=")) == (terms[0] == "X")
                        exp = d.ref_cdf(nums[0]) if upper else 1.0 - d.ref_cdf(nums[0])
                    else:
                        a, b = (nums[0], nums[1]) if ops[0] in ("<", "<=") else (nums[1], nums[0])
                        exp = max(d.ref_cdf(b) - d.ref_cdf(a), 0.0)
                if d.kind == "Poisson" and r == ("err", "overflow"):
                    # mu**x, x! or their ratio left the float range although the probability itself is representable
                    ctx.violation("poisson-float-range", text, "%.12g" % float(exp), repr(r), "ctx.real.value(%r)" % text)
                    return None
                if r[0] != "ok" or core.num_canon(r[1]) is None or isinstance(r[1], bool):
                    ctx.violation("event-value:%s" % d.kind, text, "probability %r" % (exp,), repr(r), "ctx.real.value(%r)" % text)
                else:
                    val = r[1]
                    if isinstance(exp, Fraction):
                        good = is_exact(val) and Fraction(val) == exp
                    else:
                        good = abs(float(val) - float(exp)) <= TOL
                    if not good:
                        ctx.violation("event-value:%s" % d.kind, text,
                                      "sum of the real pmf over the integers satisfying the condition as written = %r" % (exp,)
                                      if d.disc else "reference CDF value %r" % (exp,),
                                      repr(val), "ctx.real.value(%r)" % text)
                    slack = 0 if is_exact(val) else 1e-12
                    if not (-slack <= val <= 1 + slack):
                        ctx.violation("event-range:%s" % d.kind, text, "a probability in [0, 1]", repr(val), "ctx.real.value(%r)" % text)
                    ctx.count(key, nontrivial=(0 < float(exp) < 1), bucket="%s:%s" % ("disc" if d.disc else "cont", form))
                    if 0 < float(exp) < 1:
                        ctx.sample(dict(text=text, value=str(val), oracle=str(exp)))
            if d.disc or d.kind == "Uniform":
                cases.append(("prob %s | ev %s" % (d.spec(), chain_req(terms, ops)), real_answer(r), ("ev", d, text)))
            return val

        # singles: every threshold x 4 operators x 2 sides; complement pairs
        for t in ths:
            via = rng.random() < 0.35
            got = {}
            for op in ("<", "<=", ">", ">="):
                got[(op, True)] = event(["X", t], [op], via)
                got[(op, False)] = event([t, "X"], [op], via)
            for side in (True, False):
                for o1, o2 in (("<", ">="), ("<=", ">")):
                    a, b = got[(o1, side)], got[(o2, side)]
                    if a is None or b is None:
                        continue
                    s = a + b
                    if (s != 1) if (is_exact(a) and is_exact(b)) else abs(float(s) - 1) > 1e-12:
                        ctx.violation("complement:%s" % d.kind,
                                      "%s: P(%s) + P(%s)" % (d.text(), chain_text(["X", t] if side else [t, "X"], [o1], "X"),
                                                             chain_text(["X", t] if side else [t, "X"], [o2], "X")),
                                      "1", repr(s), "ctx.real.value on both events")
            if d.disc:
                event(["X", t], ["="], via)
                if isinstance(t, int) and rng.random() < 0.3:
                    event([t, "X"], ["="], via)
        # doubles: pairs of thresholds x 8 accepted forms (+ some mixed forms)
        pool = ths
        pairs = [(rng.choice(pool), rng.choice(pool)) for _ in range(npairs)]
        if d.disc and ints:
            pairs += [(k, k) for k in rng.sample(ints, min(3, len(ints)))] + [(k, k + 1) for k in rng.sample(ints, min(3, len(ints)))]
        for a, b in pairs:
            via = rng.random() < 0.5
            forms = [(o1, o2) for o1 in ("<", "<=") for o2 in ("<", "<=")] + [(o1, o2) for o1 in (">", ">=") for o2 in (">", ">=")]
            for o1, o2 in (forms if ctx.quick() is False or rng.random() < 0.5 else rng.sample(forms, 4)):
                event([a, "X", b], [o1, o2], via)
            if rng.random() < 0.15:
                event([a, "X", b], [rng.choice(["<", "<="]), rng.choice([">", ">="])], via)
                event([a, "X", b], [rng.choice([">", ">="]), rng.choice(["<", "<="])], via)

    # ---------------- invalid / boundary parameters ----------------
    bad = ["Binomial(0, 1/2)", "Binomial(-3, 1/2)", "Binomial(5, 3/2)", "Binomial(5, -0.1)", "Binomial(5, 1.0000001)",
           "Binomial(0, 2)", "UniformInt(3, 2)", "UniformInt(0, -1)", "Poisson(0)", "Poisson(-2)", "Gaussian(0, 0)",
           "Gaussian(1, -2)", "Gaussian(1, -1/2)", "Exponential(0)", "Exponential(-1)", "Exponential(-0.5)",
           "Geometric(0)", "Geometric(-1/2)", "Geometric(3/2)", "Geometric(1.5)", "Geometric(0.0)", "Bernoulli(-1/10)",
           "Bernoulli(1.5)", "Bernoulli(2)", "Uniform(2, 1)", "Uniform(0.5, 0.25)", "Uniform(1/2, 1/3)"]
    good = ["Binomial(1, 0)", "Binomial(1, 1)", "Binomial(7, 0.5)", "Geometric(1)", "Geometric(1/1000)", "UniformInt(3, 3)",
            "UniformInt(-2, -2)", "Uniform(1, 1)", "Bernoulli(0)", "Bernoulli(1)", "Poisson(1)", "Gaussian(0, 1/1000)",
            "Exponential(1/1000)"]
    for _ in range(ctx.n(40, 400)):
        k = rng.choice(["Binomial", "Geometric", "Bernoulli", "UniformInt", "Poisson", "Exponential", "Gaussian", "Uniform"])
        q = lambda: rng.choice([F(rng.randint(-6, 12), rng.randint(1, 6)), rng.randint(-3, 4), round(rng.uniform(-1.5, 2.5), 3)])
        if k == "Binomial":
            n, p = rng.randint(-3, 6), q()
            (good if (n > 0 and 0 <= p <= 1) else bad).append("Binomial(%s, %s)" % (ktext(n), ktext(p)))
        elif k in ("Geometric", "Bernoulli"):
            p = q()
            v = (0 < p <= 1) if k == "Geometric" else (0 <= p <= 1)
            (good if v else bad).append("%s(%s)" % (k, ktext(p)))
        elif k == "UniformInt":
            a, b = rng.randint(-4, 4), rng.randint(-4, 4)
            (good if a <= b else bad).append("UniformInt(%s, %s)" % (ktext(a), ktext(b)))
        elif k == "Poisson":
            m = rng.randint(-3, 5)
            (good if m > 0 else bad).append("Poisson(%s)" % ktext(m))
        elif k == "Exponential":
            p = q()
            (good if p > 0 else bad).append("Exponential(%s)" % ktext(p))
        elif k == "Gaussian":
            m, s = q(), q()
            (good if s > 0 else bad).append("Gaussian(%s, %s)" % (ktext(m), ktext(s)))
        else:
            a, b = q(), q()
            (good if a <= b else bad).append("Uniform(%s, %s)" % (ktext(a), ktext(b)))

    def spec_of_text(t):
        r = R.value("{%s}" % t[t.index("(") + 1:-1], timeout=5.0)   # the parameters as Ka evaluates them
        if r[0] != "ok":
            return None
        ps = list(r[1].contents) if hasattr(r[1], "contents") else None
        if ps is None:
            return None
        name = t[:t.index("(")]
        cs = [canon(p) for p in ps]
        if name == "Poisson":
            cs.append("q:1/2")
        return "%s %s" % (name.lower(), " ".join(cs))

    # a count that is not an integer is no valid parameter either (the signature, not the constructor, refuses it)
    bad_kind = ["Binomial(2.5, 0.5)", "Binomial(7/2, 1/2)", "Binomial(2.0000001, 1/2)", "UniformInt(1, 2.5)", "UniformInt(1/2, 3)",
                "UniformInt(0.5, 2.5)", "UniformInt(-3/2, 2)", "P(Binomial(2.5, 0.5) = 1)", "P(UniformInt(1, 2.5) = 2)",
                "X = UniformInt(1, 5/2); P(X <= 2)", "mean(Binomial(5/2, 1/2))"]
    for t in bad_kind:
        r = run(t)
        ctx.count("invalid-kind:" + t, nontrivial=True, bucket="invalid-parameters")
        if r[0] != "err" or str(r[1]).startswith("py:") or r[1] == "diverges":
            ctx.violation("invalid-accepted:" + t, t, "rejected with a diagnosed error (a non-integer count / bound)", repr(r)[:120], "ctx.real.value(%r)" % t)
    for t in bad:
        r = run(t)
        ctx.count("invalid:" + t, nontrivial=True, bucket="invalid-parameters")
        if r[0] != "err" or str(r[1]).startswith("py:") or r[1] == "diverges":        # which diagnosed error: not the property's business
            ctx.violation("invalid-accepted:" + t[:t.index("(")], t, "rejected with a diagnosed error", repr(r), "ctx.real.value(%r)" % t)
        sp = spec_of_text(t)
        if sp:
            cases.append(("prob %s | valid" % sp, "err invalidparam" if r[0] == "err" else "ok", ("valid", None, t)))
    for t in good:
        r = run(t)
        ctx.count("valid:" + t, nontrivial=False, bucket="valid-parameters")
        if r[0] != "ok":
            ctx.violation("valid-rejected:" + t[:t.index("(")], t, "a distribution", repr(r), "ctx.real.value(%r)" % t)
        sp = spec_of_text(t)
        if sp:
            cases.append(("prob %s | valid" % sp, "ok" if r[0] == "ok" else "err " + r[1], ("valid", None, t)))

    # ---------------- Poisson beyond the float range of mu**x / exp(-mu) (oracle only) ----------------
    def ref_pois_cdf(mu, x):
        return math.fsum(math.exp(k * math.log(mu) - mu - math.lgamma(k + 1)) for k in range(0, x + 1))
    for mu, x in [(150, 150), (10, 400), (800, 800), (710, 740)] + ([(300, 310), (1000, 990)] if not ctx.quick() else []):
        for text, exp in (("P(Poisson(%d) <= %d)" % (mu, x), ref_pois_cdf(mu, x)),
                          ("P(Poisson(%d) = %d)" % (mu, x), math.exp(x * math.log(mu) - mu - math.lgamma(x + 1)))):
            r = run(text)
            ctx.count("poisson-range:" + text, bucket="poisson-large")
            if r[0] != "ok" or not isinstance(r[1], (int, float)) or abs(float(r[1]) - exp) > TOL:
                ctx.violation("poisson-float-range", text, "%.12g" % exp, repr(r), "ctx.real.value(%r)" % text)

    # upper tails of large-rate Poissons at thresholds FAR BELOW the mean (the pmf there underflows to exactly 0.0; the tail is 1), at
    # the mean and above it, in every single form and with the complement
    for mu in (746, 800, 1000) + ((2500,) if not ctx.quick() else ()):
        for t_ in (0, 1, 3, mu // 4, mu, mu + 40):
            up = 1.0 - (ref_pois_cdf(mu, t_) if t_ >= 0 else 0.0)
            for text, exp in (("P(Poisson(%d) > %d)" % (mu, t_), up), ("P(%d < Poisson(%d))" % (t_, mu), up),
                              ("P(Poisson(%d) >= %d)" % (mu, t_ + 1), up), ("P(%d <= Poisson(%d))" % (t_ + 1, mu), up)):
                r = run(text)
                ctx.count("poisson-range:" + text, bucket="poisson-large-upper-tail")
                if r[0] != "ok" or not isinstance(r[1], (int, float)) or abs(float(r[1]) - exp) > 1e-9:
                    ctx.violation("poisson-float-range:" + text, text, "%.12g" % exp, repr(r), "ctx.real.value(%r)" % text)

    # ---------------- Binomial with a float p beyond the float range of choose(n, x) (oracle only) ----------------
    def ref_binom(n, p_, lo_, hi_):
        q = Fraction(p_)
        return float(sum(math.comb(n, k) * q ** k * (1 - q) ** (n - k) for k in range(lo_, hi_ + 1)))
    # (degenerate p = 0 / 1 with a large n as well: all mass on one point, whichever formula serves that size)
    for n, p_, x in [(1030, 0.5, 515), (1100, 0.999, 1099), (2000, 0.5, 1000), (1500, 1, 1500), (1001, 0, 0), (1500, 1, 1499), (1200, 0, 1)] + \
                    ([(5000, 0.3, 1500), (1500, 0.01, 15), (3000, 1, 3000)] if not ctx.quick() else []):
        for text, exp in (("P(Binomial(%d, %s) = %d)" % (n, ktext(p_), x), ref_binom(n, p_, x, x)),
                          ("P(Binomial(%d, %s) <= %d)" % (n, ktext(p_), x), ref_binom(n, p_, 0, x))):
            r = run(text)
            ctx.count("binomial-range:" + text, bucket="binomial-large")
            if r[0] != "ok" or not isinstance(r[1], (int, float)) or abs(float(r[1]) - exp) > TOL:
                ctx.violation("binomial-float-range", text, "%.12g" % exp, repr(r), "ctx.real.value(%r)" % text)

    # (1-p)^n or p^n in the SUBNORMAL range (n ln(1/(1-p)) between 708.4 and 744.4): a recurrence started from that term is non-zero
    # and has lost its digits — every event form must still be the mass on the condition, and stay inside [0, 1]
    sub = []
    for p_ in (0.7, 0.9, 0.6, 0.3):
        for base in (1 - p_, p_):
            l = -math.log(base)
            if l <= 0:
                continue
            for tgt in (712.0, 738.0, 744.0):
                n_ = int(tgt / l)
                if 200 < n_ <= 2100 and (n_, p_) not in sub:
                    sub.append((n_, p_))
    sub.sort()
    if ctx.quick():
        sub = [c for c in sub if c[0] <= 820][1::2][:6]
    for n_, p_ in sub:
        m_ = int(n_ * p_)
        for text, exp in (("P(Binomial(%d, %s) <= %d)" % (n_, ktext(p_), n_), 1.0), ("P(Binomial(%d, %s) <= %d)" % (n_, ktext(p_), m_), ref_binom(n_, p_, 0, m_)),
                          ("P(Binomial(%d, %s) > %d)" % (n_, ktext(p_), m_), ref_binom(n_, p_, m_ + 1, n_)), ("P(%d <= Binomial(%d, %s) < %d)" % (m_ - 5, n_, ktext(p_), m_ + 5), ref_binom(n_, p_, m_ - 5, m_ + 4)),
                          ("P(Binomial(%d, %s) = %d)" % (n_, ktext(p_), m_), ref_binom(n_, p_, m_, m_)), ("P(Binomial(%d, %s) >= 0)" % (n_, ktext(p_)), 1.0)):
            r = run(text)
            ctx.count("binomial-subnormal:" + text, bucket="binomial-subnormal-term")
            # sums of a thousand and more float terms: "to within floating-point rounding" is 1e-9 here (the errors this family is
            # after are of the order of the probability itself)
            if r[0] != "ok" or not isinstance(r[1], (int, float)) or abs(float(r[1]) - exp) > 1e-9 or not (-1e-9 <= float(r[1]) <= 1 + 1e-9):
                ctx.violation("binomial-float-range:" + text, text, "%.12g" % exp, repr(r), "ctx.real.value(%r)" % text)

    # ---------------- correspondence with the Lean model ----------------
    def agree(real, model, info):
        if real == model:
            return True
        if real.startswith("ok ") and model.startswith("ok ") and info[0] != "valid":
            try:
                a, b = core.num_parse(real[3:]), core.num_parse(model[3:])
            except Exception:
                return False
            d = info[1]
            if d is not None and d.exact() and info[0] in ("ev", "pmf", "cdf", "mean"):
                return is_exact(a) and Fraction(a) == Fraction(b)
            return abs(float(a) - float(b)) <= TOL * max(1.0, abs(float(b)))
        if info[0] == "ev" and real.startswith("err ") and model.startswith("err "):
            return real == model
        return False

    import os
    if os.environ.get("C08_DUMP"):
        with open(os.environ["C08_DUMP"], "w") as f:
            f.write("\n".join(c[0] for c in cases) + "\n")
    ctx.correspond("prob", cases, agree=agree,
                   describe=lambda i: "%s %s %s" % (i[0], i[1].key() if i[1] is not None else "", i[2]))


def replay(ctx, data):
    """./check C08 --replay <file>: re-run the recorded failing input on the real code.
    Exit 1 while the recorded (wrong) answer is still produced, 0 once it is gone."""
    v = data.get("first") or {}
    text, how = v.get("input"), v.get("how_to_replay") or ""
    if not isinstance(text, str):
        print("replay: nothing to re-run (broken obligation, no failing input): %s" % data.get("no_longer_checks"))
        return 1
    R = ctx.real
    if how.startswith("ctx.real.value("):
        got = repr(R.value(text, timeout=20.0))
    elif how.startswith("ka.probability."):
        import ka.probability as P
        expr = how.split(" vs ")[0][len("ka.probability."):]
        try:
            with core.alarm(20):
                got = repr(eval("P." + expr, {"P": P, "Fraction": Fraction}))
        except BaseException as e:  # noqa
            got = repr(("err", core.err_code(e)))
    else:
        print("replay: cannot re-run %r" % how)
        return 1
    print("replay input:    %s" % text)
    print("replay expected: %s" % v.get("expected"))
    print("replay recorded: %s" % v.get("actual"))
    print("replay now:      %s" % got)
    still = got == v.get("actual")
    if still:
        print("VIOLATION property=C08 replay reproduces")
    return 1 if still else 0


# ---- refinement lemmas of the unified pipeline model for this property (Props/Pipeline3.lean): the fragment this check's
# theorems are about IS what the whole-program model computes on instant / probability expressions
import pipeline as _pl3
LEAN_MODULES = LEAN_MODULES + [m for m in _pl3.LEAN_MODULES3 if m not in LEAN_MODULES]
THEOREMS = THEOREMS + [t for t in _pl3.THEOREMS3.get(ID, []) if t not in THEOREMS]
GEN = GEN + [g for g in _pl3.GEN3 if g not in GEN]
