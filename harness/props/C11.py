"""C11 — lexing is a faithful longest-match segmentation with exact literal values."""
import itertools, re
from fractions import Fraction
import core
from core import num_canon

ID = "C11"
LEAN_MODULES = ["KaVerif.Props.C11"]
GEN = ["Tokens"]
THEOREMS = ["KaVerif.C11_spans", "KaVerif.C11_total", "KaVerif.C11_token_span", "KaVerif.C11_suffix_only",
            "KaVerif.C11_longest_const", "KaVerif.C11_const_complete", "KaVerif.C11_int_value_ctx", "KaVerif.C11_int_value",
            "KaVerif.C11_based_value_partial", "KaVerif.C11_sci_value", "KaVerif.C11_range_split", "KaVerif.C11_keywords_table",
            "KaVerif.C11_keywords", "KaVerif.C11_closing_string", "KaVerif.C11_closing_instant",
            "KaVerif.C11_whitespace_insensitive", "KaVerif.C11_whitespace_tags_values",
            "KaVerif.Lexer.constTokens_prefixOrdered", "KaVerif.Lexer.alphaTokens_noPrefix", "KaVerif.Lexer.constTokens_noSpace",
            "KaVerif.Lexer.alphaTokens_facts"]
RULE = ("every string up to length 3 (quick) / 4 (thorough) over a 30-character core alphabet "
        "(digits 0 1 2 9, . e - + x b o d a f t i n _ \" \\ # space newline = < ! μ € ± &), random strings to length 40 over "
        "the whole model alphabet (token-ish fragments mixed in), token sequences of all kinds rendered with random "
        "whitespace, every ordered pair of token kinds adjacent with/without whitespace, literal families (digit strings, "
        "0b/0o/0x/0d, m e±k, decimals, a..b, keyword+char, unclosed literals); real tokenise vs the model's tokenise on "
        "(tag, begin, end, value) or (error class, index); wider-Unicode strings against the oracle only; non-trivial = "
        "at least one token or a lexical error with index; distinct = distinct input string")
ASSUMPTIONS = ["str.isspace/isnumeric/isalpha on the model alphabet are the explicit classes of Model/Lexer.lean (corresponded per character)",
               "CPython's float(str), int*float and float(Fraction) are correctly rounded (the model rounds the exact rational once per step)",
               "a decimal literal whose exact value lies outside [1e-300, 1e300] is not judged (underflow/overflow range)"]

CORE = list("0129.e-+xbodaftin_\"\\# \n=<!μ€±&")
WS = [" ", "\t", "\n", "\x0b", "\x0c", "\r"]
EXTRA = ["€", "£", "¥", "±", "μ"]
ALPHABET = [chr(c) for c in range(32, 127)] + WS[1:] + EXTRA
WIDE = ["\x1c", "\x1f", "\x85", "\xa0", "\u00b2", "\u00bd", "\u00b5", "\u00e9", "\u03c0", "\u0663", "\u2003", "\U0001f600", "\u03a9", "\u00df", "\u200b", "\uff11"]
IDENT_RE = re.compile(r"[_a-zA-Z0-9μ€$£¥]")
NUMERAL_RE = re.compile(r"(?:0[xobd][0-9a-fA-F]+|(?:[0-9]+\.[0-9]*|\.[0-9]+|[0-9]+)(?:e[-+]?[0-9]+)?)\Z")
HUGE_EXP_RE = re.compile(r"e[-+]?0*[1-9][0-9]{4}")
LEXERRS = ("UnknownTokenError", "BadNumberError", "UnclosedStringError", "UnclosedInstantError")


def codes(s):
    return ".".join(str(ord(c)) for c in s)


def hexs(s):
    return s.encode("utf-8").hex()


def in_alphabet(s):
    return all(c in ALPHASET for c in s)


ALPHASET = set(ALPHABET)


class Lexed:
    """Result of the real tokenise on one string."""
    __slots__ = ("ok", "toks", "err", "index", "dump")

    def __init__(self, T, s):
        try:
            with core.alarm(5.0), core.real_mode():
                toks = T.tokenise(s)
            self.ok, self.err, self.index = True, None, None
            self.toks = [(t.tag, t.begin_index_incl, t.end_index_excl, dict(t._meta)) for t in toks]
            parts = []
            for tag, b, e, meta in self.toks:
                if tag == "number" and "value" in meta:
                    c = num_canon(meta["value"])
                    parts.append("n:%d:%d:%s" % (b, e, c if c is not None else "other"))
                elif tag == "identifier" and "name" in meta:
                    parts.append("v:%d:%d:%s" % (b, e, codes(meta["name"])))
                elif tag == "string" and "value" in meta:
                    parts.append("s:%d:%d:%s" % (b, e, codes(meta["value"])))
                elif tag == "instant" and "value" in meta:
                    parts.append("i:%d:%d:%s" % (b, e, codes(meta["value"])))
                else:
                    parts.append("c%s:%d:%d:" % (codes(tag), b, e))
            self.dump = "ok " + "|".join(parts)
        except BaseException as ex:  # noqa
            if isinstance(ex, (KeyboardInterrupt, SystemExit)):
                raise
            self.ok, self.toks = False, None
            self.err = "diverges" if isinstance(ex, core.Timeout) else type(ex).__name__
            self.index = getattr(ex, "index", None)
            self.dump = "err %s %s" % (self.err, self.index) if self.err in LEXERRS else "err py:%s" % self.err

    def sig(self):
        """(tag, value) sequence"""
        return [(t[0], tuple(sorted((k, repr(v)) for k, v in t[3].items()))) for t in self.toks]


def exact_of_numeral(lexeme):
    """Exact mathematical value of a numeral's spelling and whether the spelling is a decimal (has a point)."""
    if re.match(r"0[xobd]", lexeme):
        base = {"x": 16, "o": 8, "b": 2, "d": 10}[lexeme[1]]
        v = 0
        for ch in lexeme[2:]:
            d = "0123456789abcdef".index(ch.lower())
            if d >= base:
                return None, False
            v = v * base + d
        return Fraction(v), False
    mant, _, ex = lexeme.partition("e")
    ip, dot, fp = mant.partition(".")
    m = Fraction(int(ip + fp or "0"), 10 ** len(fp))
    if ex:
        m = m * Fraction(10) ** int(ex)
    return m, bool(dot)


def oracle(ctx, T, s, r, how):
    """C11 evaluated on the real result `r` of lexing `s`.  Independent of the Lean model."""
    n = len(s)
    if not r.ok:
        if r.err not in LEXERRS:
            ctx.violation("lex-escape:" + s, s, "tokens or one of the four lexical errors", r.dump, how)
            return
        i = r.index
        if not (isinstance(i, int) and 0 <= i < n):
            ctx.violation("lex-errindex:" + s, s, "error index inside the input", r.dump, how)
            return
        if r.err == "UnclosedStringError":
            rest = s[i + 1:]
            closing = [k for k, c in enumerate(rest) if c == '"' and (k == 0 or rest[k - 1] != "\\")]
            if s[i] != '"' or closing:
                ctx.violation("lex-unclosed:" + s, s, "unclosed string reported at its opening quote, and only when no closing quote follows",
                              r.dump, how)
        if r.err == "UnclosedInstantError":
            if s[i] != "#" or "#" in s[i + 1:]:
                ctx.violation("lex-unclosed:" + s, s, "unclosed instant reported at its opening #, and only when no # follows", r.dump, how)
        return
    pos = 0
    for tag, b, e, meta in r.toks:
        # spans ordered, non-empty, inside the input; the gap is whitespace
        if not (pos <= b < e <= n) or not all(c.isspace() for c in s[pos:b]):
            ctx.violation("lex-spans:" + s, s, "ordered non-empty spans separated by whitespace only", r.dump, how)
            return
        lexeme = s[b:e]
        nxt = s[e] if e < n else ""
        if tag == "number":
            v = meta.get("value")
            if not NUMERAL_RE.match(lexeme):
                ctx.violation("lex-numeral:" + s, s, "a number token spans a numeral", "%r in %s" % (lexeme, r.dump), how)
            else:
                exact, is_dec = exact_of_numeral(lexeme)
                if exact is None and re.match(r"0b0[bB][01]+\Z", lexeme) and v == int(lexeme[4:], 2):
                    # int("0b1", base=2) swallows a second binary prefix: one recorded finding, one key
                    ctx.violation("lex-value-double-prefix", s, "`%s`: BadNumberError, `b` is no binary digit" % lexeme, repr(v), how)
                elif exact is None:
                    ctx.violation("lex-value:" + s, s, "a based literal with a digit beyond its base is an error", r.dump, how)
                elif not is_dec:
                    if isinstance(v, bool) or not isinstance(v, (int, Fraction)) or Fraction(v) != exact:
                        ctx.violation("lex-value:" + s, s, "exact value %s of %r" % (exact, lexeme), repr(v), how)
                else:
                    if not isinstance(v, float):
                        ctx.violation("lex-value:" + s, s, "a float for the decimal %r" % lexeme, repr(v), how)
                    elif exact == 0:
                        if v != 0.0:
                            ctx.violation("lex-value:" + s, s, "0.0", repr(v), how)
                    elif Fraction(1, 10 ** 300) <= exact <= Fraction(10 ** 300):
                        if v != v or v in (float("inf"), float("-inf")) or abs(Fraction(v) - exact) > exact / 10 ** 15:
                            ctx.violation("lex-value:" + s, s, "within 1e-15 relative of %s" % lexeme, repr(v), how)
            # longest match: a pure digit run / decimal is not followed by a digit it should have taken
            if nxt and nxt in "0123456789" and not (lexeme[:2] in ("0x", "0o", "0b", "0d")):
                ctx.violation("lex-longest:" + s, s, "numeral extends over all following digits", r.dump, how)
        elif tag == "identifier":
            if meta.get("name") != lexeme:
                ctx.violation("lex-lexeme:" + s, s, "identifier name = its lexeme %r" % lexeme, repr(meta.get("name")), how)
            if nxt and IDENT_RE.match(nxt):
                ctx.violation("lex-longest:" + s, s, "identifier extends over all identifier characters", r.dump, how)
            # the other direction of the keyword rule: `to` / `in` NOT followed by a letter is the keyword,
            # it must not be swallowed into an identifier (`in2` = `in`, `2`;  `to_` = `to` then an unknown token)
            if lexeme[:2] in ("to", "in") and len(lexeme) > 2 and not lexeme[2].isalpha():
                ctx.violation("lex-keyword:" + s, s, "`%s` followed by the non-letter %r is the keyword" % (lexeme[:2], lexeme[2]), r.dump, how)
        elif tag == "string" and "value" in meta:
            v = meta["value"]
            okv = (len(lexeme) >= 2 and lexeme[0] == '"' and lexeme[-1] == '"' and v == lexeme[1:-1]
                   and not any(c == '"' and (k == 0 or v[k - 1] != "\\") for k, c in enumerate(v))
                   and not v.endswith("\\"))
            if not okv:
                ctx.violation("lex-closing:" + s, s, "string literal runs to the first quote not preceded by a backslash", r.dump, how)
        elif tag == "instant" and "value" in meta:
            v = meta["value"]
            if not (len(lexeme) >= 2 and lexeme[0] == "#" and lexeme[-1] == "#" and v == lexeme[1:-1] and "#" not in v):
                ctx.violation("lex-closing:" + s, s, "instant literal runs to the first following #", r.dump, how)
        else:
            if tag != lexeme:
                ctx.violation("lex-lexeme:" + s, s, "constant token tag = its lexeme %r" % lexeme, repr(tag), how)
            if tag.isalpha():
                if tag not in ("to", "in"):
                    ctx.violation("lex-keyword:" + s, s, "only `to` and `in` are alphabetic keywords", r.dump, how)
                if nxt and nxt.isalpha():
                    ctx.violation("lex-keyword:" + s, s, "`%s` followed by a letter is not a keyword" % tag, r.dump, how)
            else:
                for t2 in T.CONST_TOKENS:
                    if len(t2) > len(tag) and s.startswith(t2, b) and not t2.isalpha():
                        ctx.violation("lex-longest:" + s, s, "longest constant token %r at %d" % (t2, b), r.dump, how)
                        break
        pos = e
    if not all(c.isspace() for c in s[pos:]):
        ctx.violation("lex-spans:" + s, s, "trailing text after the last token is whitespace", r.dump, how)


def ws_oracle(ctx, T, s, r, rng, how, every):
    """inserting whitespace at a token boundary keeps the (tag, value) sequence"""
    if not r.ok:
        return 0
    bounds = {0, len(s)}
    for _, b, e, _ in r.toks:
        bounds.add(b)
        bounds.add(e)
    bounds = sorted(bounds)
    if not every and len(bounds) > 3:
        bounds = rng.sample(bounds, 3)
    base = r.sig()
    k = 0
    for p in bounds:
        w = "".join(rng.choice(WS) for _ in range(rng.choice((1, 1, 2, 3))))
        s2 = s[:p] + w + s[p:]
        r2 = Lexed(T, s2)
        k += 1
        if not r2.ok or r2.sig() != base:
            ctx.violation("lex-ws:" + s, s, "same tags and values after inserting whitespace %r at %d" % (w, p),
                          "%s -> %s" % (r.dump, r2.dump), how)
    return k


# ------------------------------------------------------------------------------------------------
# generators
# ------------------------------------------------------------------------------------------------
def gen_digits(rng, alphabet="0123456789", lo=1, hi=6):
    return "".join(rng.choice(alphabet) for _ in range(rng.randrange(lo, hi + 1)))


def gen_token(rng, consts):
    """(kind, spelling, expected (tag, value-or-None)) — a single valid token"""
    k = rng.randrange(12)
    if k == 0:
        d = gen_digits(rng, hi=rng.choice((3, 6, 25)))
        return ("int", d, ("number", int(d)))
    if k == 1:
        b = rng.choice("xobd")
        d = gen_digits(rng, {"x": "0123456789abcdefABCDEF", "o": "01234567", "b": "01", "d": "0123456789"}[b], hi=8)
        return ("based", "0" + b + d, ("number", int(d, {"x": 16, "o": 8, "b": 2, "d": 10}[b])))
    if k == 2:
        # (long mantissas too: an exact literal has as many significant digits as it is written with)
        m = gen_digits(rng, hi=rng.choice([5, 5, 5, 20, 32, 45]))
        sg = rng.choice(("", "+", "-"))
        e = gen_digits(rng, hi=2)
        if rng.random() < 0.25:
            e = "0" * rng.randrange(1, 12) + e       # a zero-padded exponent spells the same power of ten
        return ("sci", m + "e" + sg + e, ("number", Fraction(int(m)) * Fraction(10) ** int(sg + e)))
    if k == 3:
        form = rng.randrange(3)
        ip, fp = gen_digits(rng, hi=5), gen_digits(rng, hi=8)
        sp = (ip + "." + fp, "." + fp, ip + ".")[form]
        if rng.random() < 0.4:
            sp += "e" + rng.choice(("", "+", "-")) + gen_digits(rng, hi=2)
        return ("dec", sp, ("number", None))
    if k in (4, 5):
        first = rng.choice("abcxyzeEtionZQμ€$£¥")
        rest = "".join(rng.choice("abetionxXZ019_μ€$£¥") for _ in range(rng.randrange(0, 6)))
        name = first + rest
        # `to`/`in` followed by a non-letter are keywords by the property's own rule (`to9` = `to`, `9`): not identifiers
        if name[:2] in ("to", "in") and not name[2:3].isalpha():
            name = "x" + name
        return ("ident", name, ("identifier", name))
    if k == 6:
        w = rng.choice(("to", "in"))
        return ("kw", w, (w, None))
    if k in (7, 8, 9):
        t = rng.choice(consts)
        return ("const", t, (t, None))
    if k == 10:
        body = "".join(rng.choice(['a', ' ', '\\"', "\\", "#", "1", "to", "\n", "μ", "x"] + (QUOTE_LIKE if rng.random() < 0.25 else []))
                       for _ in range(rng.randrange(0, 6)))
        if body.endswith("\\"):
            body += "n"
        return ("str", '"' + body + '"', ("string", body))
    body = "".join(rng.choice("2024-01T:5 a\"") for _ in range(rng.randrange(0, 8)))
    return ("inst", "#" + body + "#", ("instant", body))


# characters that LOOK like a string or instant delimiter and are ordinary content of a literal: only `"` closes a string
QUOTE_LIKE = ["\u201c", "\u201d", "\u2018", "\u2019", "\u201e", "\u00ab", "\u00bb", "'", "`", "\u2033", "\uff02", "\uff03", "\u266f"]


def gen_random(rng, maxlen):
    frags = ["0b0b1", "0b0B", "..", "==", "!=", "<=", ">=", "to", "in", "0x", "0b", "0o", "0d", "e-", "e+", "1.", ".5", "\\\"", "1e5", "int", "tox"]
    out = []
    n = rng.randrange(1, maxlen + 1)
    while sum(map(len, out)) < n:
        r = rng.random()
        if r < 0.2:
            out.append(rng.choice(frags))
        elif r < 0.55:
            out.append(rng.choice(CORE))
        else:
            out.append(rng.choice(ALPHABET))
    return "".join(out)[:maxlen]


def check(ctx):
    T = ctx.real.tokens
    rng = ctx.rng
    consts = [t for t in T.CONST_TOKENS if not t.isalpha()]
    how = "PYTHONPATH=/repo/src python -c 'from ka.tokens import tokenise; print(tokenise(%s))'"
    inputs = []          # (string, family)
    seen = set()

    def add(s, fam):
        # an exponent of five or more digits makes the real code compute 10**exponent for minutes (not a lexing matter)
        if HUGE_EXP_RE.search(s):
            return
        if s not in seen:
            seen.add(s)
            inputs.append((s, fam))

    # ---- character classes, per character of the model alphabet (and a few outside, to the oracle of the assumption)
    cls_cases = []
    for c in ALPHABET:
        real = "%d%d%d1" % (c.isspace(), c.isnumeric(), c.isalpha())
        cls_cases.append(("lexcls %d" % ord(c), real, c))
    ctx.correspond("lexcls", cls_cases)

    # ---- corpus: hand-picked edge cases (past defects, boundaries between token kinds)
    corpus = ["", " ", "1..5", "1...", "1.e5", "1e-0", "1000e-3", "9.9e308", "1.5e400", "1.5e-400", "0.0e400", "0x1e-10", "to_x", "toμ",
              "1e+06", "1.5e+2", ".5", "1.", "1.e", "\"a\\\\\"", "0b1e5", "00b1", "1e5e5", "1.5.5", "1e", "1e+", "μ", "instant", "0b12",
              "0b", "0bb", "0dd", "0d19", "0o78", "0xfF", "<==", "!==", "===", "in", "int", "in t", "tin", "to", "tox", "to1", "to€", "3 to m",
              "\"", "\"\\\"", "\"\\\"\"", "#", "##", "#a", "\"a\" \"b", "1 \"", "a #", "..5", "...5", "1...5", "1.. 5", "1 ..5", "1. .5",
              "123456789012345678901234567890", "0.1", "0.30000000000000004", "123456789.123456789e-5", "1e22", "1e23", "1.0e23", "5e-324",
              "2.5e-324", "1.7976931348623157e308", "1.7976931348623159e308", "0d0012", "007", "1_000", "x_1", "_x", "$5", "5$", "€μ¥£",
              "a\tb\nc\x0bd\x0ce\rf", "0b0b1", "0b0B11", "0b0b", "0b0b2", "0x0x1", "0o0o7", "0d0d1", "1+0b0b101 ", "f(x,y)={1,2}:[3,4]|5%6^7!;", "±1", "1±2", "1e400", "1e-400", "9" * 400 + ".5", "0." + "0" * 400 + "1"]
    for s in corpus:
        add(s, "corpus")
    # ---- exhaustive over the core alphabet
    L = ctx.n(3, 4)
    for n in range(0, L + 1):
        for tup in itertools.product(CORE, repeat=n):
            add("".join(tup), "exhaustive")
    n_exh = len(inputs)
    # ---- literal families
    for _ in range(ctx.n(400, 6000)):
        a, b = gen_digits(rng, hi=7), gen_digits(rng, hi=7)
        add(a + ".." + b, "range")
        add(gen_digits(rng, hi=rng.choice((4, 30, 80))), "int")
    # integer literals of thousands of digits (beyond CPython's default int<->str digit limit of 4300): exact values like all others
    for nd in (4299, 4300, 4301, 5000, 12000):
        add(str(rng.randrange(1, 10)) + "".join(rng.choice("0123456789") for _ in range(nd - 1)), "int")
        add("1" + "0" * (nd - 1) + " + 1", "int")
    for _ in range(ctx.n(600, 8000)):
        add(gen_token(rng, consts)[1], "single")
    for w in sorted(T.ALPHA_TOKENS) + ["to", "in"]:
        for c in ALPHABET:
            add(w + c, "keyword")
            add(w + c + "x", "keyword")
            add("a " + w + c + " 1", "keyword")
    for _ in range(ctx.n(300, 4000)):
        pre = " ".join(gen_token(rng, consts)[1] for _ in range(rng.randrange(0, 3)))
        body = "".join(rng.choice(['a', ' ', '\\"', "\\", "1", "μ", "#"] + (QUOTE_LIKE if rng.random() < 0.3 else [])) for _ in range(rng.randrange(0, 6)))
        add(pre + " \"" + body, "unclosed")
        add(pre + " #" + body.replace("#", ""), "unclosed")
    # ---- ordered pairs of token kinds adjacent with and without whitespace
    for _ in range(ctx.n(1500, 30000)):
        a, b = gen_token(rng, consts), gen_token(rng, consts)
        add(a[1] + b[1], "pair")
        add(a[1] + rng.choice(WS) + b[1], "pair-ws")
    # ---- token sequences rendered with random whitespace
    seqs = {}
    for _ in range(ctx.n(1500, 30000)):
        toks = [gen_token(rng, consts) for _ in range(rng.randrange(1, 9))]
        parts = ["".join(rng.choice(WS) for _ in range(rng.randrange(0, 3)))]
        for t in toks:
            parts.append(t[1])
            parts.append("".join(rng.choice(WS) for _ in range(rng.randrange(1, 4))))
        s = "".join(parts)
        add(s, "sequence")
        seqs[s] = toks
    # ---- random strings
    for _ in range(ctx.n(5000, 100000)):
        add(gen_random(rng, rng.choice((5, 8, 12, 40))), "random")

    # ---- run the real code, the oracle, and collect the model requests
    cases = []
    ws_runs = 0
    for idx, (s, fam) in enumerate(inputs):
        r = Lexed(T, s)
        h = how % repr(s)
        nontriv = (r.ok and len(r.toks) > 0) or (not r.ok and r.index is not None)
        bucket = fam + "/" + ("ok" if r.ok else r.err)
        ctx.count(s, nontrivial=nontriv, bucket=bucket)
        oracle(ctx, T, s, r, h)
        # whitespace insertion: every boundary for the structured families, a sample otherwise
        if fam == "exhaustive":
            if len(s) <= 3 or idx % 7 == 0:
                ws_runs += ws_oracle(ctx, T, s, r, rng, h, every=len(s) <= 3)
        else:
            ws_runs += ws_oracle(ctx, T, s, r, rng, h, every=fam in ("corpus", "pair", "range", "keyword"))
        if fam == "sequence":
            want = [t[2] for t in seqs[s]]
            got = None
            if r.ok:
                got = [(tag, (meta.get("value", meta.get("name")))) for tag, b, e, meta in r.toks]
            okseq = got is not None and len(got) == len(want) and all(
                g[0] == w[0] and (w[1] is None or (g[1] == w[1] and (w[0] != "number" or not isinstance(g[1], float))))
                for g, w in zip(got, want))
            if not okseq:
                ctx.violation("lex-sequence:" + s, s, "the tokens %s" % [t[1] for t in seqs[s]], r.dump, h)
        if fam == "range" and ".." in s:
            a, b = s.split("..")
            want = "ok n:0:%d:i:%d|c46.46:%d:%d:|n:%d:%d:i:%d" % (len(a), int(a), len(a), len(a) + 2, len(a) + 2, len(s), int(b))
            if r.dump != want:
                ctx.violation("lex-range:" + s, s, want, r.dump, h)
        if fam == "unclosed" and not r.ok and r.err in ("UnclosedStringError", "UnclosedInstantError"):
            pass
        if len(ctx.cov["samples"]) < 12 and fam in ("sequence", "pair", "random") and idx % 97 == 0:
            ctx.sample(dict(input=s, real=r.dump[:160]))
        if in_alphabet(s):
            cases.append(("lex " + hexs(s), r.dump, s))
    # ---- EVERY character the tokeniser skips as whitespace on the reviewed tree (all of `str.isspace`: NBSP, the thin / en / em
    # spaces, U+2028/2029, U+3000, the separators \x1c-\x1f, \x85 …) is interchangeable with a blank between two tokens
    import sys as _sys
    allws = [chr(c) for c in range(_sys.maxunicode + 1) if chr(c).isspace()]
    progs = [["1", "+", "2", "*", "3"], ["5", "km", "to", "m"], ["x", "=", "0x1F", ";", "x", "in", "{", "31", "}"], ["\"a b\"", ",", "#2020-01-01#"],
             ["3", "!", "/", "2", "!"], ["1.5e3", "..", "7"], ["f", "(", "k", ":", "1", ")"]]
    def sig(text):
        try:
            return [(t.tag, text[t.begin_index_incl:t.end_index_excl]) for t in T.tokenise(text)]
        except Exception as e:  # noqa
            return type(e).__name__ + ":" + str(getattr(e, "index", ""))
    for pr in progs:
        base = sig(" ".join(pr))
        if not isinstance(base, list) or [b[1] for b in base] != pr:
            continue
        for w in allws:
            for text in (w.join(pr), w + " ".join(pr) + w, (w + w).join(pr)):
                got = sig(text)
                ctx.count("ws-any:" + hexs(text), bucket="every whitespace character as separator")
                if got != base:
                    ctx.violation("lex-ws:" + " ".join(pr) + " with U+%04X" % ord(w), text, "the tokens of %r" % " ".join(pr),
                                  got if isinstance(got, str) else "%d tokens: %r" % (len(got), got[:6]), "ka.tokens.tokenise(%r)" % text)
                    break
    ctx.cov["whitespace_insertion_relexes"] = ws_runs
    ctx.cov["exhaustive_strings"] = n_exh
    ctx.correspond("lex", cases, describe=lambda s: repr(s))

    # ---- wider Unicode: oracle only (outside the model's alphabet)
    for _ in range(ctx.n(2000, 40000)):
        s = "".join(rng.choice(WIDE) if rng.random() < 0.3 else rng.choice(CORE) for _ in range(rng.randrange(1, 7)))
        if s in seen:
            continue
        seen.add(s)
        r = Lexed(T, s)
        ctx.count(s, nontrivial=True, bucket="wide/" + ("ok" if r.ok else r.err))
        oracle(ctx, T, s, r, how % repr(s))
        ws_oracle(ctx, T, s, r, rng, how % repr(s), every=False)


LEVEL_TEXT = ("Machine-checked proof (Lean 4) over an executable model of ka.tokens (tokenise, read_token dispatch, constant-token "
              "scan over the generated CONST_TOKENS table, identifier/number/string/instant readers): for every string, of any length, "
              "token spans are ordered, non-empty, inside the input and separated by whitespace only; read_token depends only on the "
              "suffix; inserting whitespace anywhere that is not strictly inside a token leaves the tokens (tags, values) unchanged and "
              "only moves later spans; constant tokens are longest-match (table facts re-checked by the kernel on every run); integer, "
              "based and scientific literals have the exact value of their spelling; a..b splits into number, range, number; to/in are "
              "keywords exactly when not followed by a letter; string/instant literals close at the first (unescaped) delimiter or are "
              "reported at their opening position. The hand-written readers are tied to the code by exhaustive correspondence over all short "
              "strings of a core alphabet plus structured and random inputs, and by the translator's check of the regex sources.")
LEVEL_NOTE = ("Theorems are about the model (Model/Lexer.lean). The based-literal theorem is `_partial`: it excludes a second binary "
              "prefix (`0b0b1` is read as 1 by the current tree: recorded finding, fix proposed; the translator probes the code and the "
              "exclusion disappears once the fix is in). Decimal literals: the model rounds the exact decimal to a double; the "
              "1e-15 claim is corresponded and checked by the oracle, not proved. Characters outside the model alphabet (e.g. Unicode "
              "whitespace/numeric characters) are tested against the oracle on the real code only.")
TECHNIQUE = "Lean 4 proofs by induction over the input + generated token table (kernel decide) + exhaustive/differential correspondence"


# ---- refinement lemmas of the unified pipeline model for this property (Props/Pipeline2.lean): the fragment this check's
# theorems are about IS what the whole-program model computes on the fragment's sub-language
import pipeline as _pl
LEAN_MODULES = LEAN_MODULES + [m for m in _pl.LEAN_MODULES2 if m not in LEAN_MODULES]
THEOREMS = THEOREMS + [t for t in _pl.THEOREMS2.get(ID, []) if t not in THEOREMS]
GEN = GEN + [g for g in _pl.GEN if g not in GEN]
