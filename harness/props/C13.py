"""C13 — unit names resolve uniquely, prefixes scale exactly, sizes match definitions."""
import os, json
from fractions import Fraction
import core

ID = "C13"
LEAN_MODULES = ["KaVerif.Props.C13"]
GEN = ["Units"]
# facts of the REVIEWED tree that a harmless change can take away (a new unit has no reference entry yet, an alias is a key that is
# not the unit's own spelling): when they no longer build, the run says so in a NOTE and in the evidence — it is not a lost tie
OPTIONAL_MODULES = ["KaVerif.Props.C13Complete"]
OPTIONAL_THEOREMS = ["KaVerif.C13_reference_complete", "KaVerif.C13_sizes_all", "KaVerif.C13_maps_own_spellings"]
THEOREMS = ["KaVerif.C13_exact_wins", "KaVerif.C13_prefix_unique", "KaVerif.C13_prefix_scales", "KaVerif.C13_unknown_iff",
            "KaVerif.C13_code_points", "KaVerif.C13_reachable", "KaVerif.C13_maps_wellformed", "KaVerif.C13_prefix_mult",
            "KaVerif.C13_prefix_table", "KaVerif.C13_prefixes_distinct", "KaVerif.C13_dimensions", "KaVerif.C13_sizes", "KaVerif.C13_reference_covered",
            "KaVerif.C13_currencies", "KaVerif.C13_ratios", "KaVerif.C13_ratios_rounded_partial",
            "KaVerif.C13_offset_units_refuse", "KaVerif.C13_case_sensitive"]
RULE = ("EVERY registered spelling (names and symbols, ~800) and EVERY prefix x unit x {symbol-prefix+symbol, name-prefix+singular, "
        "name-prefix+plural} (~20k, both tiers) plus wrong-tier combinations (name-prefix+symbol, symbol-prefix+name; sampled in the "
        "quick tier, all in the thorough tier), case variants (upper/lower/swapcase/capitalize) of registered and prefixed spellings, "
        "doubly prefixed, truncated and random spellings: real ka.units.lookup_unit vs the Lean model (unit index, multiple, kind, "
        "offset, prefixed flag; exact for int/Fraction, 1e-12 relative for float units), and the model's count of readings vs an "
        "independent brute-force reading enumeration over UNITS; `1 <spelling>` and `1 <spelling> to <unit>` through "
        "tokenise->parse->eval for every registered spelling and for uniquely-read prefixed spellings (sampled in the quick tier); "
        "oracle = hand-written reference table (dimension, size, ratios). non-trivial = the spelling resolves to a unit or is "
        "refused; distinct = distinct spelling")
ASSUMPTIONS = ["Python str operations (in dict, startswith, slicing) compare code points (CPython semantics)",
               "the reference sizes in harness/data/C13_unitref.json are the physical definitions (hand-written from the SI brochure, "
               "the 1959 yard/pound agreement, the UK imperial volume definitions; year = Julian year, the code uses 365 d)",
               "float-valued multiples: the model multiplies exact values; Python rounds prefix*multiple to a double (compared within 1e-12)"]
LEVEL_TEXT = ("Machine-checked proof (Lean 4). Generic theorems over EVERY unit table: a registered spelling always means its unit; a "
              "spelling with a unique prefixed reading resolves to that unit with multiple = prefix multiplier x unit multiple exactly "
              "(InvalidPrefixError on offset units); None exactly when there is no reading. Table theorems by complete kernel evaluation "
              "over the unit table regenerated from the live ka.units on every run: all 267 units reachable under all their spellings, "
              "prefix multipliers = base^exp, dimensions and sizes (1 %) against a hand-written reference, definitional ratios, "
              "offset units refuse all 25 prefixes, case-sensitivity examples. lookup_unit itself is hand-modelled and tied to the code "
              "by exhaustive correspondence (all ~20k prefix x unit x spelling lookups).")
LEVEL_NOTE = ("Trusted: the translator's printing of ka.units; the reference table; IEEE rounding of float multiples is not modelled "
              "(exact product, compared within 1e-12).")
TECHNIQUE = "Lean 4: generic induction over the prefix list + complete kernel decide over the generated unit table + exhaustive correspondence"


def q(s):
    a, _, b = s.partition("/")
    return Fraction(a) / (Fraction(b) if b else 1)


def kind_of(x):
    return "f" if isinstance(x, float) else ("i" if isinstance(x, int) else "q")


def canon_num(x):
    f = Fraction(x)
    return "%s:%d/%d" % (kind_of(x), f.numerator, f.denominator)


def parse_num(s):
    k, _, r = s.partition(":")
    n, d = r.split("/")
    return k, Fraction(int(n), int(d))


def close(a, b, rel):
    return abs(a - b) <= rel * max(abs(a), abs(b))


def check(ctx):
    R = ctx.real
    U = R.units
    rng = ctx.rng
    units = list(U.UNITS)
    uid = {id(u): i for i, u in enumerate(units)}
    NOPL = U.Unit.NO_PLURAL
    prefixes = list(U.PREFIXES)
    ref = json.load(open(os.path.join(core.VERIF, "harness", "data", "C13_unitref.json"), encoding="utf-8"))
    refu = {r["symbol"]: r for r in ref["units"]}
    gen = json.load(open(os.path.join(core.LEAN, "KaVerif", "Gen", "units.json"), encoding="utf-8"))
    if [u["symbol"] for u in gen["units"]] != [u.symbol for u in units] or len(gen["prefixes"]) != len(prefixes):
        ctx.broken("Gen/units.json is stale w.r.t. the running ka.units (translator did not run?)")

    # ------------------------------------------------------------------ independent brute-force resolver over UNITS
    by_spelling = {}            # spelling -> set of unit indices registered under it (from UNITS, not from the dicts)
    name_of, sym_of = {}, {}
    for i, u in enumerate(units):
        for w in [u.singular_name] + ([u.plural_name] if u.plural_name != NOPL else []):
            name_of.setdefault(w, set()).add(i)
            by_spelling.setdefault(w, set()).add(i)
        sym_of.setdefault(u.symbol, set()).add(i)
        by_spelling.setdefault(u.symbol, set()).add(i)

    # ALIASES: a key of the two maps (taken as a snapshot now, before any lookup) that points at a unit under another spelling than the
    # unit's own three — e.g. `meter` for the metre — is a registered spelling of that unit as well
    idx_of = {id(u): i for i, u in enumerate(units)}
    for table_, store in ((U.NAME_TO_UNIT, name_of), (U.SYMBOL_TO_UNIT, sym_of)):
        for w, uo in list(table_.items()):
            if id(uo) in idx_of and idx_of[id(uo)] not in by_spelling.get(w, ()):
                store.setdefault(w, set()).add(idx_of[id(uo)])
                by_spelling.setdefault(w, set()).add(idx_of[id(uo)])

    def pmult(p):
        return Fraction(p.base) ** p.exponent          # the documented meaning of the prefix, not p.multiplier

    def readings(w):
        rs = set()
        for p in prefixes:
            if p.name_prefix and w.startswith(p.name_prefix):
                for i in name_of.get(w[len(p.name_prefix):], ()):
                    rs.add((pmult(p), i))
            if p.symbol_prefix and w.startswith(p.symbol_prefix):
                for i in sym_of.get(w[len(p.symbol_prefix):], ()):
                    rs.add((pmult(p), i))
        return rs

    def classify(w):
        """('registered', i) | ('conflict', set) | ('unique', mult, i) | ('ambiguous', set) | ('none',)"""
        if w in by_spelling:
            s = by_spelling[w]
            return ("registered", next(iter(s))) if len(s) == 1 else ("conflict", s)
        rs = readings(w)
        if not rs:
            return ("none",)
        if len(rs) == 1:
            m, i = next(iter(rs))
            return ("unique", m, i)
        return ("ambiguous", rs)

    # ------------------------------------------------------------------ spellings
    spellings = []              # (spelling, origin bucket)
    seen = set()

    def add(w, bucket):
        if w not in seen and "\n" not in w and "\r" not in w:
            try:
                w.encode("utf-8")
            except UnicodeEncodeError:
                return
            seen.add(w)
            spellings.append((w, bucket))
    for w in list(U.NAME_TO_UNIT) + list(U.SYMBOL_TO_UNIT):
        add(w, "registered")
    for u in units:
        for w in (u.symbol, u.singular_name) + ((u.plural_name,) if u.plural_name != NOPL else ()):
            add(w, "registered")
    for p in prefixes:
        for u in units:
            add(p.symbol_prefix + u.symbol, "prefix:sym+sym")
            add(p.name_prefix + u.singular_name, "prefix:name+singular")
            if u.plural_name != NOPL:
                add(p.name_prefix + u.plural_name, "prefix:name+plural")
    cross = []
    for p in prefixes:
        for u in units:
            cross.append(p.name_prefix + u.symbol)
            cross.append(p.symbol_prefix + u.singular_name)
    if ctx.quick():
        cross = rng.sample(cross, min(len(cross), 2500))
    for w in cross:
        add(w, "wrong-tier")
    base = [w for w, _ in spellings if _ == "registered"]
    pre_sample = rng.sample([w for w, b in spellings if b.startswith("prefix")], ctx.n(1500, 8000))
    for w in base + pre_sample:
        for v in (w.upper(), w.lower(), w.swapcase(), w.capitalize(), w[:1].swapcase() + w[1:]):
            if v != w:
                add(v, "case-variant")
    for w in rng.sample(base, min(len(base), ctx.n(300, 798))):
        for p in rng.sample(prefixes, 3):
            q2 = rng.choice(prefixes)
            add(p.symbol_prefix + q2.symbol_prefix + w, "double-prefix")
            add(p.name_prefix + q2.name_prefix + w, "double-prefix")
        add(w[:-1], "truncated"); add(w + "s", "extra-s"); add(w + w, "doubled"); add(" " + w, "space"); add(w + " ", "space")
    alphabet = "abcdefghijklmnopqrstuvwxyzABCDEGHKMPSTVWYZμ$€£¥_0"
    for _ in range(ctx.n(500, 5000)):
        add("".join(rng.choice(alphabet) for _ in range(rng.randrange(1, 5))), "random")
    for w in ("", "noplural", "μ", "da", "k", "Ki", "kilo", "deca", "m", "mm", "Mm", "min", "Min", "cd", "dad", "dam", "damin", "PA", "pa"):
        add(w, "hand-picked")

    # ------------------------------------------------------------------ real lookup_unit on all of them
    def real_lookup(w):
        try:
            r = U.lookup_unit(w)
        except U.InvalidPrefixError:
            return "err invalidprefix", None
        except Exception as e:  # noqa
            return "err " + core.err_code(e), None
        if r is None:
            return "none", None
        if id(r) in uid:
            i, prefixed = uid[id(r)], 0
        else:
            reg = U.SYMBOL_TO_UNIT.get(r.symbol)
            i, prefixed = uid.get(id(reg), -1), 1
        return "ok %d %s %s %d" % (i, canon_num(r.multiple), canon_num(r.offset), prefixed), r

    results = {}
    with core.alarm(ctx.n(120, 600)):
        for w, b in spellings:
            results[w] = real_lookup(w)

    # ------------------------------------------------------------------ correspondence with the Lean model
    def hexs(w):
        return w.encode("utf-8").hex() if w else "-"

    def agree(real, model, info):
        if real == model:
            return True
        a, b = real.split(" "), model.split(" ")
        if a[0] != "ok" or b[0] != "ok" or len(a) != 5 or len(b) != 5 or a[1] != b[1] or a[3] != b[3] or a[4] != b[4]:
            return False
        (ka_, va), (kb, vb) = parse_num(a[2]), parse_num(b[2])
        return ka_ == kb == "f" and close(va, vb, Fraction(1, 10**12))
    cases = [("unit " + hexs(w), results[w][0], w) for w, b in spellings]
    ctx.correspond("unit", cases, agree=agree)
    # the decided hypothesis of C13_prefix_unique: model's reading enumeration vs the brute force above
    rcases = []
    n_unique = 0
    for w, b in spellings:
        c = classify(w)
        if c[0] in ("registered", "conflict"):
            exp = "exact"
        elif c[0] == "none":
            exp = "noreading"
        elif c[0] == "unique":
            exp = "uniq %d %d/%d" % (c[2], c[1].numerator, c[1].denominator)
            n_unique += 1
        else:
            exp = "ambig"
        rcases.append(("unitq " + hexs(w), exp, w))
    ctx.correspond("unitq", rcases, agree=lambda r, m, i: r == m or (r == "ambig" and m.startswith("ambig ")))
    ctx.notes.append("spellings satisfying the hypotheses of C13_prefix_unique on the current table (not registered, exactly one "
                     "(multiplier, unit) reading): %d of %d tested" % (n_unique, len(spellings)))

    # ------------------------------------------------------------------ oracle on the real results
    how = "HOME=<empty> python -c 'import ka.units as U; print(U.lookup_unit(%r))'"
    for w, b in spellings:
        ans, r = results[w]
        c = classify(w)
        ctx.count(w, nontrivial=(ans != "none"), bucket="%s/%s" % (b.split(":")[0], c[0]))
        if c[0] == "registered":
            u = units[c[1]]
            if r is not u:
                ctx.violation("reach:%s" % w, w, "the registered unit %s (%s), unprefixed" % (u.symbol, u.singular_name), ans, how % w)
        elif c[0] == "conflict":
            ctx.violation("conflict:%s" % w, w, "one meaning", "registered for units %s" % sorted(units[i].symbol for i in c[1]), how % w)
        elif c[0] == "unique":
            m, i = c[1], c[2]
            u = units[i]
            if u.offset != 0:
                if ans != "err invalidprefix":
                    ctx.violation("offset-prefix:%s" % w, w, "InvalidPrefixError (prefix on offset unit %s)" % u.symbol, ans, how % w)
            elif r is None:
                ctx.violation("prefix:%s" % w, w, "%s scaled by %s" % (u.symbol, m), ans, how % w)
            else:
                ok = (r.symbol == u.symbol and r.quantity_vector == u.quantity_vector and r.offset == u.offset
                      and r.singular_name == u.singular_name)
                if isinstance(u.multiple, float) or isinstance(r.multiple, float):
                    okm = close(Fraction(r.multiple), m * Fraction(u.multiple), Fraction(1, 10**12))
                else:
                    okm = (Fraction(r.multiple) == m * Fraction(u.multiple))
                if not (ok and okm):
                    ctx.violation("prefix:%s" % w, w, "%s with multiple %s x %r" % (u.symbol, m, u.multiple),
                                  "%s multiple %r" % (r.symbol, r.multiple), how % w)
            if len(ctx.cov["samples"]) < 6 and rng.random() < 0.001:
                ctx.sample(dict(spelling=w, reading="%s x %s" % (m, u.symbol), real=ans))
        elif c[0] == "none":
            if ans != "none":
                ctx.violation("phantom:%s" % w, w, "no unit (not registered, no prefixed reading; names are case-sensitive)", ans, how % w)
        # ambiguous: the property does not say which reading wins

    # prefix table against the reference (SI brochure + binary prefixes), multipliers, duplicates
    refp = {(n, sy): (b, e) for n, sy, b, e in ref["prefixes"]}
    for (n, sy), (b, e) in refp.items():
        if not any(p.name_prefix == n and p.symbol_prefix == sy for p in prefixes):
            ctx.violation("prefix-missing:%s/%s" % (n, sy), n, "prefix %s (%s) = %d^%d" % (n, sy, b, e), "not in PREFIXES", "ka.units.PREFIXES")
    for p in prefixes:
        r = refp.get((p.name_prefix, p.symbol_prefix))
        if r is None:
            ctx.notes.append("prefix %s/%s has no reference entry (not judged)" % (p.name_prefix, p.symbol_prefix))
        elif Fraction(p.multiplier) != Fraction(r[0]) ** r[1]:
            ctx.violation("prefix-ref:%s/%s" % (p.name_prefix, p.symbol_prefix), "1 %sm to m" % p.symbol_prefix,
                          "%d^%d" % r, repr(p.multiplier), "ka: `1 %sm to m`" % p.symbol_prefix)
    for p in prefixes:
        ctx.count("prefix-mult:" + p.name_prefix + "/" + p.symbol_prefix, bucket="prefix-table")
        if Fraction(p.multiplier) != pmult(p) or isinstance(p.multiplier, float):
            ctx.violation("prefix-mult:%s" % p.name_prefix, p.name_prefix, "%d^%d exactly" % (p.base, p.exponent), repr(p.multiplier),
                          "ka.units.PREFIXES")
        for p2 in prefixes:
            if p2 is not p and (p2.name_prefix == p.name_prefix or p2.symbol_prefix == p.symbol_prefix) and pmult(p) != pmult(p2):
                ctx.violation("prefix-dup:%s/%s" % (p.name_prefix, p.symbol_prefix), p.name_prefix,
                              "one multiplier per prefix spelling", "%s vs %s" % (pmult(p), pmult(p2)), "ka.units.PREFIXES")

    # currency units: the definition of a currency unit's size is its row of the rate table (base rate / own rate), and the
    # sign aliases ($ € £ ¥) are further spellings of their currency: "one and the same meaning"
    try:
        rows = {}
        for c in U.CURRENCY_DATA:
            rows.setdefault(c.symbol, c.dollar_rate)
        base_rate = rows.get(U.BASE_CURRENCY)
    except Exception:  # noqa
        rows, base_rate = {}, None
    if base_rate:
        for code, rate in rows.items():
            if not (rate > 0) or rate != rate or rate == float("inf"):
                continue
            u = U.SYMBOL_TO_UNIT.get(code)
            if u is None or "cash" not in u.quantities:
                continue                      # the code clashes with a physical unit: not registered (C20's subject)
            ctx.count("cash-size:" + code, bucket="currency-sizes")
            want = Fraction(base_rate) / Fraction(rate)
            if not close(Fraction(u.multiple), want, Fraction(1, 10**12)):
                ctx.violation("size:%s" % code, code, "table rate of the base / table rate of %s = %r" % (code, float(want)), repr(u.multiple),
                              "ka.units.SYMBOL_TO_UNIT[%r].multiple" % code)
            sign = getattr(U, "SPECIAL_CURRENCY_SYMBOLS", {}).get(code)
            su = U.SYMBOL_TO_UNIT.get(sign) if sign else None
            if su is not None and "cash" in su.quantities:
                ctx.count("cash-sign:" + sign, bucket="currency-sizes")
                for w in [sign] + ["k" + sign, "M" + sign]:
                    r_ = R.value("1 %s to %s" % (w, code))
                    wantv = {"k": 1000, "M": 10**6}.get(w[0], 1) if w != sign else 1
                    okv = r_[0] == "ok" and close(Fraction(r_[1].mag if hasattr(r_[1], "mag") else r_[1]), Fraction(wantv), Fraction(1, 10**9))
                    if not okv:
                        ctx.violation("alias:%s" % w, "1 %s to %s" % (w, code), str(wantv), repr(r_)[:100], "execute('1 %s to %s')" % (w, code))

    # dimensions, sizes, offsets against the reference
    nb = len(U.BASE_UNITS)
    if list(U.BASE_UNITS[:7]) != ref["si_base"]:
        ctx.violation("base-units", str(U.BASE_UNITS), str(ref["si_base"]), str(U.BASE_UNITS[:7]), "ka.units.BASE_UNITS")
    unjudged = []
    for u in units:
        if "cash" in u.quantities:
            continue
        r = refu.get(u.symbol)
        ctx.count("ref:" + u.symbol, bucket="reference")
        if r is None:
            unjudged.append(u.symbol)
            continue
        dim = list(u.quantity_vector.v.xs)
        if dim[:7] != r["dim"] or any(dim[7:]):
            ctx.violation("dim:%s" % u.symbol, u.symbol, "SI dimension %s (kg m s A K mol cd)" % r["dim"], str(dim),
                          "ka.units.SYMBOL_TO_UNIT[%r].quantity_vector" % u.symbol)
        size = q(r["size"])
        if abs(Fraction(u.multiple) - size) * 100 > size:
            ctx.violation("size:%s" % u.symbol, u.symbol, "within 1%% of %s (= %s)" % (r["size"], float(size)), repr(u.multiple),
                          "ka.units.SYMBOL_TO_UNIT[%r].multiple; `1 %s` in ka" % (u.symbol, u.singular_name))
        off = q(r.get("offset", "0"))
        if (off == 0) != (u.offset == 0) or abs(Fraction(u.offset) - off) * 100 > off:
            ctx.violation("offset:%s" % u.symbol, u.symbol, "offset %s" % r.get("offset", "0"), repr(u.offset),
                          "ka.units.SYMBOL_TO_UNIT[%r].offset" % u.symbol)
    for s in refu:
        reg = U.SYMBOL_TO_UNIT.get(s)
        if reg is None or "cash" in reg.quantities:
            ctx.violation("missing:%s" % s, s, "a registered physical unit with symbol %r" % s, "not registered", "ka.units.SYMBOL_TO_UNIT")
    if unjudged:
        ctx.notes.append("physical units without a reference entry (not judged): %s" % unjudged)

    # definitional ratios on lookup_unit
    for key, tol in (("ratios", Fraction(1, 10**12)), ("loose_ratios", Fraction(1, 100))):
        for a, k, b in ref[key]:
            ra, rb = real_lookup(a)[1], real_lookup(b)[1]
            ctx.count("ratio:%s/%s" % (a, b), bucket="ratio")
            if ra is None or rb is None:
                ctx.violation("ratio:%s/%s" % (a, b), "%s, %s" % (a, b), "both resolve", "%s / %s" % (real_lookup(a)[0], real_lookup(b)[0]), how % a)
                continue
            ma, mb = Fraction(ra.multiple), Fraction(rb.multiple)
            exact = not isinstance(ra.multiple, float) and not isinstance(rb.multiple, float) and key == "ratios"
            good = (ma == k * mb) if exact else close(ma, k * mb, tol)
            if ra.quantity_vector != rb.quantity_vector or not good:
                ctx.violation("ratio:%s/%s" % (a, b), "1 %s to %s" % (a, b), "%d%s" % (k, "" if exact else " (within %s)" % float(tol)),
                              "%s" % (float(ma / mb) if mb else "?"), "ka: `1 %s to %s`" % (a, b))

    # ------------------------------------------------------------------ through the pipeline: tokenise -> parse -> eval
    Q = R.types.Quantity
    typed_cache = {}

    def typed(w, u):
        """does `1 <w>` reach unit u's registered spelling w through the pipeline?"""
        if w not in typed_cache:
            st, v = R.value("1 " + w)
            typed_cache[w] = (st, v)
        return typed_cache[w]

    def one_identifier(w):
        try:
            toks = R.tokens.tokenise("1 " + w)
        except Exception:  # noqa
            return False
        return len(toks) == 2 and toks[1].tag == R.tokens.Tokens.VAR and toks[1].meta("name") == w

    def target_of(u):
        for w in (u.symbol, u.singular_name):
            st, v = typed(w, u)
            if st == "ok" and isinstance(v, Q):
                return w
        return None

    def base_spelling(w, c):
        """the registered spelling inside a prefixed one (for keying findings)"""
        if c[0] == "registered":
            return w
        for p in prefixes:
            for pre in (p.name_prefix, p.symbol_prefix):
                if w.startswith(pre) and w[len(pre):] in by_spelling:
                    return w[len(pre):]
        return w
    pipe = [(w, classify(w)) for w, b in spellings if b == "registered"]
    uniq = [(w, classify(w)) for w, b in spellings if b.startswith("prefix") and classify(w)[0] == "unique"]
    if ctx.quick():
        uniq = rng.sample(uniq, min(len(uniq), 2500))
    for w, c in pipe + uniq:
        if c[0] not in ("registered", "unique"):
            continue
        u = units[c[1] if c[0] == "registered" else c[2]]
        m = Fraction(1) if c[0] == "registered" else c[1]
        ctx.count("typed:" + w, bucket="pipeline")
        st, v = typed(w, u)
        if not one_identifier(w):
            # the spelling does not reach lookup_unit as one name: it can only count if the language reads it as this unit anyway
            expq = m * Fraction(u.multiple) + Fraction(u.offset)
            if not (st == "ok" and isinstance(v, Q) and v.qv == u.quantity_vector and close(Fraction(v.mag), expq, Fraction(1, 10**12))):
                bw = base_spelling(w, c)
                if bw == w or one_identifier(bw) or typed(bw, u)[0] == "ok":   # prefixed: reported only if the unprefixed spelling can be typed
                    ctx.violation("typed:%s" % w, "1 " + w, "the spelling %r of unit %s can be typed: `1 %s` is that quantity" % (w, u.symbol, w),
                                  "%s (tokens: %s)" % (v, _toks(R.tokens, "1 " + w)), "ka: `1 %s`" % w)
                continue
        if u.offset != 0 and c[0] == "unique":
            if st != "err":
                ctx.violation("offset-prefix:%s" % w, "1 " + w, "an error (prefix on offset unit)", repr(v), "ka: `1 %s`" % w)
            continue
        expmag = m * Fraction(u.multiple) + Fraction(u.offset)
        if st != "ok" or not isinstance(v, Q) or v.qv != u.quantity_vector or not close(Fraction(v.mag), expmag, Fraction(1, 10**12)) \
                or (not isinstance(u.multiple, float) and Fraction(v.mag) != expmag):
            ctx.violation("pipeline:%s" % w, "1 " + w, "Quantity %s of dimension %s" % (expmag, u.quantity_vector.prettified()),
                          repr(v), "ka: `1 %s`" % w)
            continue
        tgt = target_of(u)
        if tgt is None:
            continue
        st, v = R.value("1 %s to %s" % (w, tgt))
        good = st == "ok" and isinstance(v, (int, Fraction, float)) and not isinstance(v, bool)
        if good:
            good = close(Fraction(v), m, Fraction(1, 10**12)) if (isinstance(u.multiple, float) or isinstance(v, float)) else Fraction(v) == m
        if not good:
            ctx.violation("convert:%s" % w, "1 %s to %s" % (w, tgt), str(m), repr(v), "ka: `1 %s to %s`" % (w, tgt))
    # the same prefixed spelling ABOVE and BELOW the `|` of a signature, in both orders within one process: what a prefixed
    # spelling contributes depends on its exponent's sign at that use, not on how the spelling was used before
    cand = [(w, c) for w, c in uniq if c[0] == "unique" and units[c[2]].offset == 0 and not isinstance(units[c[2]].multiple, float)
            and one_identifier(w) and target_of(units[c[2]]) is not None]
    rng.shuffle(cand)
    half = ctx.n(60, 1200)
    for idx, (w, c) in enumerate(cand[: 2 * half]):
        u, m = units[c[2]], c[1]
        tgt = target_of(u)
        other = "s" if "s" not in (tgt, w) and u.quantity_vector != units[sorted(by_spelling["s"])[0]].quantity_vector else "kg"
        num = ("1 %s to %s" % (w, tgt), m)
        den = ("6 %s | %s to %s | %s" % (other, w, other, tgt), Fraction(6) / m)
        for text, want in ((num, den) if idx < half else (den, num)):
            st, v = R.value(text)
            ctx.count("updown:" + text, bucket="pipeline/above-and-below")
            if st != "ok" or isinstance(v, bool) or not isinstance(v, (int, Fraction, float)) or \
                    (Fraction(v) != want if (text == num[0] and not isinstance(v, float)) else not close(Fraction(v), want, Fraction(1, 10**12))):
                # (below the bar the factor is used with a negative exponent: C04 promises 1e-9 there, not exactness)
                ctx.violation("updown:%s" % text, text + ("   (after `%s`)" % (num[0] if text == den[0] else den[0]) if (text == den[0]) == (idx < half) else ""),
                              str(want), repr(v), "one process: `%s` then `%s`" % ((num[0], den[0]) if idx < half else (den[0], num[0])))
    # … and units whose factor is a FLOAT (in, ft, mi, lb, gal, eV, ly …), plain and prefixed, below the bar of a signature whose part
    # above it has an integral factor: a value of the right size (1e-9: the factor is used with a negative exponent), never an escape
    candf = [(w, c) for w, c in uniq if c[0] == "unique" and units[c[2]].offset == 0 and isinstance(units[c[2]].multiple, float)
             and one_identifier(w) and target_of(units[c[2]]) is not None and "cash" not in units[c[2]].quantities]
    rng.shuffle(candf)
    for w, c in candf[: ctx.n(80, 1500)]:
        u, m = units[c[2]], c[1]
        tgt = target_of(u)
        other = rng.choice(["m", "s", "A"])
        if units[sorted(by_spelling[other])[0]].quantity_vector == u.quantity_vector:
            other = "K"
        text = "6 %s | %s to %s | %s" % (other, w, other, tgt)
        st, v = R.value(text)
        ctx.count("below-bar-float:" + text, bucket="pipeline/float factor below the bar")
        if st != "ok" or isinstance(v, bool) or not isinstance(v, (int, Fraction, float)) or not close(Fraction(v), Fraction(6) / m, Fraction(1, 10**9)):
            ctx.violation("updown:%s" % text, text, "%s (1e-9)" % float(Fraction(6) / m), repr(v), "execute(%r)" % text)
    # a registered spelling that ALSO splits into prefix + unit (cd, ft, min, pt, yd, kyd, php …) always means the registered unit:
    # as a conversion TARGET too, whatever the dimension of the source (a source of the split reading's dimension must be refused)
    for w, b_ in spellings:
        if b_ != "registered" or w not in by_spelling:
            continue
        splits = [(pmult(p), i) for p in prefixes for (pre, table) in ((p.name_prefix, "n"), (p.symbol_prefix, "s"))
                  if w.startswith(pre) and len(w) > len(pre) for i in sorted(by_spelling.get(w[len(pre):], ()))
                  if (w[len(pre):] in (units[i].singular_name, units[i].plural_name)) == (table == "n")]
        reg = units[sorted(by_spelling[w])[0]]
        for m, i in splits:
            u2 = units[i]
            if u2.quantity_vector == reg.quantity_vector or u2.offset != 0 or not one_identifier(w):
                continue
            src = target_of(u2)
            if src is None or typed(w, reg)[0] != "ok":
                continue
            text = "7 %s to %s" % (src, w)
            st, v = R.value(text)
            ctx.count("split-target:" + text, bucket="pipeline/registered-wins-as-target")
            if st == "ok":
                ctx.violation("split-target:%s" % w, text, "an error: %r is the registered unit %s (%s), not %s-%s" % (w, reg.symbol, reg.quantity_vector.prettified(), "prefix", u2.symbol),
                              repr(v), "ka: `%s`" % text)
    # one base unit under two different prefixes inside ONE signature: each occurrence is scaled by its own prefix
    mixed = [(w, c) for w, c in cand[: ctx.n(80, 1500)]]
    for w, c in mixed:
        u, m = units[c[2]], c[1]
        tgt = target_of(u)
        oth = "m" if u.quantity_vector != units[sorted(by_spelling["m"])[0]].quantity_vector else "s"
        for text, want in (("1 %s | %s" % (w, tgt), m), ("1 %s %s to %s^2" % (w, tgt, tgt), m), ("1 %s %s to %s^2" % (tgt, w, tgt), m),
                           # the prefixed spelling FOLLOWED by another unit name, in a literal and in a target
                           ("1 %s %s to %s %s" % (w, oth, tgt, oth), m), ("(%s) %s %s to %s %s" % (m, tgt, oth, w, oth), Fraction(1))):
            st, v = R.value(text)
            ctx.count("mixed-prefix:" + text, bucket="pipeline/same-unit-two-prefixes")
            val = v.mag if (st == "ok" and isinstance(v, Q) and not any(v.qv.v.xs)) else v
            if st != "ok" or isinstance(val, bool) or not isinstance(val, (int, Fraction, float)) or not close(Fraction(val), want, Fraction(1, 10**12)):
                ctx.violation("mixed-prefix:%s" % text, text, str(want), repr(v), "ka: `%s`" % text)
    # every SHORT prefixed spelling (the ones a new word of the language could collide with) followed by another unit name
    for w, b_ in spellings:
        if len(w) > 3 or not b_.startswith("prefix"):
            continue
        c = classify(w)
        if c[0] != "unique" or units[c[2]].offset != 0 or isinstance(units[c[2]].multiple, float) or not one_identifier(w):
            continue
        u, m = units[c[2]], c[1]
        tgt = target_of(u)
        if tgt is None:
            continue
        oth = "m" if u.quantity_vector != units[sorted(by_spelling["m"])[0]].quantity_vector else "s"
        text = "1 %s %s to %s %s" % (w, oth, tgt, oth)
        st, v = R.value(text)
        ctx.count("short-followed:" + text, bucket="pipeline/short-spelling-followed-by-a-unit")
        if st != "ok" or isinstance(v, bool) or not isinstance(v, (int, Fraction, float)) or not close(Fraction(v), m, Fraction(1, 10**12)):
            ctx.violation("mixed-prefix:%s" % text, text, str(m), repr(v), "ka: `%s`" % text)
    # ratios through the pipeline
    for a, k, b in ref["ratios"]:
        if R.value("1 " + a)[0] == "ok" and R.value("1 " + b)[0] == "ok":
            st, v = R.value("1 %s to %s" % (a, b))
            ctx.count("ratio-pipeline:%s/%s" % (a, b), bucket="pipeline")
            if st != "ok" or isinstance(v, bool) or not isinstance(v, (int, Fraction, float)) or not close(Fraction(v), Fraction(k), Fraction(1, 10**12)):
                ctx.violation("ratio:%s/%s" % (a, b), "1 %s to %s" % (a, b), str(k), repr(v), "ka: `1 %s to %s`" % (a, b))
    ctx.sample(dict(spellings=len(spellings), unique_reading=n_unique, registered=len(base)))


def _toks(T, text):
    try:
        return [t.tag for t in T.tokenise(text)]
    except Exception as e:  # noqa
        return type(e).__name__


# ---- refinement lemmas of the unified pipeline model for this property (Props/Pipeline2.lean): the fragment this check's
# theorems are about IS what the whole-program model computes on the fragment's sub-language
import pipeline as _pl
LEAN_MODULES = LEAN_MODULES + [m for m in _pl.LEAN_MODULES2 if m not in LEAN_MODULES]
THEOREMS = THEOREMS + [t for t in _pl.THEOREMS2.get(ID, []) if t not in THEOREMS]
GEN = GEN + [g for g in _pl.GEN if g not in GEN]
