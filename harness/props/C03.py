"""C03 — quantity algebra is dimensionally sound."""
import qty_common

ID = "C03"
LEAN_MODULES = ["KaVerif.Props.C03"]
GEN = ["Units"]
THEOREMS = ["KaVerif.C03_dim", "KaVerif.C03_reject", "KaVerif.C03_incompatible", "KaVerif.C03_number_is_dimensionless",
            "KaVerif.C03_spelling_independent", "KaVerif.composeUnits_dim"]
RULE = ("random quantity expression trees (depth<=4 quick / <=6 thorough) over ALL registered physical units and a sample of "
        "currencies, three spellings, random prefixes (only spellings whose reading the real lookup confirms), compound signatures "
        "`a b^n | c d^m` with negative exponents, the operators + - * / < <= == != and `to`, numbers on either side; mostly "
        "dimension-correct by construction plus a stream of mismatches; non-trivial = tree with a unit; distinct = distinct Ka text")
ASSUMPTIONS = ["unit dimension vectors are taken from the generated table (whether they are the SI ones is C13's subject)"]
LEVEL_TEXT = ("Machine-checked proof (Lean 4), for EVERY unit table and every expression tree over quantity literals, numbers, "
              "+ - * / the comparisons and `to` (structural induction): whenever the model evaluates, the result's dimension is what "
              "the dimension calculus gives from the units' dimension vectors alone (products add exponents, quotients subtract, a "
              "number is dimensionless on either side, prefixes/spellings/multiples do not enter), and whenever the calculus is "
              "undefined (different dimensions added/compared/converted, units on units, unknown unit) evaluation is an error and "
              "never a value. compose_units/make_quantity/convert_quantity/the operator wrapper are tied to the code by "
              "correspondence on random trees over the generated unit table; an independent dimension calculator is the oracle.")
LEVEL_NOTE = "Parsing of unit signatures is exercised through Ka text but proved in C02; unit lookup is C13's model (Model/Units.lean)."
TECHNIQUE = "Lean 4 structural induction over quantity expressions, generic in the unit table + correspondence over the generated table"


def check(ctx):
    qty_common.run(ctx, "C03")
    # units keep their meaning in a session whose variables are named like them (also like PREFIXED spellings)
    import namespace_common
    namespace_common.run(ctx, "ns")
    # ---- chains of two comparisons: if ANY link compares operands of different dimension there is no value — whichever link a
    # lazy evaluation would look at first, and whether that link is true or false
    import itertools
    R, rng = ctx.real, ctx.rng
    pools = {"L": ["2 m", "1 m", "150 cm", "3 km", "(1/2) inch"], "T": ["3 s", "1 min", "2 h"], "N": ["5", "1", "2", "(1/2)", "0"], "M": ["1 kg", "5 g"]}
    triples = [k for k in itertools.product("LTNM", repeat=3) if k[0] != k[1] or k[1] != k[2]]
    ops = ["<", "<=", ">", ">="]
    for _ in range(ctx.n(400, 5000)):
        ka, kb, kc = rng.choice(triples)
        a, b, c = rng.choice(pools[ka]), rng.choice(pools[kb]), rng.choice(pools[kc])
        o1, o2 = rng.choice(ops), rng.choice(ops)
        text = "%s %s %s %s %s" % (a, o1, b, o2, c)
        k, v = R.value(text)
        ctx.count("chain:" + text, bucket="comparison chains across dimensions")
        if k == "ok":
            ctx.violation("chain-dim:" + text, text, "an error (a link compares a %s with a %s)" % ((ka, kb) if ka != kb else (kb, kc)), repr(v),
                          "execute(%r)" % text)


# ---- refinement lemmas of the unified pipeline model for this property (Props/Pipeline2.lean): the fragment this check's
# theorems are about IS what the whole-program model computes on the fragment's sub-language
import pipeline as _pl
LEAN_MODULES = LEAN_MODULES + [m for m in _pl.LEAN_MODULES2 if m not in LEAN_MODULES]
THEOREMS = THEOREMS + [t for t in _pl.THEOREMS2.get(ID, []) if t not in THEOREMS]
GEN = GEN + [g for g in _pl.GEN if g not in GEN]

# ---- the quantity-operator closures of register_quantities_op (f, left_is_number, right_is_number for + - * / and the six
# comparisons) TRANSLATED from the source (Gen/Bodies.lean) are proved equal to the hand-written model bodies (Props/Bodies.lean)
LEAN_MODULES = LEAN_MODULES + [m for m in _pl.BODIES_MODULES if m not in LEAN_MODULES]
THEOREMS = THEOREMS + [t for t in _pl.bodies_theorems(("Quantity",)) if t not in THEOREMS]
GEN = GEN + [g for g in _pl.BODIES_GEN if g not in GEN]
