"""C03 — quantity algebra is dimensionally sound."""
import qty_common

ID = "C03"
LEAN_MODULES = ["KaVerif.Props.C03"]
GEN = ["Units"]
THEOREMS = ["KaVerif.C03_dim", "KaVerif.C03_reject", "KaVerif.C03_incompatible", "KaVerif.C03_number_is_dimensionless",
            "KaVerif.C03_spelling_independent", "KaVerif.composeUnits_dim"]
RULE = ("random quantity expression trees (depth<=4 quick / <=6 thorough) over ALL registered physical units and a sample of "
        "currencies, three spellings, random prefixes (only spellings whose reading the real lookup confirms), compound signatures "
        "`a b^n | c d^m` with negative exponents, the operators + - * / < <= == != and `to`, numbers on either side; mostly "
        "dimension-correct by construction plus a stream of mismatches; non-trivial = tree with a unit; distinct = distinct Ka text")
ASSUMPTIONS = ["unit dimension vectors are taken from the generated table (whether they are the SI ones is C13's subject)"]
LEVEL_TEXT = ("Machine-checked proof (Lean 4), for EVERY unit table and every expression tree over quantity literals, numbers, "
              "+ - * / the comparisons and `to` (structural induction): whenever the model evaluates, the result's dimension is what "
              "the dimension calculus gives from the units' dimension vectors alone (products add exponents, quotients subtract, a "
              "number is dimensionless on either side, prefixes/spellings/multiples do not enter), and whenever the calculus is "
              "undefined (different dimensions added/compared/converted, units on units, unknown unit) evaluation is an error and "
              "never a value. compose_units/make_quantity/convert_quantity/the operator wrapper are tied to the code by "
              "correspondence on random trees over the generated unit table; an independent dimension calculator is the oracle.")
LEVEL_NOTE = "Parsing of unit signatures is exercised through Ka text but proved in C02; unit lookup is C13's model (Model/Units.lean)."
TECHNIQUE = "Lean 4 structural induction over quantity expressions, generic in the unit table + correspondence over the generated table"


def check(ctx):
    qty_common.run(ctx, "C03")
    # units keep their meaning in a session whose variables are named like them (also like PREFIXED spellings)
    import namespace_common
    namespace_common.run(ctx, "ns")
    # ---- dimensions that differ in ONE exponent only, by one (… s^-1 against … s^-2, m against m^2, V against ohm, Wb against H, Hz
    # against s^-2): as different as any two dimensions — every + - comparison and `to` between them is rejected, in both orders
    R = ctx.real
    near = [("3 V", "2 ohm"), ("3 Wb", "2 H"), ("3 Hz", "2 s^-2"), ("3 m|s", "2 m|s^2"), ("1 W", "1 J"), ("1 N", "1 Pa m"), ("1 C", "1 A"), ("1 m^-1", "1 m^-2"),
            ("1 kg^-1", "1 kg^-2"), ("1 K^-1", "1 K^-2"), ("1 A^-1 s", "1 A^-2 s"), ("1 usd^-1", "1 usd^-2"), ("1 m^-2", "1 m^-3"), ("1 s^-1", "1"), ("1 m", "1 m^2"),
            ("1 mol^-1", "1 mol^-2"), ("1 cd^-1 m", "1 cd^-2 m"), ("2 J|kg K", "2 J|kg K^2"), ("5 eur|h", "5 eur|h^2"), ("1 m^2|s", "1 m^2|s^2")]
    for a, b in near:
        for x, y in ((a, b), (b, a)):
            for op in ("+", "-", "<", "<=", "==", "!=", ">", ">="):
                text = "(%s) %s (%s)" % (x, op, y)
                k, v = R.value(text)
                ctx.count("near-dim:" + text, bucket="dimensions one exponent apart")
                if k == "ok":
                    ctx.violation("qty-dim:" + text, text, "an error (different dimensions)", repr(v)[:120], "execute(%r)" % text)
            unit_y = y.split(" ", 1)[1] if " " in y else None
            if unit_y:
                text = "(%s) to %s" % (x, unit_y)
                k, v = R.value(text)
                ctx.count("near-dim:" + text, bucket="dimensions one exponent apart")
                if k == "ok":
                    ctx.violation("qty-dim:" + text, text, "an error (conversion into another dimension)", repr(v)[:120], "execute(%r)" % text)
    # ---- chains of two comparisons: if ANY link compares operands of different dimension there is no value — whichever link a
    # lazy evaluation would look at first, and whether that link is true or false
    import itertools
    R, rng = ctx.real, ctx.rng
    pools = {"L": ["2 m", "1 m", "150 cm", "3 km", "(1/2) inch"], "T": ["3 s", "1 min", "2 h"], "N": ["5", "1", "2", "(1/2)", "0"], "M": ["1 kg", "5 g"]}
    triples = [k for k in itertools.product("LTNM", repeat=3) if k[0] != k[1] or k[1] != k[2]]
    ops = ["<", "<=", ">", ">="]
    for _ in range(ctx.n(400, 5000)):
        ka, kb, kc = rng.choice(triples)
        a, b, c = rng.choice(pools[ka]), rng.choice(pools[kb]), rng.choice(pools[kc])
        o1, o2 = rng.choice(ops), rng.choice(ops)
        text = "%s %s %s %s %s" % (a, o1, b, o2, c)
        k, v = R.value(text)
        ctx.count("chain:" + text, bucket="comparison chains across dimensions")
        if k == "ok":
            ctx.violation("chain-dim:" + text, text, "an error (a link compares a %s with a %s)" % ((ka, kb) if ka != kb else (kb, kc)), repr(v),
                          "execute(%r)" % text)


# ---- refinement lemmas of the unified pipeline model for this property (Props/Pipeline2.lean): the fragment this check's
# theorems are about IS what the whole-program model computes on the fragment's sub-language
import pipeline as _pl
LEAN_MODULES = LEAN_MODULES + [m for m in _pl.LEAN_MODULES2 if m not in LEAN_MODULES]
THEOREMS = THEOREMS + [t for t in _pl.THEOREMS2.get(ID, []) if t not in THEOREMS]
GEN = GEN + [g for g in _pl.GEN if g not in GEN]

# ---- the quantity-operator closures of register_quantities_op (f, left_is_number, right_is_number for + - * / and the six
# comparisons) TRANSLATED from the source (Gen/Bodies.lean) are proved equal to the hand-written model bodies (Props/Bodies.lean)
LEAN_MODULES = LEAN_MODULES + [m for m in _pl.BODIES_MODULES if m not in LEAN_MODULES]
THEOREMS = THEOREMS + [t for t in _pl.bodies_theorems(("Quantity",)) if t not in THEOREMS]
GEN = GEN + [g for g in _pl.BODIES_GEN if g not in GEN]
