"""C02 — expressions group exactly as the documented precedence and associativity."""
import itertools
from core import num_canon, alarm, Timeout
import pipeline

ID = "C02"
LEAN_MODULES = ["KaVerif.Props.C02", "KaVerif.Props.C02Table"] + pipeline.LEAN_MODULES
GEN = ["Tokens", "Registry", "Units"]
THEOREMS = ["KaVerif.C02_roundtrip", "KaVerif.C02_redundant_parens", "KaVerif.C02_min_eq_full",
            "KaVerif.C02_assign_vs_compare", "KaVerif.C02_assign_only_at_statement_start", "KaVerif.C02_kwarg",
            "KaVerif.C02_kwarg_before_positional_rejected", "KaVerif.C02_wf_iff_parsed", "KaVerif.C02_token_table",
            "KaVerif.PIPE_text_arith_min_full", "KaVerif.PIPE_text_arith_lexed"]
RULE = ("random program trees (every operator at every operand position: + - ± * / % ^ .. sign ! comparisons(1-2) to "
        "units calls(kwargs) arrays comprehensions intervals strings instants assignment ;), depth<=6 quick / <=9 thorough, "
        "each rendered with minimal / full / random-redundant parentheses (and with backward comparison operators) and random "
        "whitespace, lexed by the real tokeniser and parsed by the real parse_tokens; plus all trees with two operator nodes "
        "(quick: a sample of those with three; thorough: all) and a token-soup stream; a case is non-trivial when the tree has "
        ">=2 operator nodes; distinct = distinct minimal text")
ASSUMPTIONS = ["tokens reach the parser as produced by ka.tokens.tokenise (lexing itself is C11)",
               "CPython list/tuple semantics of BagOfTokens (exercised by the correspondence)"]

BIN_LEVEL = {"+": 2, "-": 2, "±": 2, "*": 3, "/": 3, "%": 3, "^": 4}
TREE_CMP = ["==", "!=", "<", "<=", "=", "in"]          # operators a one-operator node can carry after flipping
ALL_CMP = ["==", "!=", "<", ">", "<=", ">=", "=", "in"]
BACK, FWD = {">", ">="}, {"<", "<="}
UNFLIP = {"<": ">", "<=": ">="}
KEYWORDS = {"to", "in"}


# ----------------------------------------------------------------------------------------------
# trees:  ("num", text) ("str", s) ("inst", raw) ("var", x) ("bin", op, l, r) ("sign", op, x) ("fact", x)
#         ("range", a, b) ("interval", a, b) ("cmp", [ops], [operands]) ("call", f, [args], [(k, v)])
#         ("qty", x, sig) ("conv", e, sig) ("arr", [xs]) ("compr", body, [(n, e)], [conds])
#         ("assign", x, e) ("stmts", [ss]);  sig = ([(name, exp)], [(name, exp)])
# ----------------------------------------------------------------------------------------------
def level(t):
    k = t[0]
    if k == "conv": return 0
    if k == "cmp": return 1
    if k == "bin": return BIN_LEVEL[t[1]]
    if k in ("str", "inst", "arr", "compr", "interval"): return 5
    if k == "range": return 6
    if k == "qty": return 7
    if k == "sign": return 8
    if k == "fact": return 9
    if k in ("num", "var", "call"): return 10
    return 0


def last_bare(sig):
    us = sig[1] if sig[1] else sig[0]
    return bool(us) and us[-1][1] == 1


def ends_bare(t):
    if t[0] == "qty":
        return last_bare(t[2])
    if t[0] == "range" and t[2][0] == "qty":
        return last_bare(t[2][2])
    if t[0] == "bin" and t[1] == "^":
        r = t[3]
        if r[0] == "qty":
            return last_bare(r[2])
        if r[0] == "range" and r[2][0] == "qty":
            return last_bare(r[2][2])
    return False


def cmp_ok(ops):
    return not (any(o in BACK for o in ops) and not any(o in FWD for o in ops))


def n_ops(t):
    k = t[0]
    if k in ("num", "str", "inst", "var"): return 0
    if k == "bin": return 1 + n_ops(t[2]) + n_ops(t[3])
    if k in ("sign",): return 1 + n_ops(t[2])
    if k == "fact": return 1 + n_ops(t[1])
    if k in ("range", "interval"): return 1 + n_ops(t[1]) + n_ops(t[2])
    if k == "cmp": return len(t[1]) + sum(map(n_ops, t[2]))
    if k == "call": return 1 + sum(map(n_ops, t[2])) + sum(n_ops(v) for _, v in t[3])
    if k in ("qty", "conv"): return 1 + n_ops(t[1])
    if k == "arr": return 1 + sum(map(n_ops, t[1]))
    if k == "compr": return 1 + n_ops(t[1]) + sum(n_ops(e) for _, e in t[2]) + sum(map(n_ops, t[3]))
    if k == "assign": return n_ops(t[2])
    if k == "stmts": return sum(map(n_ops, t[1]))
    raise ValueError(k)


# ---- rendering to token lists [(tag, value)], independent of the Lean renderer -------------------
def P(s):
    return (s, None)


def paren(ts):
    return [P("(")] + ts + [P(")")]


class Rnd:
    """how to parenthesise: 'min' | 'full' | 'rand' (required ones plus random redundant ones)"""

    def __init__(self, mode, rng=None):
        self.mode, self.rng = mode, rng

    def bare(self, allowed):
        if self.mode == "full":
            return False
        if not allowed:
            return False
        if self.mode == "rand" and self.rng.random() < 0.25:
            return False
        return True

    def extra(self, ts):
        if self.mode == "rand" and self.rng.random() < 0.08:
            return paren(ts)
        return ts


def r_int(e):
    return [P("-"), ("number", -e)] if e < 0 else [("number", e)]


def r_units(us):
    out = []
    for name, e in us:
        out.append(("identifier", name))
        if e != 1:
            out += [P("^")] + r_int(e)
    return out


def r_sig(sig):
    return r_units(sig[0]) + ([P("|")] + r_units(sig[1]) if sig[1] else [])


def r_at(t, lvl, R, ok=True):
    ts = r_nat(t, R)
    ts = ts if R.bare(level(t) >= lvl and ok) else paren(ts)
    return R.extra(ts)


def starts(ts, second):
    return len(ts) >= 2 and ts[0][0] == "identifier" and ts[1][0] == second


def r_nat(t, R, numval=None):
    k = t[0]
    if k == "num": return [("number", t[1])]
    if k == "str": return [("string", t[1])]
    if k == "inst": return [("instant", t[1])]
    if k == "var": return [("identifier", t[1])]
    if k == "bin":
        L = BIN_LEVEL[t[1]]
        return (r_at(t[2], L, R, ok=not (t[1] == "^" and ends_bare(t[2]))) + [P(t[1])] + r_at(t[3], L + 1, R))
    if k == "sign": return [P(t[1])] + r_at(t[2], 9, R)
    if k == "fact": return r_at(t[1], 10, R) + [P("!")]
    if k == "range": return r_at(t[1], 7, R) + [P("..")] + r_at(t[2], 7, R)
    if k == "interval": return [P("[")] + r_at(t[1], 0, R) + [P(",")] + r_at(t[2], 0, R) + [P("]")]
    if k == "cmp":
        out = r_at(t[2][0], 2, R)
        for o, x in zip(t[1], t[2][1:]):
            out += [P(o)] + r_at(x, 2, R)
        return out
    if k == "call":
        parts = [r_at(a, 0, R) for a in t[2]] + [[("identifier", n), P(":")] + r_at(v, 0, R) for n, v in t[3]]
        out = [("identifier", t[1]), P("(")]
        for i, p in enumerate(parts):
            out += ([P(",")] if i else []) + p
        return out + [P(")")]
    if k == "qty": return r_at(t[1], 8, R) + r_sig(t[2])
    if k == "conv": return r_at(t[1], 1, R) + [P("to")] + r_sig(t[2])
    if k == "arr":
        out = [P("{")]
        for i, x in enumerate(t[1]):
            out += ([P(",")] if i else []) + r_at(x, 0, R)
        return out + [P("}")]
    if k == "compr":
        out = [P("{")] + r_at(t[1], 0, R) + [P(":")]
        parts = [[("identifier", n), P("in")] + r_at(e, 0, R) for n, e in t[2]]
        for c in t[3]:
            ts = r_nat(c, R)
            ts = ts if R.bare(not starts(ts, "in")) else paren(ts)
            parts.append(R.extra(ts))
        for i, p in enumerate(parts):
            out += ([P(",")] if i else []) + p
        return out + [P("}")]
    if k == "assign": return [("identifier", t[1]), P("=")] + r_at(t[2], 0, R)
    if k == "stmts":
        out = []
        for i, s in enumerate(t[1]):
            if s[0] == "assign":
                ts = r_nat(s, R)
            else:
                ts = r_nat(s, R)
                ts = ts if R.bare(not starts(ts, "=")) else paren(ts)
                ts = R.extra(ts)
            out += ([P(";")] if i else []) + ts
        return out
    raise ValueError(k)


def flipped_variant(t, rng):
    """The same tree written with backward comparison operators wherever make_comparison_node would
    flip them back (a < b  ->  b > a).  None when the tree has no such comparison."""
    hit = [False]

    def go(t):
        k = t[0]
        if k in ("num", "str", "inst", "var"): return t
        if k == "bin": return (k, t[1], go(t[2]), go(t[3]))
        if k == "sign": return (k, t[1], go(t[2]))
        if k == "fact": return (k, go(t[1]))
        if k in ("range", "interval"): return (k, go(t[1]), go(t[2]))
        if k == "cmp":
            ops, xs = t[1], [go(x) for x in t[2]]
            if any(o in FWD for o in ops) and not any(o in BACK for o in ops) and rng.random() < 0.8:
                hit[0] = True
                return (k, [UNFLIP.get(o, o) for o in reversed(ops)], list(reversed(xs)))
            return (k, ops, xs)
        if k == "call": return (k, t[1], [go(a) for a in t[2]], [(n, go(v)) for n, v in t[3]])
        if k in ("qty", "conv"): return (k, go(t[1]), t[2])
        if k == "arr": return (k, [go(x) for x in t[1]])
        if k == "compr": return (k, go(t[1]), [(n, go(e)) for n, e in t[2]], [go(c) for c in t[3]])
        if k == "assign": return (k, t[1], go(t[2]))
        if k == "stmts": return (k, [go(s) for s in t[1]])
        raise ValueError(k)
    r = go(t)
    return r if hit[0] else None


# ---- text layout ---------------------------------------------------------------------------------
def spell(tok):
    tag, v = tok
    if tag == "number": return v if isinstance(v, str) else str(v)
    if tag == "identifier": return v
    if tag == "string": return '"' + v + '"'
    if tag == "instant": return "#" + v + "#"
    return tag


def layout(toks, rng):
    parts = []
    for i, t in enumerate(toks):
        if i:
            parts.append(rng.choice(["", "", " ", " ", "  ", "\t", "   "]) if rng else " ")
        parts.append(spell(t))
    lead = rng.choice(["", "", " "]) if rng else ""
    return lead + "".join(parts) + (rng.choice(["", "", " "]) if rng else "")


# ---- canonical dumps -----------------------------------------------------------------------------
def q(s):
    return '"' + s.replace("\\", "\\\\").replace('"', '\\"') + '"'


def node(head, kids):
    return "(" + " ".join([head] + kids) + ")"


def sig_dump(units, inv):
    f = lambda l: "(" + " ".join("(%s %d)" % (q(n), e) for n, e in l) + ")"
    return "(" + f(units) + " " + f(inv) + ")"


def dump_real(n, modes, simplify):
    m = n.eval_mode
    kids = []
    for c in n.children:
        d = dump_real(c, modes, simplify)
        if c.meta.get("generator"):
            d = node("gen " + q(c.meta["name"]), [d])
        kids.append(d)
    if m == modes.LEAF:
        v = n.value
        c = num_canon(v)
        if c is not None:
            return "(leaf N %s)" % c
        if isinstance(v, str):
            return "(leaf S %s)" % q(v)
        return "(leaf I %s)" % q(n.label)
    if m == modes.VARIABLE: return "(variable %s)" % q(n.label)
    if m == modes.FUNCALL: return node("funcall " + q(n.label), kids)
    if m == modes.KEYWORD_ARG: return node("keyword-arg " + q(n.label), kids)
    if m == modes.QUANTITY: return node("quantity " + sig_dump(n.value.units, n.value.inverted_units), kids)
    if m == modes.CONVERT_UNIT: return node("convert-unit " + sig_dump(n.value.units, n.value.inverted_units), kids)
    if m == modes.ARRAY: return node("array", kids)
    if m == modes.ARRAY_WITH_CONDITION: return node("array-with-condition %d" % n.meta["num_assignments"], kids)
    if m == modes.ASSIGNMENT: return node("assignment " + q(n.label), kids)
    if m == modes.STATEMENTS: return node("statements", kids)
    return node("?" + str(m), kids)


def dump_ast(t, numval):
    """expected dump of the tree itself (comparison nodes in tree form, i.e. already flipped)"""
    d = lambda x: dump_ast(x, numval)
    k = t[0]
    if k == "num": return "(leaf N %s)" % numval(t[1])
    if k == "str": return "(leaf S %s)" % q(t[1])
    if k == "inst": return "(leaf I %s)" % q(t[1])
    if k == "var": return "(variable %s)" % q(t[1])
    if k == "bin": return node("funcall " + q(t[1]), [d(t[2]), d(t[3])])
    if k == "sign": return node("funcall " + q(t[1]), [d(t[2])])
    if k == "fact": return node('funcall "!"', [d(t[1])])
    if k == "range": return node('funcall "range"', [d(t[1]), d(t[2])])
    if k == "interval": return node('funcall "interval"', [d(t[1]), d(t[2])])
    if k == "cmp": return node("funcall " + q("_".join(t[1])), [d(x) for x in t[2]])
    if k == "call":
        return node("funcall " + q(t[1]), [d(a) for a in t[2]] + [node("keyword-arg " + q(n), [d(v)]) for n, v in t[3]])
    if k == "qty": return node("quantity " + sig_dump(*t[2]), [d(t[1])])
    if k == "conv": return node("convert-unit " + sig_dump(*t[2]), [d(t[1])])
    if k == "arr": return node("array", [d(x) for x in t[1]])
    if k == "compr":
        return node("array-with-condition %d" % len(t[2]),
                    [d(t[1])] + [node("gen " + q(n), [d(e)]) for n, e in t[2]] + [d(c) for c in t[3]])
    if k == "assign": return node("assignment " + q(t[1]), [d(t[2])])
    if k == "stmts": return node("statements", [d(s) for s in t[1]])
    raise ValueError(k)


def sexpr(t, numcanon):
    """the tree for the model's `render` stream"""
    s = lambda x: sexpr(x, numcanon)
    k = t[0]
    if k == "num": return "(num %s)" % numcanon(t[1])
    if k in ("str", "inst", "var"): return "(%s %s)" % (k, q(t[1]))
    if k == "bin": return "(bin %s %s %s)" % (q(t[1]), s(t[2]), s(t[3]))
    if k == "sign": return "(sign %s %s)" % (q(t[1]), s(t[2]))
    if k == "fact": return "(fact %s)" % s(t[1])
    if k in ("range", "interval"): return "(%s %s %s)" % (k, s(t[1]), s(t[2]))
    if k == "cmp": return "(cmp (%s) %s)" % (" ".join(map(q, t[1])), " ".join(map(s, t[2])))
    if k == "call":
        return "(call %s (%s) (%s))" % (q(t[1]), " ".join(map(s, t[2])), " ".join("(%s %s)" % (q(n), s(v)) for n, v in t[3]))
    if k in ("qty", "conv"): return "(%s %s %s)" % (k, s(t[1]), sig_dump(*t[2]))
    if k == "arr": return "(arr%s)" % "".join(" " + s(x) for x in t[1])
    if k == "compr":
        return "(compr %s (%s) (%s))" % (s(t[1]), " ".join("(%s %s)" % (q(n), s(e)) for n, e in t[2]), " ".join(map(s, t[3])))
    if k == "assign": return "(assign %s %s)" % (q(t[1]), s(t[2]))
    if k == "stmts": return "(stmts%s)" % "".join(" " + s(x) for x in t[1])
    raise ValueError(k)


# ---- generators ----------------------------------------------------------------------------------
NUM_TEXTS = ["0", "1", "2", "3", "4", "5", "7", "10", "12", "2.5", "0.5", ".5", "7.0", "1e3", "1e-3", "2.5e2", "0x1F",
             "0b101", "123456789012345678901234567890"]
VARS = ["a", "b", "c", "x", "y", "z", "e", "f", "g", "n", "pi", "x1", "a_b", "into", "tor", "int", "e5"]
FUNS = ["f", "g", "sin", "max", "range", "interval", "C", "log"]
UNITS = ["m", "s", "kg", "km", "h", "N", "ft", "e", "x"]
KWS = ["k", "step", "base", "x", "tol", "inn"]
STRS = ["", "a", "hi there", "1+2", "x = (1", 'say \\"hi\\"', "ünï", "a;b", "#"]
INSTS = ["2020-01-01", "1999", "2021-05", "2020-02-29T10:30:00"]


def gen_sig(rng):
    def us(lo):
        return [(rng.choice(UNITS), rng.choice([1, 1, 1, 2, 3, -1, -2, 0, 12])) for _ in range(rng.randrange(lo, 3))]
    return (us(1), us(0) if rng.random() < 0.4 else [])


def gen_leaf(rng):
    r = rng.random()
    if r < 0.45: return ("num", rng.choice(NUM_TEXTS))
    if r < 0.85: return ("var", rng.choice(VARS))
    if r < 0.93: return ("str", rng.choice(STRS))
    return ("inst", rng.choice(INSTS))


def gen_cmp_ops(rng, k):
    while True:
        ops = [rng.choice(ALL_CMP) for _ in range(k)]
        if cmp_ok(ops):
            return ops


def gen_expr(rng, depth):
    if depth <= 0 or rng.random() < 0.12:
        return gen_leaf(rng)
    g = lambda: gen_expr(rng, depth - 1)
    r = rng.random()
    if r < 0.34: return ("bin", rng.choice(list(BIN_LEVEL)), g(), g())
    if r < 0.42: return ("sign", rng.choice("+-"), g())
    if r < 0.49: return ("fact", g())
    if r < 0.55: return ("range", g(), g())
    if r < 0.62: return ("cmp", gen_cmp_ops(rng, 1), [g(), g()])
    if r < 0.67: return ("cmp", gen_cmp_ops(rng, 2), [g(), g(), g()])
    if r < 0.75: return ("qty", g(), gen_sig(rng))
    if r < 0.80: return ("conv", g(), gen_sig(rng))
    if r < 0.88:
        na, nk = rng.randrange(0, 4), rng.choice([0, 0, 1, 2])
        return ("call", rng.choice(FUNS), [g() for _ in range(na)], [(rng.choice(KWS), g()) for _ in range(nk)])
    if r < 0.92: return ("arr", [g() for _ in range(rng.randrange(0, 4))])
    if r < 0.96: return ("interval", g(), g())
    ng = rng.choice([0, 1, 1, 2])
    nc = rng.randrange(1 if ng == 0 else 0, 3)
    return ("compr", g(), [(rng.choice(VARS), g()) for _ in range(ng)], [g() for _ in range(nc)])


def gen_program(rng, depth):
    ss = []
    for _ in range(rng.choice([1, 1, 1, 2, 3])):
        e = gen_expr(rng, depth)
        ss.append(("assign", rng.choice(VARS), e) if rng.random() < 0.25 else e)
    return ("stmts", ss)


def gen_arith(rng, depth):
    """closed arithmetic trees (evaluated)"""
    if depth <= 0 or rng.random() < 0.2:
        return ("num", rng.choice(["0", "1", "2", "3", "4", "5", "2.5", "1e-1"]))
    g = lambda: gen_arith(rng, depth - 1)
    r = rng.random()
    if r < 0.6:
        op = rng.choice(["+", "-", "*", "/", "%", "^", "+", "-", "*"])
        if op == "^":
            e = ("num", rng.choice(["0", "1", "2", "3"]))
            return ("bin", op, g(), ("sign", "-", e) if rng.random() < 0.15 else e)
        return ("bin", op, g(), g())
    if r < 0.72: return ("sign", rng.choice("+-"), g())
    if r < 0.8: return ("fact", ("num", rng.choice(["0", "1", "2", "3", "4"])))
    if r < 0.92: return ("cmp", [rng.choice(["==", "!=", "<", "<="])], [g(), g()])
    return ("cmp", [rng.choice(["<", "<="]), rng.choice(["<", "<="])], [g(), g(), g()])


UN_KINDS = [("sign", "+"), ("sign", "-"), ("fact",)]
BI_KINDS = [("bin", o) for o in BIN_LEVEL] + [("range",)] + [("cmp", o) for o in TREE_CMP] + [("cmp2", "<", "<="), ("cmp2", "=", "==")]


def small_trees(k, atoms):
    """all expression trees with exactly k operator nodes; atoms are consumed left to right"""
    def build(k):
        if k == 0:
            yield lambda it: ("var", next(it))
            return
        for u in UN_KINDS:
            for c in build(k - 1):
                if u[0] == "sign":
                    yield (lambda u, c: lambda it: ("sign", u[1], c(it)))(u, c)
                else:
                    yield (lambda c: lambda it: ("fact", c(it)))(c)
        for b in BI_KINDS:
            if b[0] == "cmp2":
                for i in range(k):
                    for j in range(k - i):
                        for l, m, r in itertools.product(build(i), build(j), build(k - 1 - i - j)):
                            yield (lambda b, l, m, r: lambda it: ("cmp", [b[1], b[2]], [l(it), m(it), r(it)]))(b, l, m, r)
                continue
            for i in range(k):
                for l, r in itertools.product(build(i), build(k - 1 - i)):
                    if b[0] == "bin":
                        yield (lambda b, l, r: lambda it: ("bin", b[1], l(it), r(it)))(b, l, r)
                    elif b[0] == "range":
                        yield (lambda l, r: lambda it: ("range", l(it), r(it)))(l, r)
                    else:
                        yield (lambda b, l, r: lambda it: ("cmp", [b[1]], [l(it), r(it)]))(b, l, r)
    for mk in build(k):
        yield mk(iter(atoms))


N_ = lambda s: ("num", s)
V_ = lambda s: ("var", s)
CORPUS = [   # (text, the tree the property says it denotes, value or None)
    # `in` is a comparison: its right operand is a whole sum, also when that sum starts with a sign and a number literal follows
    ("0 in -1 ± 2", ("cmp", ["in"], [N_("0"), ("bin", "±", ("sign", "-", N_("1")), N_("2"))]), 1),
    ("5 in -3 + [4, 9]", ("cmp", ["in"], [N_("5"), ("bin", "+", ("sign", "-", N_("3")), ("interval", N_("4"), N_("9")))]), 1),
    ("1 + 2 in -1 ± 2", ("cmp", ["in"], [("bin", "+", N_("1"), N_("2")), ("bin", "±", ("sign", "-", N_("1")), N_("2"))]), None),
    ("0 in -2 * [-1, 2]", ("cmp", ["in"], [N_("0"), ("bin", "*", ("sign", "-", N_("2")), ("interval", ("sign", "-", N_("1")), N_("2")))]), 1),
    ("3 in +2..5", ("cmp", ["in"], [N_("3"), ("range", ("sign", "+", N_("2")), N_("5"))]), 1),
    ("2 in -5..5", ("cmp", ["in"], [N_("2"), ("range", ("sign", "-", N_("5")), N_("5"))]), 1),
    ("-2^2", ("bin", "^", ("sign", "-", N_("2")), N_("2")), 4),
    ("2^3^2", ("bin", "^", ("bin", "^", N_("2"), N_("3")), N_("2")), 64),
    ("-3!", ("sign", "-", ("fact", N_("3"))), -6),
    ("2^3!*5+1", ("bin", "+", ("bin", "*", ("bin", "^", N_("2"), ("fact", N_("3"))), N_("5")), N_("1")), 321),
    ("7*3/2", ("bin", "/", ("bin", "*", N_("7"), N_("3")), N_("2")), None),
    ("7-3-2", ("bin", "-", ("bin", "-", N_("7"), N_("3")), N_("2")), 2),
    ("2*3%2", ("bin", "%", ("bin", "*", N_("2"), N_("3")), N_("2")), 0),
    ("1..3+1", ("bin", "+", ("range", N_("1"), N_("3")), N_("1")), None),
    ("3 m^2", ("qty", N_("3"), ([("m", 2)], [])), None),
    ("(3 m)^2", ("bin", "^", ("qty", N_("3"), ([("m", 1)], [])), N_("2")), None),
    ("-a b^2|c d", ("qty", ("sign", "-", V_("a")), ([("b", 2)], [("c", 1), ("d", 1)])), None),
    ("a<b to u", ("conv", ("cmp", ["<"], [V_("a"), V_("b")]), ([("u", 1)], [])), None),
    ("f(a, k: 1)", ("call", "f", [V_("a")], [("k", N_("1"))]), None),
    ("f(k: 1, j: a)", ("call", "f", [], [("k", N_("1")), ("j", V_("a"))]), None),
    ("x = 1", ("assign", "x", N_("1")), None),
    ("1 + (x = 1)", ("bin", "+", N_("1"), ("cmp", ["="], [V_("x"), N_("1")])), None),
    ("(x = 1)", ("cmp", ["="], [V_("x"), N_("1")]), None),
    ("x == 1", ("cmp", ["=="], [V_("x"), N_("1")]), None),
    ("x = y = 2", ("assign", "x", ("cmp", ["="], [V_("y"), N_("2")])), None),
    ("f(x = 1)", ("call", "f", [("cmp", ["="], [V_("x"), N_("1")])], []), None),
    ("{x = 1}", ("arr", [("cmp", ["="], [V_("x"), N_("1")])]), None),
    ("a > b >= c", ("cmp", ["<=", "<"], [V_("c"), V_("b"), V_("a")]), None),
    ("a > b", ("cmp", ["<"], [V_("b"), V_("a")]), None),
    ("a < b > c", ("cmp", ["<", ">"], [V_("a"), V_("b"), V_("c")]), None),
    ("a > b = c", ("cmp", ["=", "<"], [V_("c"), V_("b"), V_("a")]), None),
    ("3 > 2", ("cmp", ["<"], [N_("2"), N_("3")]), 1),
    ("{x : x in 1..3, x < 2}", ("compr", V_("x"), [("x", ("range", N_("1"), N_("3")))], [("cmp", ["<"], [V_("x"), N_("2")])]), None),
    ("{x : (x in a)}", ("compr", V_("x"), [], [("cmp", ["in"], [V_("x"), V_("a")])]), None),
]
CORPUS2 = [  # two statements
    ("y; x == 1", ("stmts", [V_("y"), ("cmp", ["=="], [V_("x"), N_("1")])])),
    ("y; x = 1", ("stmts", [V_("y"), ("assign", "x", N_("1"))])),
    ("x = 1; x = 2; (x = 3)", ("stmts", [("assign", "x", N_("1")), ("assign", "x", N_("2")), ("cmp", ["="], [V_("x"), N_("3")])])),
]

CORR_ONLY = [  # behaviour of the code the property does not speak about: model-vs-code only
    "{x : x < 2, x in 1..3}", "{x : y in a, x, z in b}", "1;", "1;2;", ";", "1;;2", "f()", "{}", "{1}", "[1,2]", "f(a,)",
    "3 m ^ x", "3 m^1.5", "3 m^2^3", "3 m |", "a to", "x =", "= 1", "{x :}", "{x : }", "[1]", "f(a b)", "(", ")", "()",
    "1 2", "\"s\" m", "{1,2}!", "x (1)", "a in b in c", "x = y = z = w"]

REJECTED = [   # texts the documented rules do not admit
    ("f(k: 1, a)", "keyword argument before a positional one"), ("f(a, k: 1, b)", "keyword argument before a positional one"),
    ("f(k: 1, 2)", "keyword argument before a positional one"), ("f(a, k: 1, (b))", "keyword argument before a positional one"),
    ("a < b < c < d", "more than two comparisons"), ("a == b != c <= d", "more than two comparisons"),
    ("1..2..3", ".. is non-associative"), ("- -3", "a single unary sign"), ("+-3", "a single unary sign"),
    ("3!!", "the operand of ! is a primary"), ("1 to m to s", "one conversion per expression"),
    ("1 + x = 1 = 2 = 3", "more than two comparisons")]

SOUP = ["(", ")", "(", ")", "+", "-", "*", "/", "%", "^", "±", "!", "..", ",", ";", ":", "{", "}", "[", "]", "|", "to",
        "in", "=", "==", "!=", "<", ">", "<=", ">=", "1", "2", "2.5", "a", "b", "f", "m", "x", '"s"', "#2020-01-01#"]


def check(ctx):
    rng = ctx.rng
    real = ctx.real
    tokenise, parse_tokens = real.tokens.tokenise, real.parse.parse_tokens
    PErr, modes = real.parse.ParsingError, real.eval.EvalModes
    simplify = real.types.simplify_number
    numcache = {}

    def numtok(text):
        if text not in numcache:
            numcache[text] = tokenise(text)[0].meta("value")
        return numcache[text]

    def numval(text):       # canonical simplified value of a literal
        return num_canon(simplify(numtok(text)))

    def numraw(text):
        return num_canon(numtok(text))

    def tok_sexpr(toks):
        out = []
        for t in toks:
            if t.tag == "number": v = " " + num_canon(t.meta("value"))
            elif t.tag == "identifier": v = " " + q(t.meta("name"))
            elif t.tag in ("string", "instant"): v = " " + q(t.meta("value"))
            else: v = ""
            out.append("(%s %d %d%s)" % (q(t.tag), t.begin_index_incl, t.end_index_excl, v))
        return "(" + " ".join(out) + ")"

    def real_parse(toks):
        try:
            with alarm(5.0):
                return "ok " + dump_real(parse_tokens(toks), modes, simplify)
        except PErr as e:
            return "err %d" % e.token_index
        except Timeout:
            return "exc diverges"
        except Exception as e:  # noqa
            return "exc " + type(e).__name__

    CONSTS = [c for c in real.tokens.CONST_TOKENS]

    def glue_safe(a, b):
        """two adjacent lexemes that need NO whitespace between them by the token table alone: neither end is a word / number /
        quote character, and no constant token longer than one character can be read across the seam"""
        wordish = lambda ch: ch.isalnum() or ch in "_.\"#'$€£¥μ"
        if wordish(a[-1]) or wordish(b[0]) or a in ("to", "in") or b in ("to", "in"):
            return False
        seam = a + b
        for c in CONSTS:
            if len(c) >= 2:
                for k in range(1, len(c)):
                    if a.endswith(c[:k]) and b.startswith(c[k:]):
                        return False
                if c in seam and c not in (a, b) and not (c in a or c in b):
                    return False
        return True

    def lex_as(intended, rng_):
        """text with random whitespace that the real tokeniser splits into exactly the intended tokens"""
        want = [(t[0], numtok(t[1]) if (t[0] == "number" and isinstance(t[1], str)) else t[1]) for t in intended]
        for attempt in (rng_, None):
            text = layout(intended, attempt)
            try:
                toks = tokenise(text)
            except Exception:  # noqa
                toks = None
            if toks is None or len(toks) != len(want):
                if attempt is not None:
                    # whitespace is optional between operator / punctuation tokens that cannot fuse: dropping it there must not
                    # change the token sequence (the retry below with single spaces is only for seams that DO need a separator)
                    sp = [spell(t) for t in intended]
                    packed = "".join(sp[i] + ("" if i + 1 < len(sp) and glue_safe(sp[i], sp[i + 1]) else " ") for i in range(len(sp)))
                    try:
                        pt = tokenise(packed)
                    except Exception as e:  # noqa
                        pt = type(e).__name__
                    if not isinstance(pt, list) or len(pt) != len(want):
                        ctx.violation("ws-between-tokens:" + packed[:120], packed, "the %d tokens of %r" % (len(want), " ".join(sp)[:160]),
                                      ("%d tokens" % len(pt)) if isinstance(pt, list) else pt,
                                      "ka.tokens.tokenise(%r) against the same tokens separated by single spaces" % packed)
                continue
            got = []
            for t in toks:
                if t.tag == "number": got.append((t.tag, t.meta("value")))
                elif t.tag == "identifier": got.append((t.tag, t.meta("name")))
                elif t.tag in ("string", "instant"): got.append((t.tag, t.meta("value")))
                else: got.append((t.tag, None))
            if len(got) == len(want) and all(a[0] == b[0] and a[1] == b[1] and type(a[1]) is type(b[1]) for a, b in zip(got, want)):
                return text, toks
        return None, None

    parse_cases, render_cases = [], []
    seen = set()
    how_t = "PYTHONPATH=/repo/src HOME=<empty dir> python -c 'from ka.tokens import tokenise; from ka.parse import parse_tokens; print(parse_tokens(tokenise(%r)))'"

    def run_tree(prog, bucket, variants=("min", "full", "rand", "rand", "flip"), evaluate=False, expect_value=None):
        """prog: ("stmts", …).  Oracle on the real code + queue the correspondence cases."""
        want = dump_ast(prog, numval)
        texts = {}
        for i, v in enumerate(variants):
            if v == "flip":
                tv = flipped_variant(prog, rng)
                if tv is None:
                    continue
                toks_i = r_nat(tv, Rnd("min"))
            else:
                toks_i = r_nat(prog, Rnd(v, rng))
            text, toks = lex_as(toks_i, rng)
            if text is None:
                ctx.notes.append("layout failed for %r" % (layout(toks_i, None),))
                continue
            texts["%s%d" % (v, i)] = (text, toks, toks_i)
        if "min0" not in texts:
            return
        tmin = texts["min0"][0]
        key = " ".join(spell(t) for t in texts["min0"][2])
        if key in seen:
            return
        seen.add(key)
        ctx.count(key, nontrivial=n_ops(prog) >= 2, bucket=bucket)
        res = {k: real_parse(v[1]) for k, v in texts.items()}
        ctx.sample(dict(min=tmin, full=texts.get("full1", ("",))[0][:120], parses_to=res["min0"][:160]))
        exp = "ok " + want
        for k, r in res.items():
            if r != exp:
                kind = {"m": "min", "f": "full", "r": "redundant"}[k[0]] if not k.startswith("flip") else "flip"
                ctx.violation("%s:%s" % (kind, key), texts[k][0], exp, r, how_t % texts[k][0])
            parse_cases.append(("parse " + tok_sexpr(texts[k][1]), r, dict(text=texts[k][0])))
        # the model's renderers are the ones the theorem talks about: they must print what we fed the parser
        for mode, k in (("min", "min0"), ("full", "full1")):
            if k in texts:
                exp_toks = " ".join("(%s%s)" % (q(t[0]), "" if t[1] is None else " " + (
                    (numraw(t[1]) if isinstance(t[1], str) else num_canon(t[1])) if t[0] == "number" else q(t[1])))
                    for t in texts[k][2])
                render_cases.append(("render %s %s" % (mode, sexpr(prog, numraw)), "wf " + exp_toks, dict(text=texts[k][0])))
        if evaluate:
            vals = {}
            for k, (text, _, _) in texts.items():
                r = real.value(text, timeout=3.0)
                vals[k] = ("ok " + str(num_canon(r[1]) or type(r[1]).__name__)) if r[0] == "ok" else "err " + r[1]
            base = vals["min0"]
            for k, v in vals.items():
                if v != base and "diverges" not in (v, base):
                    ctx.violation("value:%s" % key, texts[k][0], base, v, "execute(%r) vs execute(%r)" % (tmin, texts[k][0]))
            if expect_value is not None and base != "ok " + num_canon(expect_value):
                ctx.violation("value:%s" % key, tmin, "ok " + num_canon(expect_value), base, "execute(%r)" % tmin)

    # 1. corpus: the interpretation notes and the keyword-argument / assignment clauses
    for text, tree, val in CORPUS:
        prog = ("stmts", [tree])
        toks = tokenise(text)
        r = real_parse(toks)
        exp = "ok " + dump_ast(prog, numval)
        ctx.count("corpus:" + text, bucket="corpus")
        if r != exp:
            ctx.violation("corpus:" + text, text, exp, r, how_t % text)
        parse_cases.append(("parse " + tok_sexpr(toks), r, dict(text=text)))
        if val is not None:
            v = real.value(text)
            got = "ok " + str(num_canon(v[1])) if v[0] == "ok" else "err " + v[1]
            if got != "ok " + num_canon(val):
                ctx.violation("corpus-value:" + text, text, "ok " + num_canon(val), got, "execute(%r)" % text)
        run_tree(prog, "corpus-tree", evaluate=val is not None, expect_value=val)
    for text, prog in CORPUS2:
        toks = tokenise(text)
        r = real_parse(toks)
        exp = "ok " + dump_ast(prog, numval)
        ctx.count("corpus:" + text, bucket="corpus")
        if r != exp:
            ctx.violation("corpus:" + text, text, exp, r, how_t % text)
        parse_cases.append(("parse " + tok_sexpr(toks), r, dict(text=text)))
        run_tree(prog, "corpus-tree")

    for text in CORR_ONLY:
        try:
            toks = tokenise(text)
        except Exception:  # noqa
            continue
        parse_cases.append(("parse " + tok_sexpr(toks), real_parse(toks), dict(text=text)))
        ctx.count("corr:" + text, bucket="corpus")
    for text, why in REJECTED:
        toks = tokenise(text)
        r = real_parse(toks)
        ctx.count("corpus:" + text, bucket="corpus")
        if not r.startswith("err "):
            ctx.violation("rejected:" + text, text, "ParsingError (%s)" % why, r, how_t % text)
        parse_cases.append(("parse " + tok_sexpr(toks), r, dict(text=text)))

    # 2. all trees with two operator nodes; three: all (thorough) or a sample (quick)
    atoms = ["a", "b", "c", "d", "e", "g", "h", "i", "j", "k"]
    for k in (1, 2):
        for t in small_trees(k, atoms):
            run_tree(("stmts", [t]), "ops=%d" % k, variants=("min", "full"))
    triples = small_trees(3, atoms)
    if ctx.quick():
        keep = ctx.n(1200, 0)
        pool = list(triples)
        triples = rng.sample(pool, keep)
    for t in triples:
        run_tree(("stmts", [t]), "ops=3", variants=("min", "full"))

    # 2b. long chains: every binary operator folds to the LEFT however many operands the chain has (and evaluation of the
    # min text agrees with the fully parenthesised one, where the grouping matters for the value: floats, `-`, `/`)
    sys_limit = __import__("sys").getrecursionlimit()
    for n_operands in [31, 32, 33, 34, 40, 48, 64, 65, 100] + ([36, 44, 128, 200] if not ctx.quick() else []):
        for op in list(BIN_LEVEL):
            leaves = [N_(rng.choice(["0.1", "1.5", "3", "7", "10000000000000000", "2.5"])) if op in "+-*" else N_(rng.choice(["2", "3", "1.5", "7"]))
                      for _ in range(n_operands)]
            if op == "^":
                leaves = [N_("1.5")] + [N_(rng.choice(["1", "2"])) for _ in range(min(n_operands, 12) - 1)]
            t = leaves[0]
            for l in leaves[1:]:
                t = ("bin", op, t, l)
            try:
                # (the fully parenthesised text of a longer chain nests deeper than the host's stack allows: min text only there)
                run_tree(("stmts", [t]), "chain/%s" % op, variants=("min", "full") if n_operands <= 48 else ("min",),
                         evaluate=op in "+-*/" and n_operands <= 48)
            except RecursionError:
                ctx.notes.append("chain of %d x %r beyond the harness's own recursion limit" % (n_operands, op))

    # 3. random programs
    maxd = ctx.n(6, 9)
    for _ in range(ctx.n(700, 6000)):
        prog = gen_program(rng, rng.randrange(1, maxd + 1))
        run_tree(prog, "random/ops=%d" % min(n_ops(prog), 12))

    # 4. closed arithmetic trees: same value under every rendering
    for _ in range(ctx.n(250, 2000)):
        t = gen_arith(rng, rng.randrange(1, 5))
        run_tree(("stmts", [t]), "arith", variants=("min", "full", "rand", "flip"), evaluate=True)

    # 5. token soup: the error index must agree with the model
    soup_cases = []
    base_texts = [c[2]["text"] for c in parse_cases[:: max(1, len(parse_cases) // 400)]]
    for i in range(ctx.n(1500, 12000)):
        if i % 2 == 0 or not base_texts:
            ws = [rng.choice(SOUP) for _ in range(rng.randrange(1, 13))]
        else:
            try:
                ws = [spell_tok(t) for t in tokenise(rng.choice(base_texts))]
            except Exception:  # noqa
                continue
            for _ in range(rng.randrange(1, 4)):
                r = rng.random()
                p = rng.randrange(0, len(ws) + 1)
                if r < 0.4 and ws: ws.pop(min(p, len(ws) - 1))
                elif r < 0.8: ws.insert(p, rng.choice(SOUP))
                elif len(ws) >= 2:
                    p = rng.randrange(0, len(ws) - 1); ws[p], ws[p + 1] = ws[p + 1], ws[p]
        text = " ".join(ws)
        try:
            toks = tokenise(text)
        except Exception:  # noqa
            continue
        r = real_parse(toks)
        ctx.count("soup:" + text, nontrivial=len(toks) >= 3, bucket="soup/" + r.split(" ")[0])
        soup_cases.append(("parse " + tok_sexpr(toks), r, dict(text=text)))

    ctx.correspond("parse", parse_cases, describe=lambda i: i["text"])
    ctx.correspond("render", render_cases, describe=lambda i: i["text"])
    ctx.correspond("parse-soup", soup_cases, describe=lambda i: i["text"])
    # the same texts through the unified pipeline model: parse errors must carry the same marker position, values the same display
    texts = [c[2]["text"] for c in parse_cases] + [c[2]["text"] for c in soup_cases]
    rng.shuffle(texts)
    pipeline.run(ctx, [t for t in texts[: ctx.n(2500, 25000)] if len(t) < 3000], label="run-c02", min_modelled=0.0)
    ctx.cov["parse_cases"] = len(parse_cases)
    ctx.cov["soup_cases"] = len(soup_cases)


def spell_tok(t):
    if t.tag == "number": return str(t.meta("value")) if not isinstance(t.meta("value"), float) else repr(t.meta("value"))
    if t.tag == "identifier": return t.meta("name")
    if t.tag == "string": return '"' + t.meta("value") + '"'
    if t.tag == "instant": return "#" + t.meta("value") + "#"
    return t.tag


LEVEL_TEXT = ("Machine-checked proof (Lean 4) over an executable model of Ka's recursive-descent parser (src/ka/parse.py, "
              "function by function) and of a printer: for every well-formed program tree (all node kinds; induction on tree "
              "size, unbounded) the text with only the parentheses the precedence/associativity rules require, the fully "
              "parenthesised text, and every text in between that parenthesises a chosen set of sub-expressions all parse back "
              "to exactly that tree. The hand-written parser model is tied to the code "
              "by a differential correspondence on real token lists (tree dumps and error indices), the model's printers are "
              "checked to print exactly the texts the harness feeds the real parser, and an oracle on the real code compares "
              "minimal / full / redundant parenthesisations (trees and values).")
LEVEL_NOTE = ("Theorems are about the model (Model/Parser.lean, Model/Render.lean); the model agrees with parse.py on the "
              "generated token lists only. Redundant parentheses: proved for parentheses around all occurrences of any chosen set of "
              "sub-expressions (minimal = none, full = all); per-occurrence choices and doubled parentheses are covered by "
              "the oracle/correspondence only. Whitespace insensitivity of lexing is C11; evaluation equality "
              "follows from tree equality and is additionally observed on closed arithmetic trees.")
TECHNIQUE = "Lean 4 printer/parser round-trip proof by induction over trees + differential correspondence + parenthesisation oracle"


_check_c02 = check


def check(ctx):
    _check_c02(ctx)
    import core
    core.script_route(ctx)
    # every character the tokeniser skips as whitespace (all of str.isspace: NBSP, thin spaces, U+2028, U+3000, \x1c-\x1f …) between
    # the tokens of a program: the same value as with blanks
    import sys as _sys
    allws = [chr(c) for c in range(_sys.maxunicode + 1) if chr(c).isspace()]
    for toks in (["1", "+", "2", "*", "3"], ["5", "km", "to", "m"], ["2", "^", "3", "^", "2"], ["-", "3", "!", "+", "1"], ["{", "x", ":", "x", "in", "1", "..", "3", "}"]):
        want = ctx.real.execute(" ".join(toks))
        for w in allws:
            text = w.join(toks)
            got = ctx.real.execute(text)
            ctx.count("ws-any:%s U+%04X" % (" ".join(toks), ord(w)), bucket="every whitespace character between tokens")
            if (got["status"], got["out"], got["escaped"]) != (want["status"], want["out"], want["escaped"]):
                ctx.violation("ws-between-tokens:%s with U+%04X" % (" ".join(toks), ord(w)), text, want["out"].strip(),
                              got["out"].strip() or "status %s %s %s" % (got["status"], got["escaped"] or "", got["err"].strip()[:80]), "execute(%r)" % text)
    # the keyword `in` directly against a number literal, a closing bracket or a postfix `!` (no letter follows it): the same
    # program as with blanks around it — whitespace between two tokens never changes the meaning
    R = ctx.real
    for packed, spaced in [("3in{1,2,3}", "3 in {1,2,3}"), ("s={1,2,3}; 2in s", "s={1,2,3}; 2 in s"), ("(3)in{1,2,3}", "(3) in {1,2,3}"), ("5in 1..9", "5 in 1..9"),
                           ("{x:x in 1..3,2in{x,2}}", "{x : x in 1..3, 2 in {x, 2}}"), ("1e3in{1000}", "1e3 in {1000}"), ("4.5in{4.5}", "4.5 in {4.5}"), ("12in{12}", "12 in {12}"),
                           ("3!in{6}", "3! in {6}"), ("m={3}; 3in m", "m={3}; 3 in m"), ("2in[1,3]", "2 in [1,3]"), ("7in{1,2}", "7 in {1,2}"), ("h=1..3; 2in h", "h=1..3; 2 in h"),
                           ("(2 m)to cm", "(2 m) to cm"), ("{1,2}in{{1,2}}", "{1,2} in {{1,2}}")]:
        rp, rs = R.execute(packed), R.execute(spaced)
        ctx.count("packed-keyword:" + packed, bucket="keyword against a literal")
        if (rp["status"], rp["out"], rp["escaped"]) != (rs["status"], rs["out"], rs["escaped"]):
            ctx.violation("ws-between-tokens:" + packed, packed, "as %r: %s" % (spaced, rs["out"].strip() or "status %s" % rs["status"]),
                          rp["out"].strip() or "status %s %s %s" % (rp["status"], rp["escaped"] or "", rp["err"].strip()[:80]), "execute(%r)" % packed)


# ---- refinement lemmas of the unified pipeline model for this property (Props/Pipeline2.lean): the fragment this check's
# theorems are about IS what the whole-program model computes on the fragment's sub-language
import pipeline as _pl
LEAN_MODULES = LEAN_MODULES + [m for m in _pl.LEAN_MODULES2 if m not in LEAN_MODULES]
THEOREMS = THEOREMS + [t for t in _pl.THEOREMS2.get(ID, []) if t not in THEOREMS]
GEN = GEN + [g for g in _pl.GEN if g not in GEN]
