"""PIPE — auxiliary check (not one of the 20 properties): the unified pipeline model against the real execute().
`./check PIPE --tier quick` builds Props/Pipeline.lean and Props/Pipeline3.lean (instants, probability), audits their theorems and runs
harness/pipeline.py on its own;
the property checks C06 / C01 / C02 / C12 call the same library."""
import pipeline

ID = "PIPE"
LEAN_MODULES = list(pipeline.LEAN_MODULES) + list(pipeline.BODIES_MODULES) + list(pipeline.LEAN_MODULES3)
GEN = list(pipeline.GEN) + list(pipeline.BODIES_GEN) + ["ProbTable"]
THEOREMS = list(pipeline.THEOREMS) + pipeline.bodies_theorems() + list(pipeline.ALL_THEOREMS3)
RULE = pipeline.RULE
ASSUMPTIONS = ["plots, quit / rand / seed / sample / now / today, instant literals in ISO forms the Instant fragment does not cover, arrays of random "
               "variables as a displayed result, thresholds / counts beyond 2000 / 1000 / 500 for the looping laws, and astronomically large "
               "powers / factorials / ranges are outside the unified model: such programs are answered `unmodelled` and skipped (counted in "
               "coverage.pipeline)",
               "probabilities are computed by the Prob fragment in exact rational arithmetic on the exact value of float parameters (exp / erf / "
               "sqrt 2: the C library's on doubles) and delivered in Python's kind; numerals in the output are compared to 1e-9 like C08's own "
               "correspondence (everything else is compared exactly)",
               "default configuration (empty HOME): precision 6, default currency table"]
LEVEL_TEXT = "auxiliary: refinement theorems from the unified evaluator to the fragment models + whole-program differential fuzzing"
LEVEL_NOTE = "not a property of properties.jsonl; strengthens the tie of C01/C02/C03/C04/C06/C12/C14 to the code"
TECHNIQUE = "Lean 4 unified model + whole-program differential fuzzing"


def check(ctx):
    # every program also runs with the function bodies TRANSLATED from the source in place of the hand-written ones
    st = pipeline.check(ctx, ctx.n(4000, 60000), ctx.n(300, 5000), bodies=True)
    p = st["programs"]
    g = p.get("translated_bodies")
    bc = pipeline.bodies_coverage(ctx)
    if bc:
        ctx.notes.append("translator: %d descriptors translated (%d of them modelled by hand, %d with an agreement theorem), %d refused "
                         "(%d of the refused ones have a hand-written body: tied by correspondence only)"
                         % (bc["translated"], bc["translated_and_modelled"], bc["with_theorem"], bc["refused"], len(bc["modelled_but_refused"])))
    if g:
        ctx.notes.append("translated bodies (Gen/Bodies, stream runG): %d programs compared, %d disagreements with execute(), "
                         "%d answers different from the hand-written bodies; sessions: %r"
                         % (g["modelled"], g["disagreements"], g["differs_from_handwritten"], st["sessions"].get("translated_bodies")))
    ctx.notes.append("pipeline: %d programs, %d modelled, %d unmodelled, %d disagreements; sessions: %r"
                     % (p["total"], p["modelled"], p["unmodelled"], p["disagreements"], st["sessions"]))
