"""Shared oracle: evaluating an expression never changes a value that a variable is bound to.

Ka values are immutable to the user: an operator returns a NEW value.  An implementation that
updates an operand in place (a quantity's magnitude, an instant's datetime, a lazy value's ranges,
an array's contents) returns the right result for the expression at hand and silently corrupts
every later read of the variable.  The oracle binds values of every kind to variables, evaluates
expressions that use them as operands (left and right), and requires the whole binding table to be
unchanged afterwards (deep, by value) and a second evaluation to give the same result."""
from fractions import Fraction
import core
from core import num_canon


def deep_canon(v, T):
    if isinstance(v, T.Combinatoric):
        return "L(" + " ".join(str(r) for r in v.ns) + ";" + " ".join(str(r) for r in v.ds) + ")"
    if isinstance(v, T.Quantity):
        return "Q(%s;%s)" % (deep_canon(v.mag, T), ",".join(map(str, v.qv.v.xs)))
    if isinstance(v, T.Array):
        return "{" + ",".join(deep_canon(x, T) for x in v.contents) + "}"
    if isinstance(v, T.Interval):
        return "[" + deep_canon(v.a, T) + "," + deep_canon(v.b, T) + "]"
    if isinstance(v, T.Instant):
        return "#" + v.dt.isoformat() + "#"
    c = num_canon(v) if isinstance(v, (int, float, Fraction)) else None
    return c if c is not None else "%s:%r" % (type(v).__name__, v)


def env_canon(env, T):
    b = core.env_bindings(env)
    return ";".join("%s=%s" % (k, deep_canon(b[k], T)) for k in sorted(b))


BINDINGS = [
    ("q", "10 m"), ("r", "(7/2) s"), ("t", "20 degC"), ("k", "3 km"), ("a", "90 deg"), ("n", "12"), ("h", "1/3"), ("g", "2.5"),
    ("d", "#2024-02-28T10:00:00#"), ("w", "#2020-12-31T23:59:59.5#"), ("xs", "{1 m, 2 m, 3 cm}"), ("ys", "{3, 1/2, 2.5}"),
    ("f", "5!"), ("c", "C(6,2)"), ("z", "0*4!"), ("iv", "[1, 2]"), ("jv", "[1/2, 3.5]"), ("s", "\"abc\""),
]
EXPRS = [
    "q/2 + q", "q - q/2", "q*2", "2*q", "q + 5 m", "q - 1 cm", "q/(2 s)", "q*r", "q to cm", "-q", "abs(q)", "q < k", "k/2 to m",
    "t - 5 K", "t + 1 K", "t to degF", "a*2", "a + 1", "sin(a)", "n + 1", "n*h", "h + g", "g*2", "n/5",
    "d + 2", "2 + d", "d - 1", "d + 1 h", "1 h + d", "d - 30 min", "w - d", "floor(w)", "ceil(d)", "d < w", "year(d)",
    "{e*2 : e in xs}", "sum(xs)", "mean(xs)", "max(xs)", "median(ys)", "prod(ys)", "{e + 1 : e in ys}", "size(xs)", "1 in ys", "sum(ys)",
    "f*3", "f/4!", "f + 1", "f*c", "c/(2/5)", "f/c", "z*4!", "z + 1", "f == 120", "sqrt(f)", "f m", "{f}", "max(f, 7)",
    "iv + 1", "iv*2", "iv/2", "-iv", "iv^2", "jv - 1/2", "1 in iv", "iv < 3", "min(iv, 3/2)", "abs(jv)", "size(iv)",
    "s", "q", "d", "xs", "f", "iv",
]


def run(ctx, prefix="alias"):
    R = ctx.real
    T = R.types
    rng = ctx.rng
    env = R.new_env()
    for name, text in BINDINGS:
        R.execute("%s = %s" % (name, text), env=env)
    before = env_canon(env, T)
    exprs = list(EXPRS)
    rng.shuffle(exprs)
    first = {}
    for rnd in (0, 1):
        for ex in exprs:
            r = R.execute(ex, env=env)
            ctx.count("%s:%s:%d" % (prefix, ex, rnd), bucket=prefix)
            now = env_canon(env, T)
            res = (r["status"], r["out"], r["escaped"])
            if now != before:
                changed = [a for a, b in zip(before.split(";"), now.split(";")) if a != b]
                ctx.violation("%s-operand-mutated:%s" % (prefix, ex),
                              "; ".join("%s = %s" % b for b in BINDINGS) + "; " + ex,
                              "every variable keeps its value", "changed: " + "; ".join(changed)[:300],
                              "one EvalEnvironment: the assignments, then execute(%r), then read the variables" % ex)
                # restore so that one corruption is reported once
                env = R.new_env()
                for name, text in BINDINGS:
                    R.execute("%s = %s" % (name, text), env=env)
            if ex in first and first[ex] != res:
                ctx.violation("%s-not-repeatable:%s" % (prefix, ex), ex, repr(first[ex]), repr(res),
                              "execute(%r) twice on one EvalEnvironment with the same bindings" % ex)
            first.setdefault(ex, res)
