"""
Whole-program differential fuzzing of the UNIFIED PIPELINE MODEL (lean/KaVerif/Model/Eval.lean,
driver streams `run` / `runsess`, Driver/Eval.lean) against the real `ka.interpret.execute`.

This is a library, not a property check.  A check calls

    import pipeline
    stats = pipeline.run(ctx, pipeline.gen_programs(ctx.rng, ctx.n(1500, 20000)))

`run` executes every text with the real interpreter (fresh environment, captured streams, watchdog) and
through the model driver, compares the status and the exact output text (and, for status 1, the
class of the diagnosed error plus — for lexical and parse errors — the position of the marker),
records disagreements through `ctx.correspond` (inputs the model declares `unmodelled` are skipped)
and returns coverage statistics.  `run_sessions` does the same for sequences of inputs against one
environment.  `gen_programs` generates well-formed whole programs mixing all modelled features.
"""
import binascii, io, math, re, struct
import core

# what a check that calls this library adds to its own constants
GEN = ["Registry", "Units", "Tokens"]
LEAN_MODULES = ["KaVerif.Props.Pipeline"]
THEOREMS = ["KaVerif.PIPE_dispatch_table", "KaVerif.PIPE_arith", "KaVerif.PIPE_arith_or_refuses", "KaVerif.PIPE_arith_exact",
            "KaVerif.PIPE_text_arith", "KaVerif.PIPE_text_arith_min_full", "KaVerif.PIPE_text_arith_lexed",
            "KaVerif.PIPE_statements", "KaVerif.PIPE_session", "KaVerif.PIPE_qty_ops", "KaVerif.PIPE_array_sum", "KaVerif.PIPE_interval"]
LEAN_MODULES2 = ["KaVerif.Props.Pipeline2"]
THEOREMS2 = {
    "C02": ["KaVerif.PIPE_tokens_of_tree", "KaVerif.PIPE_text_of_tree", "KaVerif.PIPE_stages", "KaVerif.PIPE_parse_marker_inside"],
    "C03": ["KaVerif.PIPE_qty_expr", "KaVerif.PIPE_qty_dim"],
    "C04": ["KaVerif.PIPE_qty_expr", "KaVerif.PIPE_unit_lookup"],
    "C05": ["KaVerif.PIPE_comb", "KaVerif.PIPE_comb_program", "KaVerif.PIPE_comb_exact"],
    "C06": ["KaVerif.PIPE_execute", "KaVerif.PIPE_outcome_shape", "KaVerif.PIPE_display_stage", "KaVerif.PIPE_display_total",
            "KaVerif.PIPE_stages", "KaVerif.PIPE_parse_marker_inside", "KaVerif.PIPE_elementary_domain"],
    "C09": ["KaVerif.PIPE_compare", "KaVerif.PIPE_compare_node", "KaVerif.PIPE_compare_semantics",
            "KaVerif.PIPE_compare_chain_rejected"],
    "C11": ["KaVerif.PIPE_stages", "KaVerif.PIPE_text_of_tree"],
    "C12": ["KaVerif.PIPE_array_aggregates", "KaVerif.PIPE_range", "KaVerif.PIPE_range_step"],
    "C13": ["KaVerif.PIPE_unit_lookup", "KaVerif.PIPE_qty_expr"],
    "C15": ["KaVerif.PIPE_display", "KaVerif.PIPE_display_int", "KaVerif.PIPE_display_total"],
    "C16": ["KaVerif.PIPE_elementary", "KaVerif.PIPE_elementary_call", "KaVerif.PIPE_elementary_domain",
            "KaVerif.PIPE_elementary_finite"],
}
# Props/PipelineArr.lean: the refinement gaps Pipeline2 left open (comprehensions and their scoping, median,
# range(lo, hi, step) on every numeric kind, aggregates on same-dimension quantities)
# Props/Pipeline3.lean: instants and probability inside the unified model (refinement to Model/Instant.lean, Model/Prob.lean)
LEAN_MODULES3 = ["KaVerif.Props.PipelineArr", "KaVerif.Props.Pipeline3"]
GEN3 = GEN + ["ProbTable"]      # generated tables Props/Pipeline3.lean depends on
THEOREMS3 = {
    "C12": ["KaVerif.PIPE_comprehension", "KaVerif.PIPE_comprehension_rejects", "KaVerif.PIPE_comprehension_closed_form",
            "KaVerif.PIPE_comprehension_session", "KaVerif.PIPE_comprehension_arith",
            "KaVerif.PIPE_median", "KaVerif.PIPE_median_exact", "KaVerif.PIPE_range_step_float",
            "KaVerif.PIPE_qty_aggregates"],
    "C14": ["KaVerif.PIPE_comprehension_scope", "KaVerif.PIPE_comprehension_session"],
    "C17": ["KaVerif.PIPE_dispatch_table3", "KaVerif.PIPE_instant_literal", "KaVerif.PIPE_instant_parse_stage", "KaVerif.PIPE_instant_ops",
            "KaVerif.PIPE_instant_node", "KaVerif.PIPE_instant_add_sub", "KaVerif.PIPE_instant_floor_ceil", "KaVerif.PIPE_instant_cmp_sign",
            "KaVerif.PIPE_instant_non_time", "KaVerif.PIPE_instant_display"],
    "C15": ["KaVerif.PIPE_instant_display"],
    "C08": ["KaVerif.PIPE_dispatch_table3", "KaVerif.PIPE_prob_constructors", "KaVerif.PIPE_prob_mean", "KaVerif.PIPE_prob_single",
            "KaVerif.PIPE_prob_eq", "KaVerif.PIPE_prob_double", "KaVerif.PIPE_prob_mixed_rejected", "KaVerif.PIPE_prob_complement",
            "KaVerif.PIPE_prob_mass", "KaVerif.PIPE_prob_range"],
    "C06": ["KaVerif.PIPE_instant_parse_stage", "KaVerif.PIPE_prob_constructors"],
    "C09": ["KaVerif.PIPE_instant_cmp_sign", "KaVerif.PIPE_instant_node"],
}
ALL_THEOREMS3 = sorted({t for ts in THEOREMS3.values() for t in ts})
RULE = ("whole programs (1-4 statements, depth <= 4) mixing arithmetic on ints / fractions / floats / scientific and based literals, "
        "variables and assignments across ';', factorials and binomials, quantities with units / prefixes / compound signatures / "
        "temperatures and 'to', intervals and their functions, arrays / ranges / comprehensions / aggregates, comparisons incl. chained "
        "and backward ones, membership, elementary functions, strings; instant literals (all six ISO forms; month ends, leap days, year "
        "ends, years 1 and 9999; ~6 % malformed) with + / - spans (ms .. weeks as int / fraction / float) and day counts in both orders, "
        "I - J, floor / ceil, the six comparisons, the field accessors; the eight distributions (valid and invalid parameters, exact and "
        "float), all single and double event forms in both directions, X = k, P / E / mean; variables, arrays and comprehensions holding "
        "instants / random variables / events; random redundant parentheses and whitespace; ~15 % deliberately "
        "ill-typed, ~4 % syntactically damaged; plus sessions of 2-5 inputs against one environment; each through the real "
        "execute() (status, exact output text, class of the diagnosed error, marker position) and through the unified Lean model")

# ----------------------------------------------------------------------------
# the real side
# ----------------------------------------------------------------------------
_NUM = re.compile(r"[-+]?(?:\d+\.?\d*|\.\d+)(?:e[-+]?\d+)?")


def _hex(s):
    return binascii.hexlify(s.encode("utf-8")).decode("ascii")


def _unhex(h):
    try:
        return binascii.unhexlify(h).decode("utf-8")
    except Exception:  # noqa
        return None


def _clone_env(R, env):
    return core.clone_env(env)


def classify(R, text, env, timeout=5.0):
    """Which stage of execute() ends the run, and how: 'ok' | 'err <class>' | 'exit' | 'timeout'.
    Runs the stages directly (on `env`, which the caller has cloned)."""
    T, P, E, I = R.tokens, R.parse, R.eval, R.interpret
    try:
        with core.alarm(timeout):
            try:
                toks = T.tokenise(text)
            except (T.UnknownTokenError, T.BadNumberError, T.UnclosedStringError, T.UnclosedInstantError) as e:
                return "err lex:%s:%d" % (type(e).__name__, e.index)
            try:
                tree = P.parse_tokens(toks)
            except P.ParsingError as e:
                if not toks:
                    index = 0
                elif e.token_index >= len(toks):
                    index = toks[-1].end_index_excl
                else:
                    index = toks[e.token_index].begin_index_incl
                return "err parse:%d" % index
            try:
                v = E.eval_parse_tree(tree, env)
                red = I.reduce_result(v)
                if red is not None:
                    I.display_result(red, io.StringIO())
            except R.functions.ExitKaSignal:
                return "exit"
            return "ok"
    except core.Timeout:
        return "timeout"
    except BaseException as e:  # noqa
        if isinstance(e, (KeyboardInterrupt, SystemExit)):
            raise
        return "err " + core.err_code(e)


def real_answer(R, text, env=None, timeout=5.0):
    """The real interpreter's observable outcome in the model driver's answer format."""
    if env is None:
        env = R.new_env()
    cls = classify(R, text, _clone_env(R, env), timeout)
    r = R.execute(text, env=env, timeout=timeout)
    if r["escaped"] == "diverges" or cls == "timeout":
        return "timeout"
    if r["escaped"]:
        return "escaped " + r["escaped"]
    if r["status"] == 0:
        if cls == "exit":
            return "exit"
        if cls != "ok" or r["err"] != "":
            return "inconsistent status 0, stages say %s, error stream %r" % (cls, r["err"][:60])
        return "ok " + _hex(r["out"])
    if r["status"] == 1:
        if not cls.startswith("err ") or r["out"] != "" or r["err"] == "":
            return "inconsistent status 1, stages say %s, out %r" % (cls, r["out"][:60])
        return cls
    return "inconsistent status %r" % (r["status"],)


def texts_agree(a, b, tol=1e-9):
    """Exact equality, or equality up to the numerals, which then must agree within `tol`."""
    if a == b:
        return True
    if a is None or b is None:
        return False
    if _NUM.split(a) != _NUM.split(b):
        return False
    for x, y in zip(_NUM.findall(a), _NUM.findall(b)):
        if x == y:
            continue
        try:
            fx, fy = float(x), float(y)
        except ValueError:
            return False
        if not abs(fx - fy) <= tol * max(1.0, abs(fx), abs(fy)):
            return False
    return True


def answers_agree(real, model):
    if real == model:
        return True
    if real.startswith("ok ") and model.startswith("ok "):
        return texts_agree(_unhex(real[3:]), _unhex(model[3:]))
    return False


def _skip(real, model):
    """cases that are not compared: the model declares the input outside its sub-language, or the real
    run hit the watchdog / exited"""
    if model.startswith("unmodelled"):
        return "unmodelled: " + model[len("unmodelled "):].split(" ")[0:2].__repr__()
    if real == "timeout":
        return "timeout"
    if real == "exit":
        return "exit"
    return None


def _describe(info):
    return info if isinstance(info, str) else repr(info)


def check_constants(ctx):
    """math.e / math.pi bit patterns used by the model = the running interpreter's"""
    import ka.eval as E
    bits = lambda x: struct.unpack("<Q", struct.pack("<d", x))[0]
    real = "%d %d" % (bits(E.CONSTANTS["e"]), bits(E.CONSTANTS["pi"]))
    ok_tf = E.CONSTANTS.get("true") == 1 and E.CONSTANTS.get("false") == 0 and set(E.CONSTANTS) == {"e", "pi", "true", "false"}
    ctx.correspond("evalconst", [("evalconst -", real if ok_tf else "CONSTANTS changed: %r" % (E.CONSTANTS,), "eval.CONSTANTS")])


class _PltStub:
    """recording stand-in for matplotlib.pyplot (what the plotting library does is outside the model)"""
    def __getattr__(self, name):
        return self

    def __call__(self, *a, **k):
        return self


def _stub_plots():
    try:
        import ka.plot as KP
        if not isinstance(getattr(KP, "plt", None), _PltStub) and type(getattr(KP, "plt", None)).__name__ != "PltStub":
            KP.plt = _PltStub(); KP.ticker = _PltStub(); KP.load_pyplot = lambda: None
    except Exception:  # noqa
        pass


def too_deep(text, depth=30, ops=250):
    """inputs whose bracket nesting or operator count comes near CPython's recursion limit: the real code reports
    'nested too deeply' there, which the model — whose recursion is over the tree, with no stack bound — does not"""
    d = m = 0
    for ch in text:
        if ch in "([{":
            d += 1
            m = max(m, d)
        elif ch in ")]}":
            d = max(0, d - 1)
    return m > depth or sum(text.count(c) for c in "+-*/%^!<>=,;|±:") > ops


# driver streams that evaluate the same program with the function bodies TRANSLATED from the Python source
# (Gen/Bodies.lean, translate/gen_bodies.py) substituted for the hand-written ones (Model/EvalG.lean)
BODIES_STREAMS = {"run": "runG", "runsess": "runsessG"}
BODIES_GEN = ["Bodies"]
BODIES_MODULES = ["KaVerif.Props.Bodies", "KaVerif.Props.BodiesDispatch"]


def bodies_theorems(prefixes=None):
    """the `Props/Bodies` agreement theorems (tools/bodies_theorems.txt, written next to Props/Bodies.lean), optionally only
    those of descriptors whose signature mentions one of `prefixes` (e.g. 'Interval', 'Array')"""
    import os
    p = os.path.join(core.VERIF, "tools", "bodies_theorems.txt")
    names = [l.strip() for l in open(p)] if os.path.exists(p) else []
    # always audited: the summary, the two facts about the real dispatcher, and the instantiation theorem that replaces
    # trust in Model/EvalG.lean's copy of the evaluator (the stream `runG` every caller of this library uses)
    fixed = ["KaVerif.BODIES_table", "KaVerif.BODIES_numdisp_real", "KaVerif.BODIES_numsem_real", "KaVerif.BODIES_evalG_instance"]
    names = [n for n in names if n not in fixed]
    if prefixes is not None:
        names = [n for n in names if any(x in n for x in prefixes)]
    # Props/BodiesDispatch: one level of dispatch over the translated table = one level over the hand-written table
    # (tools/bodies_dispatch_theorems.txt, written by tools/mkbodiesprops.py next to Props/BodiesDispatch.lean)
    pd = os.path.join(core.VERIF, "tools", "bodies_dispatch_theorems.txt")
    disp = [l.strip() for l in open(pd) if l.strip()] if os.path.exists(pd) else []
    return fixed + [d for d in disp if d not in fixed] + names


def bodies_coverage(ctx):
    """what the translator covers, for the evidence: descriptors translated / refused (Gen/Bodies.lean), how many of the
    translated ones the hand-written table models, and which of those have no `Props/Bodies` theorem yet"""
    import os
    lean = os.path.join(core.VERIF, "lean", "KaVerif")
    try:
        gen = open(os.path.join(lean, "Gen", "Bodies.lean"), encoding="utf-8").read()
        props = open(os.path.join(lean, "Props", "Bodies.lean"), encoding="utf-8").read()
        ev = open(os.path.join(lean, "Model", "Eval.lean"), encoding="utf-8").read()
    except OSError:
        return None
    key = re.compile(r'^  \("((?:[^"\\]|\\.)*)", ', re.M)

    def block(src, head):
        i = src.find(head)
        return src[i: src.find("]\n\n", i)] if i >= 0 else ""
    translated = key.findall(block(gen, "def bodiesTable"))
    refused = key.findall(block(gen, "def untranslated"))
    modelled = set(key.findall(block(ev, "def implTable")))
    covered = set(re.findall(r'^  "((?:[^"\\]|\\.)*)",?$', block(props, "def Bodies.covered"), re.M))
    out = dict(translated=len(translated), refused=len(refused), translated_and_modelled=len([d for d in translated if d in modelled]),
               with_theorem=len([d for d in translated if d in covered]),
               modelled_without_theorem=[d for d in translated if d in modelled and d not in covered],
               modelled_but_refused=[d for d in refused if d in modelled])
    ctx.cov["translated_bodies"] = out
    return out


def run(ctx, texts, stream_name="run", features=None, min_modelled=0.5, timeout=5.0, label=None, bodies=False):
    """texts: list of str, or of (str, feature-tag list).  Returns coverage statistics.
    `stream_name` is the driver stream (`run`); `label` names this batch in the evidence (default: the stream name).
    `bodies=True`: the same programs also go through the stream that runs the TRANSLATED function bodies (`runG`) and are
    compared with the same real answers (recorded as `<label>:translated-bodies`)."""
    label = label or stream_name
    R = ctx.real
    _stub_plots()
    items = [(t, ()) if isinstance(t, str) else (t[0], tuple(t[1])) for t in texts]
    cases, reals = [], []
    for text, tags in items:
        if "\n" in text or "\r" in text:
            continue                    # one request per line; the hex encoding would allow it, keep inputs single-line anyway
        if too_deep(text):
            continue                    # the host's stack depth is not modelled (C06's depth family observes the real code there)
        real = real_answer(R, text, None, timeout)
        if real.startswith("escaped ") and ctx.pid in ("C06", "PIPE"):
            ctx.violation("exec:ESCAPE:" + text[:200], text, "status 0 or 1 (no host exception escapes)", real, "execute(%r)" % text)
        cases.append(("%s %s" % (stream_name, _hex(text)), real, (text, tags)))
    stats = dict(total=len(cases), modelled=0, unmodelled=0, skipped_other=0, disagreements=0, by_feature={}, unmodelled_reasons={},
                 outcomes={})
    if not cases or not ctx.model_ok:
        return stats
    check_constants(ctx)
    answers = {}

    def agree(real, model, info):
        answers[info[0]] = model
        why = _skip(real, model)
        tags = info[1] or ("untagged",)
        if why is not None:
            key = "unmodelled" if model.startswith("unmodelled") else "skipped_other"
            stats[key] += 1
            if model.startswith("unmodelled"):
                reason = model[len("unmodelled "):]
                stats["unmodelled_reasons"][reason] = stats["unmodelled_reasons"].get(reason, 0) + 1
            for f in tags:
                stats["by_feature"].setdefault(f, [0, 0])[1] += 1
            return True
        stats["modelled"] += 1
        for f in tags:
            stats["by_feature"].setdefault(f, [0, 0])[0] += 1
        o = real.split(" ")[0] + ((" " + real.split(" ")[1].split(":")[0]) if real.startswith("err ") else "")
        stats["outcomes"][o] = stats["outcomes"].get(o, 0) + 1
        return answers_agree(real, model)

    def describe(info):
        return "text=%r" % (info[0],)

    bad = ctx.correspond(label, cases, agree=agree, describe=describe)
    stats["disagreements"] = len(bad)
    stats["first_disagreements"] = [dict(text=i[0], real=(_unhex(r[3:]) if r.startswith("ok ") else r),
                                         model=(_unhex(m[3:]) if m.startswith("ok ") else m)) for (_, r, m, i) in bad[:10]]
    for (text, tags) in items[:3]:
        ctx.sample(dict(pipeline=text, model=answers.get(text)))
    for c in cases:
        ctx.count("pipe:" + c[2][0], bucket="pipeline")
    if stats["total"] >= 50 and stats["modelled"] < min_modelled * stats["total"]:
        ctx.broken("pipeline model covers only %d of %d generated programs (implementation descriptors changed?)"
                   % (stats["modelled"], stats["total"]), repr(stats["unmodelled_reasons"]))
    ctx.cov.setdefault("pipeline", {})[label] = {k: v for k, v in stats.items() if k != "first_disagreements"}
    if bodies and stream_name in BODIES_STREAMS:
        g = BODIES_STREAMS[stream_name]
        gst = dict(total=len(cases), modelled=0, unmodelled=0, disagreements=0, differs_from_handwritten=0)
        hand = dict(answers)

        def agree_g(real, model, info):
            if _skip(real, model) is not None:
                gst["unmodelled"] += 1
                return True
            gst["modelled"] += 1
            h = hand.get(info[0])
            if h is not None and not h.startswith("unmodelled") and h != model:
                gst["differs_from_handwritten"] += 1
            return answers_agree(real, model)
        bad_g = ctx.correspond(label + ":translated-bodies", [("%s %s" % (g, c[0].split(" ", 1)[1]), c[1], c[2]) for c in cases],
                               agree=agree_g, describe=describe)
        gst["disagreements"] = len(bad_g)
        ctx.cov["pipeline"][label + ":translated-bodies"] = gst
        stats["translated_bodies"] = gst
    return stats


def run_sessions(ctx, sessions, stream_name="runsess", timeout=5.0, bodies=False):
    """sessions: list of lists of texts; each list is run against ONE environment, in order."""
    R = ctx.real
    _stub_plots()
    cases = []
    for inputs in sessions:
        inputs = [t for t in inputs if "\n" not in t and "\r" not in t and ";" not in _hex(t)]
        if not inputs:
            continue
        env = R.new_env()
        reals = [real_answer(R, t, env, timeout) for t in inputs]
        if ctx.pid in ("C06", "PIPE"):
            for i_, r_ in enumerate(reals):
                if r_.startswith("escaped "):
                    ctx.violation("exec:ESCAPE-session:" + " ;; ".join(inputs[: i_ + 1])[:300], " ;; ".join(inputs[: i_ + 1]),
                                  "every input of the session ends in status 0 or 1", "input %d: %s" % (i_ + 1, r_),
                                  "one EvalEnvironment, execute() of each input in order")
                    break
        cases.append(("%s %s" % (stream_name, ";".join(_hex(t) for t in inputs)), ";".join(reals), inputs))
    stats = dict(sessions=len(cases), inputs=0, compared=0, disagreements=0)

    def agree(real, model, info):
        rs, ms = real.split(";"), model.split(";")
        if len(rs) != len(ms):
            return False
        ok = True
        for r, m in zip(rs, ms):
            stats["inputs"] += 1
            if _skip(r, m) is not None:
                if not m.startswith("unmodelled"):
                    break              # a timeout / exit: the environments may differ from here on
                continue
            stats["compared"] += 1
            if not answers_agree(r, m):
                ok = False
        return ok

    bad = ctx.correspond(stream_name, cases, agree=agree, describe=lambda info: "inputs=%r" % (info,))
    stats["disagreements"] = len(bad)
    ctx.cov.setdefault("pipeline", {})[stream_name] = dict(stats)
    if bodies and stream_name in BODIES_STREAMS:
        main = dict(stats)
        stats.update(inputs=0, compared=0)
        g = BODIES_STREAMS[stream_name]
        bad_g = ctx.correspond(stream_name + ":translated-bodies", [("%s %s" % (g, c[0].split(" ", 1)[1]), c[1], c[2]) for c in cases],
                               agree=agree, describe=lambda info: "inputs=%r" % (info,))
        gst = dict(sessions=len(cases), inputs=stats["inputs"], compared=stats["compared"], disagreements=len(bad_g))
        ctx.cov["pipeline"][stream_name + ":translated-bodies"] = gst
        stats.clear(); stats.update(main); stats["translated_bodies"] = gst
    return stats


def check(ctx, n_programs, n_sessions, bodies=False):
    """the standard whole-program run: generated programs + generated sessions; returns both statistics"""
    a = run(ctx, gen_programs(ctx.rng, n_programs), bodies=bodies)
    b = run_sessions(ctx, gen_sessions(ctx.rng, n_sessions), bodies=bodies)
    return dict(programs=a, sessions=b)


# ----------------------------------------------------------------------------
# generator of whole programs
# ----------------------------------------------------------------------------
LEN_UNITS = ["m", "km", "cm", "mm", "metres", "kilometre", "ft", "inch", "mi", "yd", "μm", "au"]
TIME_UNITS = ["s", "min", "h", "ms", "d", "seconds", "hours", "week", "ks"]
MASS_UNITS = ["kg", "g", "mg", "t", "lb", "grams", "kilogram"]
TEMP_UNITS = ["K", "degC", "degF"]
OTHER_SIGS = ["m|s", "km|h", "m^2", "m^3", "kg m|s^2", "N", "J", "W", "Hz", "m s^-1", "l", "ha", "kg m^2|s^2", "N m", "b", "B", "KiB", "dozen",
              "usd", "eur", "$", "rad", "deg", "m|s^2", "kg|m^3", "MB", "kW h"]
DIM_UNITS = {"len": LEN_UNITS, "time": TIME_UNITS, "mass": MASS_UNITS, "temp": TEMP_UNITS}

# precedence levels of the Ka grammar (Model/Render.lean): an operand written at a position that needs
# level L stays bare when its own level is >= L
L_TO, L_CMP, L_SUM, L_PROD, L_POW, L_BRACK, L_RANGE, L_QTY, L_SIGN, L_FACT, L_ATOM = range(11)


def py_simplify(x):
    """`simplify_number` on a Python number (C01: an integral float / a Fraction with denominator 1 is delivered as an int)"""
    from fractions import Fraction
    if isinstance(x, float) and x == x and x not in (float("inf"), float("-inf")) and x.is_integer():
        return int(x)
    if isinstance(x, Fraction) and x.denominator == 1:
        return int(x)
    return x


def ka_literal(text):
    """the Python number Ka delivers for a numeric literal / a quotient of two integer literals (tokens.py read_number: a
    mantissa with a point is a float, read by `float()` as a whole; an integer mantissa with an exponent stays exact —
    `1e16` is the int 10**16, `1e-3` the Fraction 1/1000; then simplify_number)"""
    from fractions import Fraction
    if "/" in text:
        a, b = text.split("/")
        return py_simplify(Fraction(int(a), int(b)))
    m = re.match(r"^(\d+)(\.\d*)?(?:e([+-]?\d+))?$", text)
    if m.group(2) is not None:
        return py_simplify(float(text))
    v = int(m.group(1))
    if m.group(3) is not None:
        e = int(m.group(3))
        v = v * 10 ** e if e >= 0 else Fraction(v, 10 ** -e)
    return py_simplify(v)


def float_range_case(rng):
    """`range(lo, hi, step)` where floating-point rounding decides the number of rounds or stops progress altogether
    (fix efcc27a): bounds next to 2^51 … 2^54 (unit in the last place 0.5 … 4) or written 1e15 … 2e16, steps that are
    rounded up, rounded down or absorbed (`1e16 + 0.5 == 1e16`: FunctionArgError).  The operands are built BY CONSTRUCTION:
    returns (lo_text, hi_text, step_text, lo, hi, step) with the Python values Ka computes for the three texts."""
    from fractions import Fraction
    form = rng.choice(["lit", "lit", "lit", "int", "e", "e"])
    w = rng.choice([1, 2, 2, 4, 4, 6, 10, 20])
    if form == "e":
        lo_t = rng.choice(["1e15", "4e15", "9e15", "1e16", "1.0e16", "2e16", "1.5e16", "9.0e15", "4.5e15"])
        lo = ka_literal(lo_t)
    else:
        k = rng.choice([51, 51, 52, 52, 53, 53, 54])
        off = rng.choice([0, 0, 1, 2, 3, -1, -2, 0.5, -0.5, 1.5, -1.5])
        if form == "int":
            x = 2 ** k + int(off)
            lo_t, lo = str(x), x
        else:
            x = float(2 ** k) + off
            lo_t = "%.1f" % x
            assert float(lo_t) == x
            lo = py_simplify(x)
    if rng.random() < 0.5:
        hi_t = "%s+%d" % (lo_t, w)                 # evaluated by Ka: `+` on the kinds at hand, then simplify_number
        hi = py_simplify(lo + w)
    else:
        h = float(lo) + w
        hi_t = "%.1f" % h
        assert float(hi_t) == h
        hi = py_simplify(h)
    kind, st_t = rng.choice([("float", "0.7"), ("float", "0.5"), ("float", "0.3"), ("float", "0.26"), ("float", "0.75"),
                             ("float", "1.5"), ("float", "0.1"), ("frac", "1/3"), ("int", "1"), ("float", "0.5000001"),
                             ("float", "0.25"), ("float", "1.0e-3"), ("frac", "3/4"), ("float", "2.5"), ("int", "3"),
                             ("float", "0.125"), ("frac", "5/2"), ("frac", "1e-1")])
    st = ka_literal(st_t)
    return lo_t, hi_t, st_t, lo, hi, st


def reference_range(lo, hi, st, limit=100000):
    """`ka_range` after efcc27a on Python numbers, written down independently: returns the list (elements as Ka delivers
    them), or "funarg" (non-positive step, lo > hi, or a round that makes no progress), or None beyond `limit` rounds"""
    from fractions import Fraction
    if not Fraction(0) < Fraction(st) or not Fraction(lo) <= Fraction(hi):
        return "funarg"
    out, c = [], lo
    while Fraction(c) <= Fraction(hi):
        if len(out) > limit:
            return None
        out.append(c)
        n = py_simplify(c + st)
        if not Fraction(c) < Fraction(n):
            return "funarg"
        c = n
    return out


class Gen:
    def __init__(self, rng, ill=0.15):
        self.rng = rng
        self.ill = ill
        self.vars = {}           # name -> type
        self.tags = set()
        self.ill_used = False
        self.compr_vars = []

    # ---- text assembly
    def ws(self):
        r = self.rng.random()
        return "" if r < 0.45 else " " if r < 0.9 else "  " if r < 0.97 else "\t"

    def join(self, toks):
        out = []
        for t in toks:
            if not t:
                continue
            if out:
                a, b = out[-1][-1], t[0]
                wordy = lambda c: c.isalnum() or c in "_.$€£¥μ"
                if (wordy(a) and wordy(b)) or (a == "." and b == ".") or (a in "<>=!" and b == "=") or (a == "!" and b == "="):
                    out.append(" " if self.rng.random() < 0.9 else "  ")
                else:
                    out.append(self.ws())
            out.append(t)
        return "".join(out)

    def at(self, e, level):
        """operand `e = (text, level)` written where binding level `level` is required"""
        text, lv = e
        if lv >= level and self.rng.random() < 0.8:
            return text
        return self.join(["(", text, ")"])

    def maybe_paren(self, e):
        if self.rng.random() < 0.12:
            return (self.join(["(", e[0], ")"]), L_ATOM)
        return e

    def pick_var(self, types):
        c = [n for n, t in self.vars.items() if t in types]
        return self.rng.choice(c) if c else None

    # ---- literals
    def int_lit(self, small=False):
        r = self.rng.random()
        if small or r < 0.6:
            return str(self.rng.choice([0, 1, 1, 2, 2, 3, 4, 5, 6, 7, 8, 9, 10, 12, 15, 20]))
        if r < 0.75:
            return str(self.rng.randrange(0, 10 ** self.rng.randrange(2, 7)))
        if r < 0.8:
            return self.rng.choice(["0x1f", "0b101", "0o17", "0d42", "0xFF"])
        if r < 0.9:
            return self.rng.choice(["1e3", "2e2", "15e1", "5e0", "12e2"])
        return str(self.rng.choice([2 ** 31, 2 ** 53 + 1, 10 ** 18, 10 ** 25, 2 ** 64]))

    def num_lit(self):
        r = self.rng.random()
        if r < 0.5:
            return (self.int_lit(), L_ATOM)
        if r < 0.7:
            return (self.rng.choice(["2.5", "0.1", "1.5", "3.75", "0.25", "10.5", ".5", "2.", "0.001", "123.456", "1e-3", "25e-1", "1.5e2", "2.5e-2",
                                     "1e10", "6.02e23", "1.6e-19", "0.30000000000000004", "1e300", "3.0", "1e-7", "123456.7", "1234567.8"]), L_ATOM)
        if r < 0.85:
            self.tags.add("fraction")
            if self.rng.random() < 0.04:
                # a fraction beyond the float range (its approximation is printed as ~1e<digits>)
                return (self.join(["(", self.rng.choice(["10^400", "-(10^330)", "7^500"]), "+", "1", ")", "/", self.rng.choice(["3", "7", "11"])]), L_PROD)
            return (self.join([self.int_lit(True), "/", self.rng.choice(["2", "3", "4", "7", "10", "6"])]), L_PROD)
        return (self.rng.choice(["pi", "e", "true", "false"]), L_ATOM)

    # ---- typed expressions
    def expr(self, t, d):
        if not self.ill_used and self.rng.random() < self.ill / 6.0:
            self.ill_used = True
            self.tags.add("ill-typed")
            t = self.rng.choice(["num", "qty", "arr", "intv", "str", "bool", "lazy", "arrq", "inst", "rv", "event", "span", "inst", "rv"])
        f = getattr(self, "g_" + t)
        return self.maybe_paren(f(d))

    def g_num(self, d):
        rng = self.rng
        if d <= 0 or rng.random() < 0.2:
            v = self.pick_var(["num", "bool"])
            if v and rng.random() < 0.4:
                self.tags.add("variable")
                return (v, L_ATOM)
            return self.num_lit()
        if rng.random() < 0.10:
            # numbers out of instants and random variables, mixed into ordinary arithmetic
            return self.g_instnum(d - 1) if rng.random() < 0.45 else self.g_prob(d - 1)
        r = rng.random()
        if r < 0.30:
            op = rng.choice(["+", "-", "*", "/", "+", "-", "*", "/", "%"])
            lv = L_SUM if op in "+-" else L_PROD
            a, b = self.expr("num", d - 1), self.expr("num", d - 1)
            self.tags.add("arith")
            return (self.join([self.at(a, lv), op, self.at(b, lv + 1)]), lv)
        if r < 0.36:
            a = self.expr("num", d - 1)
            ex = rng.choice(["2", "3", "0", "1", "2", "-1", "-2", "0.5", "(1/2)", "10", "1.5"])
            self.tags.add("power")
            return (self.join([self.at(a, L_BRACK), "^", ex]), L_POW)
        if r < 0.42:
            a = self.expr("num", d - 1)
            return (self.join([rng.choice(["-", "-", "+"]), self.at(a, L_FACT)]), L_SIGN)
        if r < 0.54:
            fn = rng.choice(["abs", "floor", "ceil", "round", "int", "float", "sqrt", "sin", "cos", "tan", "ln", "log2", "log10"])
            a = self.expr("num", d - 1)
            if fn in ("sqrt", "ln", "log2", "log10") and rng.random() < 0.8:
                a = (self.join(["abs", "(", a[0], ")", "+", "1"]), L_SUM)
            self.tags.add("elementary" if fn in ("sqrt", "sin", "cos", "tan", "ln", "log2", "log10") else "rounding")
            return (self.join([fn, "(", a[0], ")"]), L_ATOM)
        if r < 0.57:
            self.tags.add("elementary")
            a = self.expr("num", d - 1)
            return (self.join(["log", "(", "abs", "(", a[0], ")", "+", "1", ",", rng.choice(["2", "10", "e", "0.5", "3"]), ")"]), L_ATOM)
        if r < 0.63:
            fn = rng.choice(["max", "min"])
            args = [self.expr("num", d - 1)[0] for _ in range(rng.choice([1, 2, 2, 3, 4]))]
            self.tags.add("minmax")
            toks = [fn, "("]
            for i, a in enumerate(args):
                toks += ([","] if i else []) + [a]
            return (self.join(toks + [")"]), L_ATOM)
        if r < 0.72:
            return self.g_lazy(d - 1)
        if r < 0.80:
            fn = rng.choice(["sum", "prod", "mean", "median", "min", "max", "size"])
            a = self.expr("arr", d - 1)
            self.tags.add("aggregate")
            return (self.join([fn, "(", a[0], ")"]), L_ATOM)
        if r < 0.85:
            fn = rng.choice(["lower", "upper", "size"])
            a = self.expr("intv", d - 1)
            self.tags.add("interval")
            return (self.join([fn, "(", a[0], ")"]), L_ATOM)
        if r < 0.93:
            dim = rng.choice(["len", "time", "mass", "temp", "len", "time", "mass"])
            q = self.g_qty(d - 1, dim)
            self.tags.add("convert")
            return (self.join([self.at(q, L_CMP), "to", rng.choice(DIM_UNITS[dim])]), L_TO)
        return self.g_bool(d - 1)

    def g_lazy(self, d):
        rng = self.rng
        self.tags.add("combinatoric")
        r = rng.random()
        n = rng.choice([0, 1, 2, 3, 4, 5, 6, 8, 10, 12, 20, 30])
        if r < 0.3:
            return (self.join([str(n), "!"]), L_FACT)
        if r < 0.5:
            k = rng.randrange(0, n + 2)
            return (self.join(["C", "(", str(n), ",", str(k), ")"]), L_ATOM)
        if r < 0.75:
            m = rng.choice([2, 3, 4, 5, 7])
            op = rng.choice(["/", "*"])
            return (self.join([str(n), "!", op, str(m), "!"]), L_PROD)
        if r < 0.9:
            return (self.join([str(n), "!", rng.choice(["/", "*"]), self.int_lit(True)]), L_PROD)
        return (self.join([self.int_lit(True), rng.choice(["/", "*"]), str(n), "!"]), L_PROD)

    def unit_sig(self, dim=None):
        rng = self.rng
        if dim in DIM_UNITS:
            return rng.choice(DIM_UNITS[dim])
        r = rng.random()
        if r < 0.45:
            return rng.choice(LEN_UNITS + TIME_UNITS + MASS_UNITS)
        if r < 0.55:
            return rng.choice(TEMP_UNITS)
        if r < 0.9:
            return rng.choice(OTHER_SIGS)
        a, b = rng.choice(LEN_UNITS + MASS_UNITS), rng.choice(TIME_UNITS)
        return self.join([a, rng.choice(["", "^2", "^-1", "^ 3"]), "|", b, rng.choice(["", "^2", ""])])

    def g_qty(self, d, dim=None):
        rng = self.rng
        self.tags.add("quantity")
        if dim is None:
            dim = rng.choice(["len", "len", "time", "mass", "temp", None])
        if d <= 0 or rng.random() < 0.35:
            v = self.pick_var(["qty:%s" % dim])
            if v and rng.random() < 0.4:
                self.tags.add("variable")
                return (v, L_ATOM)
            mag = self.num_lit() if rng.random() < 0.8 else self.g_num(0)
            return (self.join([self.at(mag, L_SIGN), self.unit_sig(dim)]), L_QTY)
        r = rng.random()
        if r < 0.4:
            op = rng.choice(["+", "-"])
            a, b = self.g_qty(d - 1, dim), self.g_qty(d - 1, dim if rng.random() < 0.93 else None)
            return (self.join([self.at(a, L_SUM), op, self.at(b, L_PROD)]), L_SUM)
        if r < 0.6:
            op = rng.choice(["*", "/"])
            a, b = self.g_qty(d - 1, dim), self.expr("num", d - 1)
            if op == "*" and rng.random() < 0.5:
                a, b = b, a
            return (self.join([self.at(a, L_PROD), op, self.at(b, L_POW)]), L_PROD)
        if r < 0.7 and dim is None:
            op = rng.choice(["*", "/"])
            a, b = self.g_qty(d - 1, None), self.g_qty(d - 1, None)
            return (self.join([self.at(a, L_PROD), op, self.at(b, L_POW)]), L_PROD)
        if r < 0.8:
            fn = rng.choice(["abs", "floor", "ceil", "round", "-", "+", "float", "int", "sqrt"])
            a = self.g_qty(d - 1, dim)
            if fn in "-+":
                return (self.join([fn, "(", a[0], ")"]), L_SIGN)
            return (self.join([fn, "(", a[0], ")"]), L_ATOM)
        if r < 0.9:
            fn = rng.choice(["sum", "max", "min", "mean", "median"])
            a = self.g_arrq(d - 1, dim)
            self.tags.add("aggregate")
            return (self.join([fn, "(", a[0], ")"]), L_ATOM)
        a = self.expr("num", d - 1)
        return (self.join([self.at(a, L_SIGN), self.unit_sig(dim)]), L_QTY)

    def g_arrq(self, d, dim=None):
        if dim is None:
            dim = self.rng.choice(["len", "time", "mass"])
        n = self.rng.choice([1, 2, 3, 4])
        toks = ["{"]
        for i in range(n):
            toks += ([","] if i else []) + [self.g_qty(d - 1, dim)[0]]
        self.tags.add("array")
        return (self.join(toks + ["}"]), L_BRACK)

    def g_arr(self, d):
        rng = self.rng
        self.tags.add("array")
        r = rng.random()
        v = self.pick_var(["arr"])
        if v and rng.random() < 0.2:
            self.tags.add("variable")
            return (v, L_ATOM)
        if d <= 0 or r < 0.3:
            n = rng.choice([0, 1, 2, 3, 4, 5])
            toks = ["{"]
            for i in range(n):
                toks += ([","] if i else []) + [self.expr("num", max(0, d - 1))[0]]
            return (self.join(toks + ["}"]), L_BRACK)
        if r < 0.5:
            lo = rng.choice([0, 1, 1, 2, 3, 5, -2])
            hi = lo + rng.choice([0, 1, 2, 3, 4, 6, 9, -1])
            self.tags.add("range")
            los = str(lo) if lo >= 0 else "(" + str(lo) + ")"
            his = str(hi) if hi >= 0 else "(" + str(hi) + ")"
            if rng.random() < 0.25:
                a = self.expr("num", 0)
                return (self.join([self.at(a, L_QTY), "..", his]), L_RANGE)
            return (self.join([los, "..", his]), L_RANGE)
        if r < 0.62:
            self.tags.add("range")
            lo = rng.choice(["0", "1", "0.5", "1/2", "2"])
            hi = rng.choice(["3", "4", "5", "2.5", "7/2"])
            st = rng.choice(["1", "0.5", "1/2", "2", "0.25", "1/3", "0", "-1", "0.1"])
            if rng.random() < 0.3:
                # float steps next to 2^51 … 2^54: rounded, or absorbed (FunctionArgError since fix efcc27a)
                lo, hi, st = float_range_case(rng)[:3]
                self.tags.add("range-float-edge")
                if rng.random() < 0.5:
                    # the distances from the first element: small numbers, printed exactly (the elements themselves
                    # all print as 4.5036e+15)
                    x = rng.choice(["i", "j", "k", "n"])
                    self.compr_vars.append(x)
                    self.tags.add("comprehension")
                    return (self.join(["{", x, "-", "(", lo, ")", ":", x, "in", "range", "(", lo, ",", hi, ",", st, ")", "}"]), L_BRACK)
            return (self.join(["range", "(", lo, ",", hi, ",", st, ")"]), L_ATOM)
        # comprehension
        self.tags.add("comprehension")
        x = rng.choice(["i", "j", "k", "n", "x", "y"])
        saved = dict(self.vars)
        src = self.g_arr(d - 1)
        gens = [(x, src)]
        self.vars[x] = "num"
        self.compr_vars.append(x)
        if rng.random() < 0.25:
            y = rng.choice([c for c in ["a", "b", "c", "m"] if c != x])
            gens.append((y, self.g_arr(d - 1)))
            self.vars[y] = "num"
        body = self.expr(rng.choice(["num", "num", "num", "bool", "qty", "intv", "arr"]), d - 1)
        conds = [self.g_bool(d - 1) for _ in range(rng.choice([0, 1, 1, 2]))]
        if rng.random() < 0.1:
            conds.append(self.expr("num", 0))       # a non-boolean condition
        self.vars = saved
        toks = ["{", body[0], ":"]
        clauses = [self.join([n, "in", s[0]]) for n, s in gens] + [c[0] if not re.match(r"^\w+\s+in\b", c[0]) else "(" + c[0] + ")" for c in conds]
        if len(clauses) > 1 and rng.random() < 0.3:
            # clauses may come in any order (generators are collected first)
            rng.shuffle(clauses)
        for i, c in enumerate(clauses):
            toks += ([","] if i else []) + [c]
        return (self.join(toks + ["}"]), L_BRACK)

    def g_intv(self, d):
        rng = self.rng
        self.tags.add("interval")
        v = self.pick_var(["intv"])
        if v and rng.random() < 0.2:
            self.tags.add("variable")
            return (v, L_ATOM)
        if d <= 0 or rng.random() < 0.4:
            r = rng.random()
            a, b = self.expr("num", max(0, d - 1)), self.expr("num", max(0, d - 1))
            if rng.random() < 0.3:
                a = (self.join(["-", self.at(a, L_FACT)]), L_SIGN)
            if r < 0.5:
                return (self.join(["[", a[0], ",", b[0], "]"]), L_BRACK)
            if r < 0.75:
                return (self.join([self.at(a, L_SUM), "±", self.at(b, L_PROD)]), L_SUM)
            return (self.join([rng.choice(["tol", "interval"]), "(", a[0], ",", b[0], ")"]), L_ATOM)
        r = rng.random()
        if r < 0.4:
            op = rng.choice(["+", "-", "*", "/"])
            lv = L_SUM if op in "+-" else L_PROD
            a, b = self.g_intv(d - 1), self.expr("num", d - 1)
            if op in "+*" and rng.random() < 0.4:
                return (self.join([self.at(b, lv), op, self.at(a, lv + 1)]), lv)
            return (self.join([self.at(a, lv), op, self.at(b, lv + 1)]), lv)
        if r < 0.55:
            a = self.g_intv(d - 1)
            return (self.join([self.at(a, L_BRACK), "^", rng.choice(["2", "3", "0", "-1", "0.5", "1/2", "-2"])]), L_POW)
        if r < 0.8:
            fn = rng.choice(["abs", "sqrt", "ln", "log2", "log10", "-", "+"])
            a = self.g_intv(d - 1)
            if fn in "-+":
                return (self.join([fn, "(", a[0], ")"]), L_SIGN)
            return (self.join([fn, "(", a[0], ")"]), L_ATOM)
        if r < 0.9:
            fn = rng.choice(["min", "max"])
            a, b = self.g_intv(d - 1), self.expr("num", d - 1)
            if rng.random() < 0.5:
                a, b = b, a
            return (self.join([fn, "(", a[0], ",", b[0], ")"]), L_ATOM)
        a = self.g_intv(d - 1)
        return (self.join(["log", "(", a[0], ",", rng.choice(["2", "10", "0.5", "e"]), ")"]), L_ATOM)

    # ---- instants (C17) ------------------------------------------------------------------------------
    def inst_lit(self):
        """an instant literal: month ends, leap days, year ends, first / last years; all six ISO forms; ~6 % malformed"""
        rng = self.rng
        self.tags.add("instant")
        r = rng.random()
        if r < 0.06:
            self.tags.add("instant-malformed")
            return "#" + rng.choice(["2020-02-30", "2021-13-01", "2019-02-29", "1900-02-29", "2020-00-10", "2020-04-31", "0000-01-01",
                                     "2020-01-01T24:00", "2020-01-01T10:60", "2020-01-01 10:00:60", "2020-13", "2020-1-1", "20200101",
                                     "abc", "", "2020-01-01T10", "2020-01-01T10:00:00+01:00", "2020-W01-1", " 2020-01-01"]) + "#"
        r = rng.random()
        if r < 0.15:
            y = rng.choice([1, 1, 2, 9998, 9999, 9999])
        elif r < 0.45:
            y = rng.choice([4, 100, 400, 1600, 1900, 1904, 2000, 2019, 2020, 2023, 2024, 2100, 2400, 9996])
        elif r < 0.8:
            y = rng.randint(1950, 2050)
        else:
            y = rng.randint(1, 9999)
        m = rng.choice([2, 2, 2, 12, 12, 1, rng.randint(1, 12), rng.randint(1, 12), rng.randint(1, 12)])
        import calendar
        n = calendar.monthrange(y, m)[1]
        d = rng.choice([n, n, n, 1, min(n, 28), min(n, 29), min(n, 30), rng.randint(1, n), rng.randint(1, n)])
        r = rng.random()
        if r < 0.06:
            return "#%04d#" % y
        if r < 0.12:
            return "#%04d-%02d#" % (y, m)
        date = "%04d-%02d-%02d" % (y, m, d)
        if r < 0.4:
            return "#" + date + "#"
        h, mi, sc = rng.choice([(0, 0, 0), (23, 59, 59), (12, 0, 0), (rng.randint(0, 23), rng.randint(0, 59), rng.randint(0, 59))])
        sep = " " if rng.random() < 0.25 else "T"
        r = rng.random()
        if r < 0.3:
            return "#%s%s%02d:%02d#" % (date, sep, h, mi)
        if r < 0.7:
            return "#%s%s%02d:%02d:%02d#" % (date, sep, h, mi, sc)
        k = rng.choice([1, 2, 3, 6, 6, 6, 7, 9])
        digs = rng.choice(["9" * k, "0" * (k - 1) + "1", "5" + "0" * (k - 1), "".join(rng.choice("0123456789") for _ in range(k))])
        return "#%s%s%02d:%02d:%02d.%s#" % (date, sep, h, mi, sc, digs)

    def g_span(self, d):
        """a time span: ms, s, min, h, days, weeks as int / fraction / float (sometimes through a variable or I - J)"""
        rng = self.rng
        self.tags.add("span")
        v = self.pick_var(["span"])
        if v and rng.random() < 0.25:
            self.tags.add("variable")
            return (v, L_ATOM)
        if d > 0 and rng.random() < 0.12:
            a, b = self.g_inst(d - 1), self.g_inst(d - 1)
            return (self.join([self.at(a, L_SUM), "-", self.at(b, L_PROD)]), L_SUM)
        unit = rng.choice(["ms", "s", "s", "min", "h", "d", "days", "week", "weeks", "seconds", "hours", "minutes", "μs", "ks"])
        r = rng.random()
        if r < 0.4:
            mag = rng.choice(["0", "1", "1", "2", "3", "7", "30", "59", "60", "90", "365", "1000", "86400", "86399", str(rng.randrange(0, 10 ** rng.randrange(1, 7)))])
        elif r < 0.65:
            mag = self.join([str(rng.randrange(1, 2000)), "/", rng.choice(["2", "3", "4", "7", "10", "1000", "3", "6", "2000000"])])
            mag = "(" + mag + ")" if rng.random() < 0.5 else mag
        elif r < 0.95:
            mag = rng.choice(["0.5", "1.5", "2.25", "0.001", "0.1", "1e-3", "2.5e-4", "0.0000005", "0.0000015", "1.0000005", "90.5", "3.3",
                              "1e-7", "123.456789", "0.3333333", "86399.9999995", "59.9999999"])
        else:
            mag = self.at(self.expr("num", max(0, d - 1)), L_SIGN)
        text = self.join([mag, unit])
        lv = L_QTY if "/" not in mag or mag.startswith("(") else L_PROD
        if rng.random() < 0.2:
            return (self.join(["-", "(", text, ")"]), L_SIGN)
        return (text, lv)

    def g_inst(self, d):
        rng = self.rng
        self.tags.add("instant")
        if d <= 0 or rng.random() < 0.4:
            v = self.pick_var(["inst"])
            if v and rng.random() < 0.4:
                self.tags.add("variable")
                return (v, L_ATOM)
            return (self.inst_lit(), L_ATOM)
        r = rng.random()
        if r < 0.35:
            a, q = self.g_inst(d - 1), self.g_span(d - 1)
            op = rng.choice(["+", "+", "-"])
            if op == "+" and rng.random() < 0.35:
                return (self.join([self.at(q, L_SUM), "+", self.at(a, L_PROD)]), L_SUM)
            return (self.join([self.at(a, L_SUM), op, self.at(q, L_PROD)]), L_SUM)
        if r < 0.6:
            a = self.g_inst(d - 1)
            n = rng.choice(["1", "1", "2", "7", "28", "29", "30", "31", "365", "366", "1000", "0", "36524", "146097", "10^7", "10^12", "3!"])
            if rng.random() < 0.15:
                n = self.at(self.expr("num", 0), L_PROD)
            op = rng.choice(["+", "+", "-"])
            if op == "+" and rng.random() < 0.35:
                return (self.join([n, "+", self.at(a, L_PROD)]), L_SUM)
            return (self.join([self.at(a, L_SUM), op, n]), L_SUM)
        if r < 0.85:
            a = self.g_inst(d - 1)
            return (self.join([rng.choice(["floor", "ceil"]), "(", a[0], ")"]), L_ATOM)
        if r < 0.93:
            # (I + q) - q, (I - q) + q: the calendar laws as programs
            a, q = self.g_inst(d - 1), self.g_span(0)
            o1, o2 = rng.choice([("+", "-"), ("-", "+")])
            return (self.join(["(", self.at(a, L_SUM), o1, self.at(q, L_PROD), ")", o2, self.at(q, L_PROD)]), L_SUM)
        # wrong-kind operands
        self.tags.add("ill-typed")
        a = self.g_inst(d - 1)
        b = rng.choice([self.g_qty(0, "len"), self.expr("str", 0), self.expr("arr", 0), ("2.5", L_ATOM), ("1/2", L_PROD), self.g_inst(0)])
        op = rng.choice(["+", "-", "*", "/", "^", "+"])
        lv = L_SUM if op in "+-" else L_PROD if op in "*/" else L_POW
        return (self.join([self.at(a, lv + (0 if op != "^" else 1)), op, self.at(b, lv + 1)]), lv)

    def g_instnum(self, d):
        """numbers out of instants: field accessors, comparisons, elapsed time in a unit"""
        rng = self.rng
        self.tags.add("instant")
        r = rng.random()
        if r < 0.45:
            a = self.g_inst(d)
            return (self.join([rng.choice(["year", "month", "day", "hour", "minute", "second"]), "(", a[0], ")"]), L_ATOM)
        if r < 0.8:
            a, b = self.g_inst(d), self.g_inst(d)
            if rng.random() < 0.25:
                b = a
            op = rng.choice(["<", "<=", "==", "!=", ">", ">="])
            self.tags.add("comparison")
            return (self.join([self.at(a, L_SUM), op, self.at(b, L_SUM)]), L_CMP)
        a, b = self.g_inst(d), self.g_inst(d)
        return (self.join([self.at(a, L_SUM), "-", self.at(b, L_PROD), "to", rng.choice(["s", "h", "d", "days", "weeks", "min", "ms"])]), L_TO)

    # ---- probability (C08) ---------------------------------------------------------------------------
    P_VALID = ["1/2", "0.5", "1/3", "0.3", "0.25", "3/10", "0.75", "99/100", "0", "1", "1/10", "0.999"]
    P_BAD = ["3/2", "-0.1", "1.5", "-1/2", "2", "1.0000001", "-1"]

    def threshold(self, d=0):
        rng = self.rng
        r = rng.random()
        if r < 0.55:
            k = rng.choice([-3, -1, 0, 0, 1, 1, 2, 3, 3, 4, 5, 6, 7, 9, 10, 11, 12, 20, 25])
            return (str(k), L_ATOM) if k >= 0 else ("(-%d)" % -k, L_ATOM)
        if r < 0.85:
            return (rng.choice(["2.5", "7/2", "(7/2)", "0.5", "1/2", "(-1/2)", "-2.5", "0.999999", "3.75", "10.5", "1/3", "0.1", "9/4", "1e-3", "4.0"]), L_PROD)
        if r < 0.93:
            return (rng.choice(["3!", "C(4,2)", "2^3", "10^12", "1e15", "300", "5000"]), L_FACT)
        return self.expr("num", max(0, d))

    def g_rv(self, d):
        rng = self.rng
        self.tags.add("random-variable")
        v = self.pick_var(["rv"])
        if v and rng.random() < 0.45:
            self.tags.add("variable")
            return (v, L_ATOM)
        bad = rng.random() < 0.1
        if bad:
            self.tags.add("invalid-parameter")
        k = rng.choice(["Binomial", "Binomial", "Poisson", "Geometric", "Bernoulli", "UniformInt", "Uniform", "Exponential", "Gaussian"])
        if k == "Binomial":
            n = rng.choice(["0", "-3", "2.5", "7/2"]) if bad and rng.random() < 0.5 else rng.choice(["1", "2", "5", "10", "10", "20", "23", "3!"])
            p = rng.choice(self.P_BAD) if bad and n not in ("0", "-3", "2.5", "7/2") else rng.choice(self.P_VALID)
            args = [n, p]
        elif k == "Poisson":
            args = [rng.choice(["0", "-2", "2.5", "1/2"]) if bad else rng.choice(["1", "2", "3", "10", "25", "40"])]
        elif k == "Geometric":
            args = [rng.choice(["0", "-1/2", "3/2", "1.5", "0.0"]) if bad else rng.choice(["1", "1/2", "1/3", "9/10", "1/10", "0.25", "0.7", "1/40"])]
        elif k == "Bernoulli":
            args = [rng.choice(self.P_BAD) if bad else rng.choice(self.P_VALID)]
        elif k == "UniformInt":
            lo, hi = rng.choice([(3, 2), (0, -1), ("1/2", 3), (1, "2.5")]) if bad else rng.choice([(1, 10), (0, 0), (3, 3), (-5, 4), (-3, -3), (2, 3), (-10, -4), (1, 6), (0, 100)])
            args = [str(lo), str(hi)]
        elif k == "Uniform":
            lo, hi = rng.choice([(2, 1), ("0.5", "0.25"), ("1/2", "1/3")]) if bad else rng.choice([(0, 10), (0, 1), (1, 1), ("-2.5", 3), ("1/3", "7/2"), (-4, -1), ("0.5", "2.5"), (0, "1/2"), ("1/4", 2)])
            args = [str(lo), str(hi)]
        elif k == "Exponential":
            args = [rng.choice(["0", "-1", "-0.5"]) if bad else rng.choice(["1", "2", "1/2", "0.1", "7", "2.5", "1/10"])]
        else:
            mu, sd = rng.choice([(0, 0), (1, -2), (1, "-1/2")]) if bad else rng.choice([(0, 1), ("1.5", 2), (-3, "1/2"), (10, "0.01"), ("1/3", 3), (100, 15), ("2.5", "0.5")])
            args = [str(mu), str(sd)]
        if rng.random() < 0.06:
            args = args[:-1] if rng.random() < 0.5 else args + ["1"]          # wrong arity
            self.tags.add("ill-typed")
        toks = [k, "("]
        for i, a in enumerate(args):
            toks += ([","] if i else []) + [a]
        return (self.join(toks + [")"]), L_ATOM)

    def g_event(self, d):
        rng = self.rng
        self.tags.add("event")
        v = self.pick_var(["event"])
        if v and rng.random() < 0.2:
            self.tags.add("variable")
            return (v, L_ATOM)
        x = self.g_rv(d)
        xs = self.at(x, L_SUM)
        r = rng.random()
        if r < 0.45:
            t = self.at(self.threshold(d - 1), L_SUM)
            op = rng.choice(["<", "<=", ">", ">="])
            return (self.join([xs, op, t] if rng.random() < 0.5 else [t, op, xs]), L_CMP)
        if r < 0.6:
            # X = k: mostly a small k inside the usual supports (pmf at 0 and 1 of a Bernoulli, the ends of a UniformInt)
            t = rng.choice(["0", "1", "1", "2", "3", "5", "10"]) if rng.random() < 0.75 else self.at(self.threshold(d - 1), L_SUM)
            return (self.join([xs, "=", t] if rng.random() < 0.85 else [t, "=", xs]), L_CMP)
        a, b = self.at(self.threshold(d - 1), L_SUM), self.at(self.threshold(d - 1), L_SUM)
        if r < 0.92:
            o1, o2 = rng.choice([("<", "<"), ("<", "<="), ("<=", "<"), ("<=", "<="), (">", ">"), (">", ">="), (">=", ">"), (">=", ">=")])
        else:
            o1, o2 = rng.choice([("<", ">"), (">=", "<"), ("<", "="), ("=", "<="), ("==", "<"), (">", "!=")])
            self.tags.add("chained")
        return (self.join([a, o1, xs, o2, b]), L_CMP)

    def g_prob(self, d):
        """numbers out of random variables: P(event), E(X), mean(X); occasionally a wrong-kind argument"""
        rng = self.rng
        self.tags.add("probability")
        r = rng.random()
        if r < 0.7:
            e = self.g_event(d)
            return (self.join(["P", "(", e[0], ")"]), L_ATOM)
        if r < 0.92:
            x = self.g_rv(d)
            return (self.join([rng.choice(["E", "mean"]), "(", x[0], ")"]), L_ATOM)
        self.tags.add("ill-typed")
        a = rng.choice([self.g_rv(d), self.expr("num", 0), self.g_inst(0), self.g_event(0), self.expr("arr", 0)])
        return (self.join([rng.choice(["P", "E", "mean", "P"]), "(", a[0], ")"]), L_ATOM)

    def g_arrx(self, d):
        """arrays of instants / random variables / events and comprehensions over them"""
        rng = self.rng
        self.tags.add("array")
        r = rng.random()
        n = rng.choice([1, 2, 2, 3])
        if r < 0.3:
            toks = ["{"]
            for i in range(n):
                toks += ([","] if i else []) + [self.g_inst(max(0, d - 1))[0]]
            return (self.join(toks + ["}"]), L_BRACK)
        if r < 0.42:
            toks = ["{"]
            for i in range(n):
                toks += ([","] if i else []) + [rng.choice([self.g_rv, self.g_event])(max(0, d - 1))[0]]
            return (self.join(toks + ["}"]), L_BRACK)
        self.tags.add("comprehension")
        saved = dict(self.vars)
        x = rng.choice(["t", "k", "X", "q", "D"])
        r = rng.random()
        if r < 0.4:
            src = ["{"]
            for i in range(n):
                src += ([","] if i else []) + [self.g_inst(0)[0]]
            src = self.join(src + ["}"])
            self.vars[x] = "inst"
            body = rng.choice([self.g_instnum(0), self.g_inst(1), self.g_instnum(0)])
        elif r < 0.7:
            src = self.join([rng.choice(["0", "1", "-1"]), "..", rng.choice(["3", "4", "6"])])
            X = self.g_rv(0)
            op = rng.choice(["<", "<=", ">", ">=", "=", "<", "<="])
            body = (self.join(["P", "(", X[0], op, x, ")"] if rng.random() < 0.7 else ["P", "(", x, op if op != "=" else "<", X[0], ")"]), L_ATOM)
        else:
            src = ["{"]
            for i in range(n):
                src += ([","] if i else []) + [self.g_rv(0)[0]]
            src = self.join(src + ["}"])
            self.vars[x] = "rv"
            body = self.g_prob(0)
        conds = []
        if rng.random() < 0.3:
            conds = [self.g_bool(0)[0]]
        self.vars = saved
        toks = ["{", body[0], ":", self.join([x, "in", src])]
        for c in conds:
            toks += [",", c if not re.match(r"^\w+\s+in\b", c) else "(" + c + ")"]
        return (self.join(toks + ["}"]), L_BRACK)

    def g_str(self, d):
        self.tags.add("string")
        return (self.rng.choice(['"abc"', '""', '"a b"', '"x=1; y"', '"3 m"', '"q"', '"{1,2}"']), L_BRACK)

    def g_bool(self, d):
        rng = self.rng
        self.tags.add("comparison")
        if rng.random() < 0.06:
            a, b = self.g_inst(max(0, d - 1)), self.g_inst(max(0, d - 1))
            return (self.join([self.at(a, L_SUM), rng.choice(["<", "<=", "==", "!=", ">", ">="]), self.at(b, L_SUM)]), L_CMP)
        r = rng.random()
        op = rng.choice(["<", "<=", "==", "!=", ">", ">=", "<", ">"])
        if r < 0.45:
            a, b = self.expr("num", max(0, d - 1)), self.expr("num", max(0, d - 1))
        elif r < 0.6:
            dim = rng.choice(["len", "time", "mass"])
            a, b = self.g_qty(max(0, d - 1), dim), self.g_qty(max(0, d - 1), dim if rng.random() < 0.9 else None)
        elif r < 0.7:
            a, b = self.g_intv(max(0, d - 1)), (self.expr("num", 0) if rng.random() < 0.6 else self.g_intv(0))
            if rng.random() < 0.4:
                a, b = b, a
        elif r < 0.78:
            # chained comparison (only random variables accept them: a diagnosed error)
            a, b, c = self.expr("num", 0), self.expr("num", 0), self.expr("num", 0)
            op2 = rng.choice(["<", "<=", ">", ">=", "=="])
            self.tags.add("chained")
            return (self.join([self.at(a, L_SUM), op, self.at(b, L_SUM), op2, self.at(c, L_SUM)]), L_CMP)
        elif r < 0.88:
            a = self.expr("num", max(0, d - 1))
            b = self.expr(rng.choice(["arr", "arr", "intv"]), max(0, d - 1))
            self.tags.add("membership")
            return (self.join([self.at(a, L_SUM), "in", self.at(b, L_SUM)]), L_CMP)
        elif r < 0.93:
            a, b = self.g_intv(max(0, d - 1)), self.expr("num", 0)
            return (self.join(["contains", "(", a[0], ",", b[0], ")"]), L_ATOM)
        else:
            a, b = self.expr(rng.choice(["str", "arr", "num"]), 0), self.expr(rng.choice(["str", "arr", "num"]), 0)
            op = rng.choice(["==", "!="])
        return (self.join([self.at(a, L_SUM), op, self.at(b, L_SUM)]), L_CMP)


def gen_program(rng, depth=None):
    g = Gen(rng)
    depth = depth if depth is not None else rng.choice([1, 2, 2, 3, 3, 4])
    nst = rng.choice([1, 1, 1, 2, 2, 3, 4])
    stmts = []
    for k in range(nst):
        last = k == nst - 1
        t = rng.choice(["num", "num", "num", "qty", "arr", "intv", "bool", "str", "lazy", "arrq",
                        "inst", "instnum", "prob", "prob", "arrx"] + (["rv", "rv", "inst", "span", "event"] if not last else ["rv", "event", "span"]))
        e = g.expr(t, depth if t not in ("inst", "instnum", "prob", "rv", "event", "span", "arrx") else min(depth, 2))
        text = e[0]
        if (not last and rng.random() < 0.8) or (last and rng.random() < 0.1):
            name = rng.choice(["x", "y", "z", "w", "total", "a1", "v_2", "pi" if rng.random() < 0.1 else "t", "m" if rng.random() < 0.2 else "u"])
            if t in ("rv", "event", "inst") and rng.random() < 0.5:
                name = {"rv": rng.choice(["X", "Y", "B"]), "event": "ev", "inst": rng.choice(["I", "J", "t0"])}[t]
            stmts.append(g.join([name, "=", text]))
            vt = {"qty": "qty:None", "lazy": "num", "arrq": "arrq", "instnum": "num", "prob": "num"}.get(t, t)
            g.vars[name] = vt
            g.tags.add("assignment")
        else:
            # an expression statement that begins `name =` would be an assignment: parenthesise
            stmts.append("(" + text + ")" if re.match(r"^\s*[A-Za-z_$€£¥μ][\w$€£¥μ]*\s*=[^=]", text) else text)
    if g.compr_vars and rng.random() < 0.3:
        # is a generator variable still bound after the comprehension?  (it must not be, unless assigned before)
        if rng.random() < 0.5:
            stmts.insert(0, g.join([g.compr_vars[0], "=", g.int_lit(True)]))
        stmts.append(rng.choice(g.compr_vars))
        nst = len(stmts)
    sep = rng.choice([";", "; ", " ; "])
    prog = sep.join(stmts)
    if rng.random() < 0.05:
        prog = rng.choice([" ", "  "]) + prog + rng.choice(["", " "])
    if nst > 1:
        g.tags.add("statements")
    if prog and rng.random() < 0.04:
        # a syntactically damaged program: the position of the diagnosed error is compared as well
        i = rng.randrange(len(prog))
        prog = prog[:i] + rng.choice(["", "", rng.choice(list("()[]{},;:|!^\"#@ 1x.")), ".."]) + prog[i + (1 if rng.random() < 0.6 else 0):]
        g.tags.add("damaged")
    return prog, sorted(g.tags)


def gen_programs(rng, n):
    """n well-formed whole programs (text, feature tags) mixing all modelled features; ~15 % are deliberately ill-typed."""
    return [gen_program(rng) for _ in range(n)]


def gen_sessions(rng, n):
    """n sessions of 2-5 inputs each; later inputs read what earlier ones assigned"""
    out = []
    for _ in range(n):
        g_inputs = []
        names = []
        for k in range(rng.choice([2, 3, 3, 4, 5])):
            prog, _ = gen_program(rng, depth=rng.choice([1, 2, 2, 3]))
            if names and rng.random() < 0.7:
                v = rng.choice(names)
                prog = rng.choice(["%s + 1", "%s", "%s * 2; %s", "{%s, 1}", "w0 = %s; w0", "{q : q in 1..3, q != %s}", "%s = 5", "q = %s; {q : q in 1..2}; q"]).replace("%s", v) \
                    if rng.random() < 0.6 else prog + "; " + v
            if rng.random() < 0.15:
                prog = rng.choice(["x = 1; 1/0", "y = 2; nosuch(1)", "z = {t : t in 1..3}; t", "x = 3; {x : x in 1..2}; x", "1 +", "x = ", "2 $$"])
            for m in re.finditer(r"(?:^|;)\s*([A-Za-z_]\w*)\s*=[^=]", prog):
                names.append(m.group(1))
            g_inputs.append(prog)
        out.append(g_inputs)
    return out
