"""Shared oracle: variables and units live in separate namespaces.

Assigning a value — a plain number OR A QUANTITY — to a name that also spells a unit (a registered symbol or name, or a
PREFIXED spelling that exists only through the prefix rule: kg, km, ms, mm, dt …) changes nothing about what that spelling
means after a magnitude or after `to`.  So in a session that holds such variables every quantity expression evaluates to what
it evaluates to in a fresh session, is displayed the same, and its re-entry text, evaluated IN THAT SESSION, gives the value
back (C15 observes the re-entry text where the GUI feeds it: into the same session)."""
import alias_common

ASSIGN = [("kg", "2 s"), ("km", "3"), ("mm", "2 kg"), ("m", "70 kg"), ("s", "5 m"), ("A", "3 m"), ("ms", "5 kg"), ("dt", "1 ms"), ("min", "7"),
          ("cm", "(1/2) K"), ("g", "9.81 m|s^2"), ("h", "6.626e-34 J s"), ("kB", "1.380649e-23 J|K"), ("ns", "2 m"), ("mol", "4"), ("K", "2 m"),
          ("as", "3 s"), ("hundred", "7 kg"), ("metres", "2 s"), ("kilometres", "1 s"), ("dozen", "1 m"), ("eur", "3 m"), ("B", "2 s")]
EXPRS = ["1 kg + 1000 g", "5 kg == 5 kilogram", "2 kg to kg", "3 mm", "1500 m to km", "20 ms to s", "3 km", "2 min", "1500 milliamperes",
         "{1 km, 2 min}", "1 kg * 1 m", "1 kg < 1 s", "2 + 1 km", "(7 ns to s) s to ns", "4 kB to B", "3 dt", "1 kg m | s^2 to N", "90 km | h to m | s",
         "5 cm + 5 mm", "2 mol", "300 K to degC", "1 h to min", "3 g to mg", "2 as A to C", "1 dozen", "2 hundred + 1", "10 metres to kilometres",
         "5 eur to eur", "8 b to B", "1 m^2 to cm^2", "60 kg to g", "1 A s to C", "(3 kg) * 2", "1 s + 1 ms"]


def run(ctx, prefix="ns", reentry=False):
    R, rng = ctx.real, ctx.rng
    T = R.types
    binds = rng.sample(ASSIGN, rng.randrange(6, len(ASSIGN) + 1))
    env = R.new_env()
    done = []
    for nm, val in binds:
        r = R.execute("%s = %s" % (nm, val), env=env)
        if r["status"] == 0 and not r["escaped"]:
            done.append("%s = %s" % (nm, val))
    setup = "; ".join(done)
    for ex in EXPRS:
        fresh = R.execute(ex)
        here = R.execute(ex, env=env)
        ctx.count("%s:%s" % (prefix, ex), bucket=prefix + "/units under same-named variables")
        a = (fresh["status"], fresh["out"], fresh["escaped"])
        b = (here["status"], here["out"], here["escaped"])
        how = "one EvalEnvironment: %s; then execute(%r) — against execute(%r) in a fresh environment" % (setup, ex, ex)
        if a != b:
            ctx.violation("%s-shadow:%s" % (prefix, ex), setup + "; " + ex, (fresh["out"].strip() or "status %s %s" % (fresh["status"], fresh["err"].strip()[:80])),
                          (here["out"].strip() or "status %s %s %s" % (here["status"], here["escaped"] or "", here["err"].strip()[:80])), how)
            continue
        if reentry and here["status"] == 0 and here["value"] is not None:
            try:
                text = R.interpret.stringify_result(here["value"], True)
            except Exception as e:  # noqa
                ctx.violation("%s-reentry:%s" % (prefix, ex), setup + "; " + ex, "a re-entry text", "stringify_result raised " + type(e).__name__, how)
                continue
            back = R.execute(text, env=env, brackets_for_frac=True)
            ctx.count("%s-re:%s" % (prefix, ex), bucket=prefix + "/re-entry in the same session")
            want = alias_common.deep_canon(here["value"], T)
            got = alias_common.deep_canon(back["value"], T) if (back["status"] == 0 and not back["escaped"]) else "status %s %s" % (back["status"], back["escaped"] or back["err"].strip()[:80])
            if not _same(want, got, here["value"], back.get("value"), T):
                ctx.violation("%s-reentry:%s" % (prefix, ex), setup + "; " + ex + "   then re-enter " + repr(text), want, got,
                              how + "; then execute(stringify_result(value, True)) in the SAME environment")


def _same(want, got, v, w, T):
    if want == got:
        return True
    # floats come back to the displayed precision only
    try:
        def mags(x):
            if isinstance(x, T.Quantity):
                d = tuple(x.qv.v.xs)
                return [float(x.mag)], (d if any(d) else ())      # a dimensionless quantity re-enters as the plain number it equals
            if isinstance(x, T.Array):
                ms, ds = [], []
                for e in x.contents:
                    a, b = mags(e)
                    ms += a
                    ds.append(b)
                return ms, tuple(ds)
            return [float(x)], ()
        a, da = mags(v)
        b, db = mags(w)
        return da == db and len(a) == len(b) and all(abs(x - y) <= 1e-5 * max(1.0, abs(x)) for x, y in zip(a, b))
    except Exception:  # noqa
        return False
