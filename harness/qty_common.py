"""Shared generator / reference evaluator for C03 (dimensions) and C04 (magnitudes)."""
import json, os, math
from fractions import Fraction
import core
from core import num_canon

OPS = ["+", "-", "*", "/", "<", "<=", "==", "!="]
KEYWORDS = {"in", "to"}


class DimError(Exception):
    pass


class RefError(Exception):
    """any other reason the reference says 'an error, not a value' (unit errors, division by zero …)"""


def load_units():
    return json.load(open(os.path.join(core.LEAN, "KaVerif", "Gen", "units.json")))


def frac_of(triple):
    return Fraction(triple[0], triple[1])


class Gen:
    def __init__(self, rng, R, units):
        self.rng, self.R, self.U = rng, R, units
        self.nb = len(units["base_units"])
        phys = [u for u in units["units"] if not u["cash"]]
        cash = [u for u in units["units"] if u["cash"]]
        self.pool = phys * 3 + rng.sample(cash, min(12, len(cash)))
        self.by_dim = {}
        for u in phys:
            self.by_dim.setdefault(tuple(u["dim"]), []).append(u)

    # ---- spellings
    def readings(self, name):
        """all readings of a spelling by the rule of C13: (unit singular name, prefix name or None); exact ones first"""
        if not hasattr(self, "_by_name"):
            self._by_name, self._by_sym = {}, {}
            for x in self.U["units"]:
                for k in {x["singular"], x["plural"]} if x["has_plural"] else {x["singular"]}:
                    self._by_name.setdefault(k, []).append(x["singular"])
                self._by_sym.setdefault(x["symbol"], []).append(x["singular"])
        exact = [(n, None) for n in self._by_name.get(name, [])] + [(n, None) for n in self._by_sym.get(name, [])]
        pref = []
        for p in self.U["prefixes"]:
            if name.startswith(p["name"]):
                pref += [(n, p["name"]) for n in self._by_name.get(name[len(p["name"]):], [])]
            if name.startswith(p["sym"]):
                pref += [(n, p["name"]) for n in self._by_sym.get(name[len(p["sym"]):], [])]
        return exact, pref

    def reads_as(self, name, u, pre):
        exact, pref = self.readings(name)
        want = (u["singular"], pre["name"] if pre else None)
        if exact:
            return len(set(exact)) == 1 and exact[0] == want
        # the same prefix can be listed twice (kilo): readings are compared as sets
        return set(pref) == {want}

    def spelling(self, u):
        rng = self.rng
        for _ in range(8):
            kind = rng.choice(["symbol", "singular", "plural"])
            if kind == "plural" and not u["has_plural"]:
                continue
            base = u[kind]
            pre = None
            if frac_of(u["offset"]) == 0 and rng.random() < 0.35:
                p = rng.choice(self.U["prefixes"])
                cand = (p["sym"] if kind == "symbol" else p["name"]) + base
                pre, name = p, cand
            else:
                name = base
            if name in KEYWORDS or not name.isascii() and rng.random() < 0.7:
                continue
            if not all(ch.isalnum() or ch in "_€$£¥μ" for ch in name) or name[0].isdigit():
                continue
            # the spelling must read as intended.  Decided by the property's own rule over the unit TABLE (never by asking the
            # lookup under test): a spelling that is itself a registered name/symbol means that unit; otherwise it must have
            # exactly one reading as name-prefix + unit name or symbol-prefix + unit symbol
            if not self.reads_as(name, u, pre):
                continue
            return name, pre
        return u["singular"], None

    def sig(self, dim=None):
        """a unit signature; returns (text, sexpr, spec list [(unit, prefix, exp)])"""
        rng = self.rng
        if dim is not None and tuple(dim) in self.by_dim and rng.random() < 0.8:
            specs = [(rng.choice(self.by_dim[tuple(dim)]), 1, False)]
        else:
            n = rng.choice([1, 1, 1, 2, 2, 3])
            specs = []
            for i in range(n):
                u = rng.choice(self.pool)
                e = rng.choice([1, 1, 1, 1, 2, 3, -1, -2, 2, 1, 1, 0])
                specs.append((u, e, False))
            if rng.random() < 0.15:
                # the same unit twice in one signature (`m m`, `s | s`): exponents must add up
                u, e, _ = rng.choice(specs)
                specs.insert(rng.randrange(len(specs) + 1), (u, rng.choice([1, 1, 2, -1]), False))
                n = len(specs)
            if n > 1 and rng.random() < 0.5:
                k = rng.randrange(1, n)
                specs = specs[:k] + [(u, e, True) for (u, e, _) in specs[k:]]
        parts, inv_parts, sx_u, sx_i, out = [], [], [], [], []
        same = {}
        for u, e, inv in specs:
            if id(u) in same and rng.random() < 0.7:
                name, pre = same[id(u)]                 # literally the same spelling again
            else:
                name, pre = self.spelling(u)
                same[id(u)] = (name, pre)
            t = name if e == 1 and rng.random() < 0.7 else "%s^%s%d" % (name, rng.choice(["", "", "+"]) if e >= 0 else "", e)
            cp = ".".join(str(ord(c)) for c in name)
            (inv_parts if inv else parts).append(t)
            (sx_i if inv else sx_u).append("(%s %d)" % (cp, e))
            out.append((u, pre, -e if inv else e))
        text = " ".join(parts) + (" | " + " ".join(inv_parts) if inv_parts else "")
        sx = "((u %s) (i %s))" % (" ".join(sx_u), " ".join(sx_i))
        return text, sx, out

    def number(self):
        rng = self.rng
        r = rng.random()
        if r < 0.1:
            # a leading sign binds tighter than unit attachment: `-40 degC` is (-40) degC
            v = rng.choice([1, 2, 5, 40, 273, 100])
            return "-%d" % v, "(lit i:%d)" % -v, Fraction(-v), False
        if r < 0.5:
            v = rng.choice([0, 1, 2, 3, 5, 6, 10, 12, 60, 100, 1000, 7])
            return str(v), "(lit i:%d)" % v, Fraction(v), False
        if r < 0.8:
            n, d = rng.randrange(1, 40), rng.randrange(2, 12)
            q = Fraction(n, d)
            c = num_canon(q.numerator if q.denominator == 1 else q)
            return "(%d/%d)" % (n, d), "(bin / (lit i:%d) (lit i:%d))" % (n, d), q, False
        f = round(rng.uniform(0.1, 50), rng.randrange(1, 4))
        if f == int(f):
            # parse_number applies simplify_number: an integral float literal is the int
            return repr(f), "(lit i:%d)" % int(f), Fraction(int(f)), False
        return repr(f), "(lit %s)" % num_canon(f), Fraction(f), True

    def tree(self, depth):
        """returns dict(text, sx, ref) where ref() evaluates the reference → (Fraction mag, dim or None, approx flag)"""
        rng = self.rng
        if depth <= 0 or rng.random() < 0.3:
            nt, nsx, nq, nf = self.number()
            if rng.random() < 0.8:
                st, ssx, specs = self.sig()
                return dict(kind="tag", text="%s %s" % (nt, st), sx="(tag %s %s)" % (nsx, ssx), num=(nq, nf), specs=specs)
            return dict(kind="lit", text=nt, sx=nsx, num=(nq, nf))
        r = rng.random()
        if r < 0.62:
            op = rng.choice(OPS if rng.random() < 0.4 else ["+", "-", "*", "/"])
            a = self.tree(depth - 1)
            if op in ("+", "-", "<", "<=", "==", "!=") and rng.random() < 0.75:
                b = self.same_dim_operand(a, depth - 1)      # mostly-valid generation
            else:
                b = self.tree(depth - 1)
            return dict(kind="bin", op=op, a=a, b=b, text="(%s) %s (%s)" % (a["text"], op, b["text"]),
                        sx="(bin %s %s %s)" % (op, a["sx"], b["sx"]))
        if r < 0.9:
            a = self.tree(depth - 1)
            d = self.dim_of(a)
            if rng.random() < 0.12:
                # an offset unit (or the kelvin) as target, whatever the source's dimension
                want = rng.choice(["degC", "degF", "kelvin"])
                u = next(x for x in self.U["units"] if x["singular"] == want)
                cp = ".".join(str(ord(c)) for c in u["singular"])
                return dict(kind="conv", a=a, specs=[(u, None, 1)], text="((%s) to %s)" % (a["text"], u["singular"]),
                            sx="(conv %s ((u (%s 1)) (i )))" % (a["sx"], cp))
            st, ssx, specs = self.sig(d if (d is not None and rng.random() < 0.8) else None)
            return dict(kind="conv", a=a, specs=specs, text="((%s) to %s)" % (a["text"], st), sx="(conv %s %s)" % (a["sx"], ssx))
        # tag a sub-expression (a number: fine; a quantity: error path)
        a = self.tree(depth - 1)
        st, ssx, specs = self.sig()
        return dict(kind="tagx", a=a, specs=specs, text="(%s) %s" % (a["text"], st), sx="(tag %s %s)" % (a["sx"], ssx))

    def same_dim_operand(self, a, depth):
        d = self.dim_of(a)
        if d is None or not any(d):
            nt, nsx, nq, nf = self.number()
            return dict(kind="lit", text=nt, sx=nsx, num=(nq, nf))
        nt, nsx, nq, nf = self.number()
        st, ssx, specs = self.sig(d)
        return dict(kind="tag", text="%s %s" % (nt, st), sx="(tag %s %s)" % (nsx, ssx), num=(nq, nf), specs=specs)

    def dim_of(self, t):
        try:
            v = ref_eval(t, self.nb)
            return v[1]
        except Exception:
            return None


def compose(specs, nb):
    """reference compose_units: (dim, factor, offset, exactness)"""
    dim = [0] * nb
    factor, offset, approx = Fraction(1), Fraction(0), False
    for u, pre, e in specs:
        m = frac_of(u["multiple"]) * (frac_of(pre["multiplier"]) if pre else 1)
        off = frac_of(u["offset"])
        if off != 0 and pre is not None:
            raise RefError("prefix on offset unit")
        if off != 0 and (len(specs) > 1 or e != 1):
            raise RefError("offset unit combined / exponent")
        for i, x in enumerate(u["dim"]):
            dim[i] += e * x
        if m != 1:
            factor *= m ** e
            if u["multiple"][2] == "float" or e < 0:
                approx = True          # float factor, or Python's int ** negative
        offset = off
    return tuple(dim), factor, offset, approx


def ref_eval(t, nb):
    k = t["kind"]
    if k == "lit":
        return (t["num"][0], None, t["num"][1])
    if k in ("tag", "tagx"):
        if k == "tag":
            mag, dim, ap = t["num"][0], None, t["num"][1]
        else:
            mag, dim, ap = ref_eval(t["a"], nb)
        if dim is not None:
            raise RefError("units on top of units")
        d, f, o, ap2 = compose(t["specs"], nb)
        return (f * mag + o, d, ap or ap2)
    if k == "conv":
        mag, dim, ap = ref_eval(t["a"], nb)
        d, f, o, ap2 = compose(t["specs"], nb)
        if dim is None:
            raise RefError("convert a plain number")
        if dim != d:
            raise DimError("convert to another dimension")
        if f == 0:
            raise RefError("zero factor")
        return ((mag - o) / f, None, ap or ap2)
    a = ref_eval(t["a"], nb)
    b = ref_eval(t["b"], nb)
    op = t["op"]
    ap = a[2] or b[2]
    if a[1] is None and b[1] is None:
        da = db = None
    else:
        da = a[1] if a[1] is not None else (0,) * nb
        db = b[1] if b[1] is not None else (0,) * nb
    if op == "*":
        return (a[0] * b[0], None if da is None else tuple(x + y for x, y in zip(da, db)), ap)
    if op == "/":
        if b[0] == 0:
            raise RefError("division by zero")
        return (a[0] / b[0], None if da is None else tuple(x - y for x, y in zip(da, db)), ap)
    if da != db:
        raise DimError("different dimensions")
    if op == "+":
        return (a[0] + b[0], da, ap)
    if op == "-":
        return (a[0] - b[0], da, ap)
    truth = {"<": a[0] < b[0], "<=": a[0] <= b[0], "==": a[0] == b[0], "!=": a[0] != b[0]}[op]
    return (Fraction(1 if truth else 0), None, ap)


def real_answer(R, text):
    k, v = R.value(text)
    T = R.types
    if k != "ok":
        return "err " + v, None
    if isinstance(v, T.Quantity):
        c = num_canon(v.mag)
        return "ok Q|%s|%s" % (c, ",".join(map(str, v.qv.v.xs))), v
    c = num_canon(v)
    return ("ok N|" + c if c else "ok other"), v


def run(ctx, which):
    """generate trees, run the real code, the model correspondence and the oracle for property `which`"""
    R = ctx.real
    T = R.types
    units = load_units()
    g = Gen(ctx.rng, R, units)
    n = ctx.n(900, 60000)
    cases = []
    seen = set()
    for i in range(n):
        t = g.tree(ctx.rng.choice([0, 1, 1, 2, 2, 3, 4] if ctx.quick() else [0, 1, 2, 3, 4, 5, 6]))
        text = t["text"]
        if text in seen:
            continue
        seen.add(text)
        ans, val = real_answer(R, text)
        how = "execute(%r)" % text
        try:
            want = ref_eval(t, g.nb)
            wk = "val"
        except DimError:
            want, wk = None, "dimerr"
        except RefError:
            want, wk = None, "referr"
        except (ZeroDivisionError, OverflowError):
            continue
        ctx.count(text, nontrivial=t["kind"] != "lit", bucket=wk + "/" + t["kind"])
        if i < 8:
            ctx.sample(dict(text=text, real=ans[:80], reference=wk))
        if ans.startswith("err py:") or ans == "err diverges":
            ctx.violation("qty-escape:" + text, text, "a value or a diagnosed error", ans, how)
        elif wk == "dimerr":
            if ans.startswith("ok"):
                ctx.violation("qty-dim-accepted:" + text, text, "an error (operands of different dimension)", ans[:120], how)
        elif wk == "val" and which == "C03":
            wd = want[1]
            if ans.startswith("ok"):
                gd = tuple(val.qv.v.xs) if isinstance(val, T.Quantity) else None
                if (gd or None) != (wd or None) and not (gd is not None and not any(gd) and wd is None) \
                        and not (wd is not None and not any(wd) and gd is None):
                    ctx.violation("qty-dim:" + text, text, "dimension %s" % (wd,), "dimension %s" % (gd,), how)
                elif (gd is None) != (wd is None) and wd is not None:
                    ctx.violation("qty-dim:" + text, text, "a quantity of dimension %s" % (wd,), ans[:100], how)
        elif wk == "val" and which == "C04":
            if not ans.startswith("ok"):
                if ans not in ("err overflow", "err divzero"):
                    ctx.violation("qty-mag-rejected:" + text, text, "the value %s" % want[0], ans, how)
            else:
                mag = val.mag if isinstance(val, T.Quantity) else val
                try:
                    got = Fraction(mag)
                except Exception:
                    got = None
                w = want[0]
                if got is None:
                    ctx.violation("qty-mag:" + text, text, str(w), ans[:100], how)
                elif not want[2]:
                    if got != w or isinstance(mag, float) or (w.denominator == 1) != (type(mag) is int):
                        ctx.violation("qty-mag-exact:" + text, text, "exactly %s (int when integral, else reduced fraction)" % w,
                                      "%r" % (mag,), how)
                else:
                    scale = max(abs(w), Fraction(1, 10**300))
                    if abs(got - w) > Fraction(1, 10**9) * scale and abs(w) > Fraction(1, 10**6):
                        # cancellation: compare against the operands' scale
                        if not cancellation(t, g.nb, abs(got - w)):
                            ctx.violation("qty-mag:" + text, text, "%.12g" % float(w), "%.12g" % float(got), how)
        cases.append(("qexp " + t["sx"], ans, text))

    def agree(real, model, info):
        if real == model:
            return True
        if real.startswith("err") and model.startswith("err"):
            return True                      # error classes of unit errors are not part of these properties
        ra, ma = real.split("|"), model.split("|")
        if len(ra) == len(ma) and ra[0] == ma[0] and ra[2:] == ma[2:] and ra[1].startswith("f:") and ma[1].startswith("f:"):
            return core.nums_agree(ra[1], ma[1], 1e-9)
        return False
    ctx.correspond("qexp", cases, agree=agree)
    spelling_sweep(ctx, which, g)
    return g


def spelling_sweep(ctx, which, g):
    """every prefix x every unit, by name and by symbol: `1 <spelling>` has the unit's dimension (C03) and the magnitude
    prefix factor x unit factor (C04).  Which spellings have a unique reading is decided from the unit TABLE by the rule of
    C13 (Gen.reads_as), never by the lookup under test; only a handful of the ~20 000 spellings are affected by a change to
    the lookup order, so the sweep is exhaustive in the thorough tier and a 5 000-spelling sample plus the short symbols in
    the quick tier."""
    R, T, rng = ctx.real, ctx.real.types, ctx.rng
    combos = []
    for u in g.U["units"]:
        if frac_of(u["offset"]) != 0:
            continue
        for p in g.U["prefixes"]:
            combos.append((p["sym"] + u["symbol"], u, p))
            combos.append((p["name"] + u["singular"], u, p))
            if u["has_plural"]:
                combos.append((p["name"] + u["plural"], u, p))
    if ctx.quick():
        short = [c for c in combos if len(c[0]) <= 3 and not c[1]["cash"]]
        combos = short + rng.sample(combos, min(len(combos), 5000))
    done = set()
    for name, u, p in combos:
        if name in done or name in KEYWORDS or not all(ch.isalnum() or ch in "_€$£¥μ" for ch in name) or name[0].isdigit():
            continue
        done.add(name)
        if not g.reads_as(name, u, p):
            continue
        text = "1 " + name
        k, v = R.value(text)
        ctx.count("spelling:" + name, bucket="spelling/" + ("symbol" if name == p["sym"] + u["symbol"] else "name"))
        how = "execute(%r)" % text
        if k != "ok" or not isinstance(v, T.Quantity):
            if k == "ok" and not any(u["dim"]):
                got_dim, mag = tuple(0 for _ in u["dim"]), v          # dimensionless units come back as plain numbers
            else:
                ctx.violation("spelling:" + name, text, "%s%s: a quantity" % (p["name"], u["singular"]), "%s %s" % (k, str(v)[:80]), how)
                continue
        else:
            got_dim, mag = tuple(v.qv.v.xs), v.mag
        if which == "C03":
            if tuple(got_dim) != tuple(u["dim"]):
                ctx.violation("spelling-dim:" + name, text, "dimension %s (%s%s)" % (tuple(u["dim"]), p["name"], u["singular"]),
                              "dimension %s" % (got_dim,), how)
            continue
        want = frac_of(u["multiple"]) * frac_of(p["multiplier"])
        try:
            got = Fraction(mag)
        except Exception:
            got = None
        exact = u["multiple"][2] != "float" and not isinstance(mag, float)
        if got is None or tuple(got_dim) != tuple(u["dim"]) or (got != want if exact else abs(got - want) > abs(want) * Fraction(1, 10**9)):
            ctx.violation("spelling-mag:" + name, text, "%s x %s = %s in base units" % (p["name"], u["singular"], want if exact else float(want)),
                          "%r of dimension %s" % (mag, got_dim), how)


def cancellation(t, nb, err):
    """True when the absolute error is within 1e-9 of the largest intermediate magnitude (a − b with a ≈ b)"""
    big = [Fraction(0)]

    def walk(x):
        try:
            v = ref_eval(x, nb)
            big[0] = max(big[0], abs(v[0]))
        except Exception:
            pass
        for k in ("a", "b"):
            if k in x:
                walk(x[k])
    walk(t)
    return err <= Fraction(1, 10**9) * big[0]
